"""C06 — event-mode conversion equals dense conversion and preserves the data.

A case is a random binned layout (bin grid 1-d over pixels, 1-d over tof, 2-d pixel x tof; empty bins, uneven
bins; event buffer contiguous / with gaps / bins stored out of order / a slice of a larger object; event
coordinate float64/float32/int64/int32; weights float32/float64 with or without variances; further event
coordinates and event masks; dense masks; unrelated coordinates; optional tof bin-edge coordinate; geometry
per pixel given as positions, as L1/L2/two_theta or as Ltotal/two_theta). Every applicable target is converted.

correspond: the Lean model (`convertBinned` with the symbolic kernel k(c,g) = (c,g)) predicts for every bin the
list of (event, geometry, payload) triples and the begin/end indices; the real result must have exactly that
structure, and every event value must equal BIT FOR BIT the real *dense* conversion of the predicted
(event coordinate, pixel geometry) pairs. For `wavelength` the model also executes the kernel numerically
(Float / Float32 / Int) and is compared bit for bit.
oracle: the same statement evaluated without the model (own flattening; single-event dense conversions;
2-d dense conversion of the bin edges; deep snapshot of the input before/after).
Beyond convert(): every kernel called directly with binned operands, and transform_coords with the gravity kernels
in the graph (keys C06:input-modified:<kernel>, C06:event-value-differs-from-dense:<kernel>,
C06:second-call-differs:<kernel>, C06:event-vs-dense-exception:<kernel>, C06:bin-sizes-changed:<kernel>).
Event unit and dtype are independent generator dimensions; elastic results are also compared with the documented
formula in exact decimal arithmetic (key C06:event-value-differs-from-formula:<target or kernel>).
"""
from __future__ import annotations

import os
import struct
import sys
import traceback

from ..translate import graphs as tr_graphs

PROP = 'C06'
LEAN_TARGETS = ['ScnVerif.Props.C06']
PROPS_FILE = 'ScnVerif/Props/C06.lean'
TRANSLATORS = [tr_graphs.translate]   # the `c06.kinds` op and the graph-level theorems use the generated graph tables
RULE = (
    'case = (layout, target, scatter); layouts are drawn from a seeded generator over grid kind x sizes x storage '
    'kind x event dtype x weight dtype/variances x geometry kind x edges/no edges x container; every applicable '
    'target of {wavelength, energy, dspacing, Q, Q_vec, energy_transfer(direct), energy_transfer(indirect)} x scatter '
    'is converted. Non-trivial = the conversion ran in event mode and in dense mode (or both raised the same '
    'exception class); distinct = distinct (layout seed, target, scatter). Per case also: which parts (dense bin-edge / '
    'event) the target has vs the model of ComputeRule; wavelength and energy_transfer executed numerically by the model. '
    'Two further streams go beyond convert(): (kernel) every kernel of conversion/tof.py and the gravity kernels of '
    'conversion/beamline.py called directly with BINNED operands (event tof/wavelength/energy/Q in units and dtypes that '
    'make internal conversions no-ops, e.g. wavelength in m, float64/float32/int64; per-pixel dense operands), and '
    '(graph) transform_coords with beamline(scatter=True) + elastic(wavelength) + the gravity kernels in the graph; for '
    'both: per-event result bit for bit vs the dense kernel on the flattened events (own flattening and the pairs the '
    'Lean model predicts), bit-level snapshot of all operands before/after, and a second call on the same input. '
    'Event-coordinate UNIT and DTYPE are independent dimensions everywhere: tof in ps/ns/us/ms/s x float64/float32/int64/'
    'int32 (integer values kept inside the dtype; no integer seconds), wavelength in m/angstrom/nm/pm, energy in meV/J/eV/'
    'ueV, Q in 1/angstrom,1/m,1/nm, scalar geometry in m/mm/angstrom x float64/float32, two_theta in rad/deg, bin edges '
    'optionally in another time unit than the events. Besides the real dense kernel (which shares the code under test) every '
    'elastic result (convert targets wavelength/energy/dspacing/Q and the nine elastic kernels) is compared with the '
    'documented formula evaluated in 60-digit decimal arithmetic on the exact event values (harness/tofkernels.py), '
    'tolerance by result dtype: float64 1e-11, float32 1e-5 (Q through two kernels: twice that).'
)
ASSUMPTIONS = [
    "scipp's C++ engine applies the scalar operation of a kernel to every event with the bin's dense operand "
    '(broadcasting): assumed by the model, validated bit for bit by the correspondence, not proved',
    'the dense conversion of the same values is the reference for "the value the dense formula gives" (the formulas '
    'themselves are C01/C05)',
]
TRUSTED = [
    'modelled, not verified: scipp transform_coords event handling (ComputeRule.__call__: _compute_with_events / '
    '_compute_pure_dense, _store_results), conversion/tof.py kernels being broadcasting-only',
    'translator harness/translate/graphs.py (graph tables used by the c06.kinds op)',
]

TARGETS = [
    ('wavelength', True, None), ('energy', True, None), ('dspacing', True, None), ('Q', True, None),
    ('Q_vec', True, None), ('energy_transfer', True, 'direct'), ('energy_transfer', True, 'indirect'),
    ('wavelength', False, None), ('energy', False, None),
]


KERNEL_BASE = 2_000_000   # case indices of the direct-kernel stream
GRAPH_BASE = 3_000_000    # case indices of the transform_coords-with-gravity-graph stream


def bits64(x: float) -> str:
    return struct.pack('>d', float(x)).hex()


def _err(e: BaseException) -> str:
    return 'err:' + type(e).__name__


# ---- case generation -------------------------------------------------------------------------------

def make_case(seed, idx):
    """everything about a layout, as plain numpy data; deterministic in (seed, idx)"""
    import numpy as np

    rng = np.random.default_rng([seed, idx, 606])
    grid = rng.choice(['pixel', 'pixel-tof', 'tof'], p=[0.3, 0.5, 0.2])
    npix = int(rng.integers(1, 7)) if grid != 'tof' else 1
    ntof = int(rng.integers(1, 6)) if grid != 'pixel' else 1
    nb = npix * ntof
    style = rng.choice(['uneven', 'sparse', 'all-empty', 'one-full', 'dense'], p=[0.4, 0.25, 0.05, 0.1, 0.2])
    if style == 'uneven':
        sizes = rng.geometric(0.15, nb) - 1
    elif style == 'sparse':
        sizes = np.where(rng.random(nb) < 0.6, 0, rng.integers(1, 12, nb))
    elif style == 'all-empty':
        sizes = np.zeros(nb, dtype=int)
    elif style == 'one-full':
        sizes = np.zeros(nb, dtype=int)
        sizes[rng.integers(nb)] = rng.integers(1, 40)
    else:
        sizes = rng.integers(3, 9, nb)
    sizes = sizes.astype(np.int64)
    storage = rng.choice(['contiguous', 'gaps', 'permuted', 'sliced'], p=[0.4, 0.2, 0.2, 0.2])
    if grid == 'tof' and storage == 'sliced':
        storage = 'contiguous'
    # buffer layout: begin per bin, total buffer length
    if storage == 'contiguous' or storage == 'sliced':
        begin = np.cumsum(sizes) - sizes
        nbuf = int(sizes.sum())
    elif storage == 'gaps':
        gaps = rng.integers(0, 4, nb + 1)
        begin = np.cumsum(sizes + gaps[:-1]) - sizes
        nbuf = int(sizes.sum() + gaps.sum())
    else:
        perm = rng.permutation(nb)
        begin = np.zeros(nb, dtype=np.int64)
        pos = 0
        for b in perm:
            begin[b] = pos
            pos += sizes[b]
        nbuf = int(sizes.sum())
    ev_dtype = str(rng.choice(['float64', 'float32', 'int64', 'int32'], p=[0.35, 0.25, 0.25, 0.15]))
    w_dtype = str(rng.choice(['float32', 'float64']))
    # event-coordinate UNIT is a dimension independent of the dtype (raw event_time_offset is integer ns / ps)
    urng = np.random.default_rng([seed, idx, 808])
    tof_unit = str(urng.choice(['ps', 'ns', 'us', 'ms', 's'], p=[0.2, 0.25, 0.3, 0.15, 0.1]))
    if ev_dtype.startswith('int') and tof_unit == 's':
        tof_unit = 'ms'      # integer seconds would all be 0
    lo_us, hi_us = (100.0, 2000.0) if (ev_dtype == 'int32' and tof_unit == 'ps') else (3000.0, 25000.0)
    tof_scale = {'ps': 1e6, 'ns': 1e3, 'us': 1.0, 'ms': 1e-3, 's': 1e-6}[tof_unit]
    tof = rng.uniform(lo_us, hi_us, nbuf) * tof_scale
    len_unit = str(urng.choice(['m', 'mm', 'angstrom'], p=[0.5, 0.35, 0.15]))
    len_scale = {'m': 1.0, 'mm': 1e3, 'angstrom': 1e10}[len_unit]
    geo_dtype = str(urng.choice(['float64', 'float32'], p=[0.65, 0.35]))
    edges_unit = tof_unit if urng.random() < 0.8 else str(urng.choice(['us', 'ms', 'ns']))
    geom_kind = str(rng.choice(['positions', 'L1L2theta', 'Ltotal-theta']))
    case = {
        'seed': int(seed), 'idx': int(idx), 'grid': str(grid), 'npix': npix, 'ntof': ntof, 'style': str(style),
        'storage': str(storage), 'sizes': sizes, 'begin': begin.astype(np.int64), 'nbuf': nbuf,
        'ev_dtype': ev_dtype, 'w_dtype': w_dtype, 'variances': bool(rng.random() < 0.6),
        'tof': tof.astype(ev_dtype), 'weights': rng.random(nbuf).astype(w_dtype) * 10,
        'vars': rng.random(nbuf).astype(w_dtype),
        'pulse_time': rng.integers(0, 1000, nbuf),
        'event_mask': (rng.random(nbuf) < 0.3) if rng.random() < 0.5 else None,
        'edges': bool(rng.random() < 0.6) and grid != 'pixel',
        'tof_edges': (np.linspace(lo_us, hi_us, ntof + 1) + np.sort(rng.uniform(0, 50, ntof + 1)))
        * {'ps': 1e6, 'ns': 1e3, 'us': 1.0, 'ms': 1e-3, 's': 1e-6}[edges_unit],
        'tof_unit': tof_unit, 'edges_unit': edges_unit, 'len_unit': len_unit, 'len_scale': len_scale, 'geo_dtype': geo_dtype,
        'geom_kind': geom_kind,
        'position': rng.normal(size=(npix, 3)) * 2.0 + np.array([0.2, -0.1, 4.0]),
        'source_position': rng.normal(size=3) + np.array([0.0, 0.1, -15.0]),
        'sample_position': rng.normal(size=3) * 0.3,
        'L1': float(rng.uniform(8.0, 20.0)), 'L2': rng.uniform(1.0, 5.0, npix), 'Ltotal': rng.uniform(10.0, 30.0, npix),
        'two_theta': rng.uniform(0.1, 3.0, npix),
        'incident_energy': float(rng.uniform(30.0, 120.0)), 'final_energy': rng.uniform(20.0, 100.0, npix),
        'pixel_mask': rng.random(npix) < 0.3, 'bin_mask': (rng.random((npix, ntof)) < 0.2) if rng.random() < 0.5 else None,
        'detid': rng.integers(0, 10000, npix), 'temperature': float(rng.uniform(1, 300)),
        'container': str(rng.choice(['DataArray', 'Dataset'], p=[0.8, 0.2])),
        'slice': None,
        # bin grid stored as [tof, spectrum] instead of [spectrum, tof]
        'transposed': bool(grid == 'pixel-tof' and rng.random() < 0.3),
    }
    if storage == 'sliced' and npix >= 2 and idx < KERNEL_BASE:
        a = int(rng.integers(0, npix - 1))
        b = int(rng.integers(a + 1, npix + 1))
        case['slice'] = (a, b)
    return case


def build(case, mode=None):
    """the real binned DataArray of a case (before slicing: `full`; what is converted: `da`)"""
    import numpy as np
    import scipp as sc

    npix, ntof, grid = case['npix'], case['ntof'], case['grid']
    data = sc.array(dims=['event'], values=case['weights'], unit='counts')
    if case['variances']:
        data.variances = case['vars']
    table = sc.DataArray(data, coords={
        'tof': sc.array(dims=['event'], values=case['tof'], unit=case['tof_unit']),
        'pulse_time': sc.array(dims=['event'], values=case['pulse_time'], unit='ms'),
    })
    if case['event_mask'] is not None:
        table.masks['em'] = sc.array(dims=['event'], values=case['event_mask'])
    if grid == 'pixel':
        sizes = {'spectrum': npix}
    elif grid == 'tof':
        sizes = {'tof': ntof}
    elif case['transposed']:
        sizes = {'tof': ntof, 'spectrum': npix}
    else:
        sizes = {'spectrum': npix, 'tof': ntof}
    begin = sc.array(dims=['x'], values=case['begin'], unit=None).fold('x', sizes=sizes)
    end = sc.array(dims=['x'], values=case['begin'] + case['sizes'], unit=None).fold('x', sizes=sizes)
    da = sc.DataArray(sc.bins(begin=begin, end=end, dim='event', data=table))
    for n, v in geometry_coords(case, mode).items():
        da.coords[n] = v
    if case['edges']:
        da.coords['tof'] = sc.array(dims=['tof'], values=case['tof_edges'], unit=case['edges_unit'])
    if grid != 'tof':
        da.coords['detid'] = sc.array(dims=['spectrum'], values=case['detid'], unit=None)
        da.masks['pm'] = sc.array(dims=['spectrum'], values=case['pixel_mask'])
    da.coords['temperature'] = sc.scalar(case['temperature'], unit='K')
    if case['bin_mask'] is not None:
        bm = case['bin_mask']
        if grid == 'pixel':
            da.masks['bm'] = sc.array(dims=['spectrum'], values=bm[:, 0])
        elif grid == 'tof':
            da.masks['bm'] = sc.array(dims=['tof'], values=bm[0, :])
        elif case['transposed']:
            da.masks['bm'] = sc.array(dims=['tof', 'spectrum'], values=bm.T)
        else:
            da.masks['bm'] = sc.array(dims=['spectrum', 'tof'], values=bm)
    full = da
    if case['slice'] is not None:
        a, b = case['slice']
        da = full['spectrum', a:b]
    return full, da


def geometry_coords(case, mode, dim='spectrum', index=None):
    """geometry (and inelastic energy) coordinates; per pixel on `dim`, or gathered by `index` (event -> pixel)"""
    import numpy as np
    import scipp as sc

    scalar_pix = case['grid'] == 'tof'

    def per_pixel(vals, unit, vec=False):
        vals = np.asarray(vals)
        if index is not None:
            vals = vals[index]
            return sc.vectors(dims=[dim], values=vals, unit=unit) if vec else sc.array(dims=[dim], values=vals, unit=unit)
        if scalar_pix:
            return sc.vector(value=vals[0], unit=unit) if vec else sc.scalar(float(vals[0]), unit=unit)
        return sc.vectors(dims=[dim], values=vals, unit=unit) if vec else sc.array(dims=[dim], values=vals, unit=unit)

    out = {}
    k = case['geom_kind']
    lu, ls, gd = case['len_unit'], case['len_scale'], case['geo_dtype']   # geometry unit and dtype are dimensions too
    if k == 'positions':
        out['position'] = per_pixel(case['position'] * ls, lu, vec=True)
        out['source_position'] = sc.vector(value=case['source_position'] * ls, unit=lu)
        out['sample_position'] = sc.vector(value=case['sample_position'] * ls, unit=lu)
    elif k == 'L1L2theta':
        out['L1'] = sc.scalar(case['L1'] * ls, unit=lu).astype(gd)
        out['L2'] = per_pixel(case['L2'] * ls, lu).astype(gd)
        out['two_theta'] = per_pixel(case['two_theta'], 'rad').astype(gd)
    else:
        out['Ltotal'] = per_pixel(case['Ltotal'] * ls, lu).astype(gd)
        out['two_theta'] = per_pixel(case['two_theta'], 'rad').astype(gd)
    if mode == 'direct':
        out['incident_energy'] = sc.scalar(case['incident_energy'], unit='meV')
    elif mode == 'indirect':
        out['final_energy'] = per_pixel(case['final_energy'], 'meV')
    return out


def applicable(case, target, scatter, mode):
    k = case['geom_kind']
    if not scatter:
        return k in ('positions', 'Ltotal-theta')
    if target == 'Q_vec':
        return k == 'positions'
    if target == 'energy_transfer':
        return k in ('positions', 'L1L2theta')
    return True


def converted_view(case):
    """(sizes, order, pixel) of the object that is converted (after slicing): bin sizes in row-major bin order,
    `order[t]` = index in the input event buffer of event number t (bin order), `pixel[b]` = pixel of bin b"""
    import numpy as np

    npix, ntof = case['npix'], case['ntof']
    pix = np.arange(npix)
    if case['transposed']:
        sizes = case['sizes'].reshape(ntof, npix)
        begin = case['begin'].reshape(ntof, npix)
        if case['slice'] is not None:
            a, b = case['slice']
            sizes, begin, pix = sizes[:, a:b], begin[:, a:b], pix[a:b]
        pixel = np.tile(pix, ntof)
    else:
        sizes = case['sizes'].reshape(npix, ntof)
        begin = case['begin'].reshape(npix, ntof)
        if case['slice'] is not None:
            a, b = case['slice']
            sizes, begin, pix = sizes[a:b], begin[a:b], pix[a:b]
        pixel = np.repeat(pix, ntof)
    sizes_f, begin_f = sizes.ravel(), begin.ravel()
    order = np.concatenate([np.arange(b, b + s) for b, s in zip(begin_f, sizes_f)] + [np.zeros(0, dtype=np.int64)]).astype(np.int64)
    return sizes_f, order, pixel, pix


def canon(var):
    import numpy as np

    v = np.ascontiguousarray(var.values)
    out = [str(var.dtype), str(var.unit), tuple(int(s) for s in var.shape), v.tobytes().hex()]
    if var.variances is not None:
        out.append(np.ascontiguousarray(var.variances).tobytes().hex())
    return tuple(out)


def snapshot(da):
    """deep, bit-level snapshot of a binned DataArray"""
    c = da.bins.constituents
    snap = {
        'begin': canon(c['begin']), 'end': canon(c['end']),
        'data': canon(c['data'].data),
        'ecoords': {n: canon(v) for n, v in c['data'].coords.items()},
        'emasks': {n: canon(v) for n, v in c['data'].masks.items()},
        'coords': {n: canon(v) for n, v in da.coords.items()},
        'masks': {n: canon(v) for n, v in da.masks.items()},
        'dims': tuple(da.dims), 'shape': tuple(da.shape),
    }
    return snap


def dense_events(case, mode, tof_vals, pixels, unit=None):
    """a dense DataArray over dim 'event': the given event coordinate values with the geometry of the given pixels"""
    import numpy as np
    import scipp as sc

    n = len(tof_vals)
    dd = sc.DataArray(sc.array(dims=['event'], values=np.ones(n)))
    dd.coords['tof'] = sc.array(dims=['event'], values=np.asarray(tof_vals), unit=unit or case['tof_unit'])
    for name, v in geometry_coords(case, mode, dim='event', index=np.asarray(pixels, dtype=np.int64)).items():
        dd.coords[name] = v
    return dd


def run_both(da, target, scatter):
    import scippneutron as scn

    try:
        return scn.convert(da, 'tof', target, scatter=scatter), None
    except Exception as e:  # noqa: BLE001
        return None, _err(e)


# ---- one case ---------------------------------------------------------------------------------------------

def run_case(case, layout_line, edges_line, kinds=None):
    """returns list of per-target records"""
    import numpy as np
    import scipp as sc
    import scipp.constants as const

    sizes_f, order, pixel_of_bin, pix = converted_view(case)
    nb = len(sizes_f)
    # model prediction
    m_ranges, m_bins = layout_line.split('|')
    pred_ranges = [] if m_ranges == '-' else [tuple(int(x) for x in r.split('-')) for r in m_ranges.split(',')]
    pred_bins = []
    if nb:
        for b in m_bins.split(';'):
            pred_bins.append([tuple(int(x) for x in e.split('.')) for e in b.split(',')] if b else [])
    pred_flat = [e for b in pred_bins for e in b]
    records = []
    for target, scatter, mode in TARGETS:
        if not applicable(case, target, scatter, mode):
            continue
        rec = {'target': target, 'scatter': scatter, 'mode': mode, 'dis': [], 'viol': [], 'numeric': None}
        records.append(rec)
        full, da = build(case, mode)
        snap_full = snapshot(full)
        snap = snapshot(da)
        arg = sc.Dataset({'a': da}) if case['container'] == 'Dataset' else da
        res, err = run_both(arg, target, scatter)
        if res is not None and case['container'] == 'Dataset':
            res = res['a']
        # --- input unchanged
        if snapshot(full) != snap_full or snapshot(da) != snap:
            rec['viol'].append(('C06:input-modified', 'the input object differs (bit level) after convert()'))
        # --- expectation from the model's (event, geometry) pairs through the real DENSE conversion
        in_tof = case['tof']
        ev_tof = in_tof[order[[c for c, _, _ in pred_flat]]] if pred_flat else in_tof[:0]
        ev_pix = pixel_of_bin[[g for _, g, _ in pred_flat]] if pred_flat else np.zeros(0, dtype=np.int64)
        dres, derr = run_both(dense_events(case, mode, ev_tof, ev_pix), target, scatter)
        rec['outcome'] = 'ok' if res is not None else err
        if (res is None) != (dres is None) or (res is None and err != derr):
            rec['viol'].append(('C06:event-vs-dense-exception',
                                f'event mode gives {rec["outcome"]}, dense conversion of the same values gives {"ok" if dres is not None else derr}'))
            continue
        if res is None:
            continue
        c = res.bins.constituents
        buf = c['data']
        if target not in buf.coords:
            rec['viol'].append(('C06:no-event-coordinate', f'result has no event coordinate {target!r}'))
            continue
        real_begin = [int(x) for x in np.asarray(c['begin'].values).ravel()]
        real_end = [int(x) for x in np.asarray(c['end'].values).ravel()]
        # structure predicted by the model
        if list(zip(real_begin, real_end)) != pred_ranges:
            rec['dis'].append(('ranges', list(zip(real_begin, real_end))[:8], pred_ranges[:8]))
        exp = dres.coords[target]
        got = buf.coords[target]
        if canon(got)[:2] != canon(exp)[:2]:
            rec['dis'].append(('dtype/unit', canon(got)[:2], canon(exp)[:2]))
        gv = np.ascontiguousarray(got.values)
        xv = np.ascontiguousarray(exp.values)
        if gv.shape != xv.shape or gv.tobytes() != xv.tobytes():
            bad = int(np.argmax(gv.view(np.uint8).reshape(len(gv), -1) != xv.view(np.uint8).reshape(len(xv), -1)).item()) if gv.shape == xv.shape and len(gv) else -1
            rec['dis'].append(('event values', str(gv[:4]), str(xv[:4]), bad))
        # payload: weights / variances / other event coords / event masks by the model's payload tokens
        src = order[[p for _, _, p in pred_flat]] if pred_flat else order[:0]
        if np.ascontiguousarray(buf.data.values).tobytes() != np.ascontiguousarray(case['weights'][src]).tobytes():
            rec['dis'].append(('weights',))
        if case['variances']:
            if buf.data.variances is None or np.ascontiguousarray(buf.data.variances).tobytes() != np.ascontiguousarray(case['vars'][src]).tobytes():
                rec['dis'].append(('variances',))
        elif buf.data.variances is not None:
            rec['dis'].append(('variances appeared',))
        # the origin coordinate is not "unrelated": only compared when it is kept
        if 'tof' in buf.coords and np.ascontiguousarray(buf.coords['tof'].values).tobytes() != np.ascontiguousarray(in_tof[src]).tobytes():
            rec['dis'].append(('event tof',))
        if 'pulse_time' not in buf.coords or np.ascontiguousarray(buf.coords['pulse_time'].values).tobytes() != np.ascontiguousarray(case['pulse_time'][src]).tobytes():
            rec['dis'].append(('event pulse_time',))
        if case['event_mask'] is not None:
            if 'em' not in buf.masks or not np.array_equal(buf.masks['em'].values, case['event_mask'][src]):
                rec['dis'].append(('event mask',))
        # --- which parts (dense bin-edge coordinate / event coordinate) the target has: model of ComputeRule
        if kinds is not None and (target, scatter, mode) in kinds:
            real_kind = ('D' if target in res.coords else '') + ('E' if target in res.bins.coords else '')
            rec['kind'] = real_kind
            if real_kind != kinds[(target, scatter, mode)]:
                rec['dis'].append(('parts of the target (D=dense, E=event)', real_kind, kinds[(target, scatter, mode)]))
        # --- edge coordinate through the model's pairs
        if case['edges']:
            rows = [[tuple(int(x) for x in e.split('.')) for e in r.split(',')] for r in edges_line.split(';')] if edges_line else []
            flat = [e for r in rows for e in r]
            e_tof = case['tof_edges'][[c for c, _ in flat]]
            e_pix = pix[[g for _, g in flat]]
            eres, eerr = run_both(dense_events(case, mode, e_tof, e_pix, unit=case['edges_unit']), target, scatter)
            if target not in res.coords:
                rec['dis'].append(('edge coordinate missing',))
            elif eres is None:
                rec['dis'].append(('edge dense', eerr))
            else:
                gc = res.coords[target]
                ev = np.ascontiguousarray(eres.coords[target].values).reshape(len(rows), case['ntof'] + 1, *eres.coords[target].values.shape[1:])
                gvv = np.asarray(gc.values)
                if 'spectrum' in gc.dims and gc.dims[0] != 'spectrum':
                    gvv = np.swapaxes(gvv, 0, 1)
                if 'spectrum' not in gc.dims:
                    gvv = np.broadcast_to(gvv[None, ...], ev.shape)
                if gvv.shape != ev.shape or np.ascontiguousarray(gvv).tobytes() != ev.tobytes() or str(gc.unit) != str(eres.coords[target].unit):
                    rec['dis'].append(('edge values', str(gvv.ravel()[:3]), str(ev.ravel()[:3])))
        # --- numeric model instance (wavelength): needs Ltotal per bin
        if target == 'wavelength' and 'Ltotal' in res.coords and case['grid'] != 'tof' and len(order):
            L = res.coords['Ltotal']
            if L.dims == ('spectrum',) and str(L.dtype) == 'float64':
                cc = float(sc.to_unit(const.h / const.m_n, sc.units.angstrom * L.unit / sc.Unit(case['tof_unit'])).value)
                Lbin = np.asarray(L.values)[np.searchsorted(pix, pixel_of_bin)]
                tv = in_tof[order]
                if case['ev_dtype'] == 'float64':
                    op, ts = 'c06.wl64', [bits64(x) for x in tv]
                elif case['ev_dtype'] == 'float32':
                    op, ts = 'c06.wl32', [struct.pack('>f', float(x)).hex() for x in tv]
                else:
                    op, ts = 'c06.wli', [str(int(x)) for x in tv]
                line = f'{op} {bits64(cc)} {",".join(str(int(s)) for s in sizes_f)} {",".join(bits64(x) for x in Lbin)} {",".join(ts)}'
                if case['ev_dtype'] == 'float32':
                    real = [struct.pack('>f', float(x)).hex() for x in gv]
                else:
                    real = [bits64(x) for x in gv]
                rec['numeric'] = (line, ['nan' if (v != v) else x for x, v in zip(real, gv)])
        if target == 'energy_transfer' and case['grid'] != 'tof' and len(order) and 'L1' in res.coords and 'L2' in res.coords:
            l1, l2 = res.coords['L1'], res.coords['L2']
            en = res.coords['incident_energy' if mode == 'direct' else 'final_energy']
            if (all(str(x.dtype) == 'float64' for x in (l1, l2, en)) and l1.unit == l2.unit
                    and str(en.unit) == 'meV' and str(got.dtype) == 'float64'):
                npx = len(pix)

                def per_bin(v):
                    a = np.asarray(v.values, dtype=np.float64)
                    a = np.broadcast_to(a, (npx,)) if a.ndim == 0 else a
                    return a[np.searchsorted(pix, pixel_of_bin)]

                cc = float(sc.to_unit(const.m_n / 2, sc.Unit('meV') * (sc.Unit(case['tof_unit']) / l1.unit) ** 2).value)
                tv = in_tof[order].astype(np.float64)
                line = ' '.join([
                    'c06.etd' if mode == 'direct' else 'c06.eti', bits64(cc), ','.join(str(int(x)) for x in sizes_f),
                    ','.join(bits64(x) for x in per_bin(l1)), ','.join(bits64(x) for x in per_bin(l2)),
                    ','.join(bits64(x) for x in per_bin(en)), ','.join(bits64(x) for x in tv)])
                rec['numeric'] = (line, ['nan' if np.isnan(x) else bits64(x) for x in gv])
        # --- oracle: the property statement without the model
        oracle_checks(case, mode, target, scatter, da, res, snap, rec)
    return records


def oracle_checks(case, mode, target, scatter, da, res, snap, rec):
    import numpy as np
    import scipp as sc

    sizes_f, order, pixel_of_bin, pix = converted_view(case)
    viol = rec['viol']
    # bin sizes / membership
    got_sizes = np.asarray(res.bins.size().values).ravel()
    if not np.array_equal(got_sizes, sizes_f):
        viol.append(('C06:bin-sizes-changed', f'bin sizes {got_sizes.tolist()[:10]} != {sizes_f.tolist()[:10]}'))
        return
    if tuple(res.shape) != snap['shape']:
        viol.append(('C06:shape-changed', f'{tuple(res.shape)} != {snap["shape"]}'))
    # own flattening: events bin by bin
    ev_pix = np.repeat(pixel_of_bin, sizes_f)
    out_vals, out_w, out_var, out_pt = [], [], [], []
    flat_res = res.copy(deep=False)
    rb = flat_res.bins.constituents
    rbeg, rend = np.asarray(rb['begin'].values).ravel(), np.asarray(rb['end'].values).ravel()
    rdata = rb['data']
    for b in range(len(sizes_f)):
        sl = slice(int(rbeg[b]), int(rend[b]))
        out_vals.append(np.asarray(rdata.coords[target].values)[sl])
        out_w.append(np.asarray(rdata.data.values)[sl])
        if rdata.data.variances is not None:
            out_var.append(np.asarray(rdata.data.variances)[sl])
        if 'pulse_time' in rdata.coords:
            out_pt.append(np.asarray(rdata.coords['pulse_time'].values)[sl])
    cat = lambda xs, like: np.concatenate(xs) if xs else like[:0]  # noqa: E731
    in_tof = case['tof'][order]
    dres, derr = run_both(dense_events(case, mode, in_tof, ev_pix), target, scatter)
    if dres is None:
        viol.append(('C06:event-vs-dense-exception', f'dense conversion raised {derr}, event mode did not'))
        return
    xv = np.ascontiguousarray(dres.coords[target].values)
    gv = np.ascontiguousarray(cat(out_vals, xv))
    if gv.dtype != xv.dtype or gv.shape != xv.shape or gv.tobytes() != xv.tobytes():
        k = -1
        if gv.shape == xv.shape and len(gv):
            k = int(np.argmax(np.any((gv.view(np.uint8).reshape(len(gv), -1) != xv.view(np.uint8).reshape(len(xv), -1)), axis=1)))
        viol.append(('C06:event-value-differs-from-dense',
                     f'event {k}: event mode {gv[k] if k >= 0 else gv.shape} vs dense conversion {xv[k] if k >= 0 else xv.shape} '
                     f'(dtype {gv.dtype}/{xv.dtype})'))
    if str(rdata.coords[target].unit) != str(dres.coords[target].unit):
        viol.append(('C06:event-unit-differs-from-dense', f'{rdata.coords[target].unit} vs {dres.coords[target].unit}'))
    # the documented formula in exact arithmetic on the event values (the dense conversion shares the kernels' code)
    fk = FORMULA_OF_TARGET.get(target) or ('wavelength_from_tof' if target == 'Q' else None)
    if fk and 'Ltotal' in res.coords and (fk == 'wavelength_from_tof' and target != 'Q' or fk == 'energy_from_tof'
                                          or 'two_theta' in res.coords):
        loc = np.searchsorted(pix, ev_pix)

        def per_event(v):
            a = np.asarray(v.values)
            return np.broadcast_to(a, (len(pix),))[loc] if a.ndim <= 1 else None

        ops = {'tof': (in_tof, case['tof_unit']), 'Ltotal': (per_event(res.coords['Ltotal']), res.coords['Ltotal'].unit)}
        if fk == 'dspacing_from_tof' or target == 'Q':
            ops['two_theta'] = (per_event(res.coords['two_theta']), res.coords['two_theta'].unit)
        if all(v is not None for v, _ in ops.values()):
            err, k, tol, note = formula_error(fk, ops, gv, str(gv.dtype), rdata.coords[target].unit, then_q=(target == 'Q'))
            if not err <= tol:
                viol.append((f'C06:event-value-differs-from-formula:{target}',
                             f'event {k}: tof {in_tof[k] if k >= 0 else ""} {case["tof_unit"]} ({case["ev_dtype"]}) -> {target} = '
                             f'{gv[k] if k >= 0 else ""}: relative error {err:.3e} against the documented formula in exact '
                             f'arithmetic (tolerance {tol:g} for a {gv.dtype} result) {note}'))
    # single-event dense conversions for up to 3 events
    n = len(in_tof)
    for k in ([0, n // 2, n - 1] if n else []):
        one, e1 = run_both(dense_events(case, mode, in_tof[k:k + 1], ev_pix[k:k + 1]), target, scatter)
        if one is None or np.ascontiguousarray(one.coords[target].values).tobytes() != gv[k:k + 1].tobytes():
            viol.append(('C06:event-value-differs-from-dense', f'event {k} differs from the dense conversion of that single event'))
            break
    # weights / variances / order / other event coords
    w = cat(out_w, case['weights'])
    if w.tobytes() != np.ascontiguousarray(case['weights'][order]).tobytes():
        viol.append(('C06:weights-changed', 'event weights or their order changed'))
    if case['variances']:
        if not out_var or cat(out_var, case['vars']).tobytes() != np.ascontiguousarray(case['vars'][order]).tobytes():
            viol.append(('C06:variances-changed', 'event variances or their order changed'))
    elif rdata.data.variances is not None:
        viol.append(('C06:variances-changed', 'variances appeared'))
    if 'pulse_time' not in rdata.coords or not np.array_equal(cat(out_pt, case['pulse_time']), case['pulse_time'][order]):
        viol.append(('C06:event-order-or-membership-changed', 'unrelated event coordinate pulse_time changed'))
    if case['event_mask'] is not None:
        em = rdata.masks['em'].values if 'em' in rdata.masks else None
        emb = np.concatenate([np.asarray(em)[int(rbeg[b]):int(rend[b])] for b in range(len(sizes_f))] + [np.zeros(0, bool)]) if em is not None else None
        if emb is None or not np.array_equal(emb, case['event_mask'][order]):
            viol.append(('C06:mask-changed', 'event mask changed'))
    # dense masks and unrelated coordinates
    for name, cn in snap['masks'].items():
        if name not in res.masks or canon(res.masks[name]) != cn:
            viol.append(('C06:mask-changed', f'mask {name!r} changed'))
    for name in ('detid', 'temperature'):
        if name in snap['coords'] and (name not in res.coords or canon(res.coords[name]) != snap['coords'][name]):
            viol.append(('C06:coord-changed', f'unrelated coordinate {name!r} changed'))
    # edge coordinate: the 2-d dense conversion of the same geometry
    if case['edges']:
        dd = sc.DataArray(sc.zeros(dims=list(da.dims), shape=list(da.shape)),
                          coords={n: v for n, v in da.coords.items() if n not in ('detid', 'temperature')})
        er, ee = run_both(dd, target, scatter)
        if er is None or target not in res.coords:
            viol.append(('C06:edge-coordinate-differs', f'dense conversion of the bin edges: {ee}; in result: {target in res.coords}'))
        elif canon(er.coords[target]) != canon(res.coords[target]):
            viol.append(('C06:edge-coordinate-differs', 'bin-edge coordinate differs from the dense conversion of the bin edges'))




# ---- the documented formula in exact arithmetic (independent of the kernels, event AND dense) -------------------

FORMULA_OF_TARGET = {   # convert(tof -> target): the single kernel that produces the event coordinate
    'wavelength': 'wavelength_from_tof', 'energy': 'energy_from_tof', 'dspacing': 'dspacing_from_tof',
}


_UNIT_KEYS: dict = {}


def _unit_key(u) -> str:
    """name of a scipp unit in the exact scale table of harness/tofkernels.py ('Å' -> 'angstrom', 'µs' -> 'us', …)"""
    from .. import tofkernels as tk

    name = str(u)
    if name not in _UNIT_KEYS:
        _UNIT_KEYS[name] = next((k for k in tk.SCALE if k == name or tk.unit_is(u, k)), name)
    return _UNIT_KEYS[name]


def formula_error(kname, operands, got_vals, got_dtype, got_unit, max_events=40, then_q=False):
    """max relative error of event results against the documented formula evaluated in 60-digit decimal arithmetic
    on the exact values of the operands (harness/tofkernels.py: exact SI scales, decimal sine).
    operands = {argument: (values per event (numpy), unit)}; returns (error, event index, tolerance, note)."""
    import numpy as np

    from .. import tofkernels as tk

    K = tk.KERNELS[kname]
    operands = {a: (v, _unit_key(u)) for a, (v, u) in operands.items()}
    units = {a: u for a, (_, u) in operands.items()}
    doc_unit = K.out_unit(units) if not then_q else '1/angstrom'
    if not tk.unit_is(got_unit, doc_unit):
        return float('inf'), -1, 0.0, f'unit {got_unit} instead of {doc_unit}'
    n = len(got_vals)
    if n == 0:
        return 0.0, -1, 0.0, ''
    idxs = range(n) if n <= max_events else sorted(set(np.linspace(0, n - 1, max_events).astype(int).tolist()))
    h, mn = (tk.exact(x) for x in tk.constants())
    oscale = (1 / tk.SCALE[doc_unit[2:]]) if doc_unit.startswith('1/') else tk.SCALE[doc_unit]
    tol = tk.TOL[tk.result_class(got_dtype)] * (2 if then_q else 1)
    worst, wk = 0.0, -1
    cache = {}
    for k in idxs:
        phys = {}
        for a, (vals, u) in operands.items():
            x = vals[k] if np.ndim(vals) else vals
            key = (a, x.item() if hasattr(x, 'item') else x)
            if key not in cache:
                cache[key] = tk.exact(x) * tk.SCALE[u]
            phys[a] = cache[key]
        want = K.ref(h, mn, phys)
        if then_q:   # Q = 4 pi sin(theta) / lambda with lambda from tof (two kernels: twice the tolerance)
            want = tk.KERNELS['Q_from_wavelength'].ref(h, mn, {'wavelength': want, 'two_theta': phys['two_theta']})
        e = tk.rel_err(float(got_vals[k]), want / oscale)
        if e > worst:
            worst, wk = e, k
    return worst, wk, tol, ''


# ---- binned operands passed directly to the kernels; transform_coords with the gravity kernels ----------------

EVENT_UNITS = {
    # quantity: (base unit, lo, hi in the base unit, candidate units, weights); the first candidates are those for
    # which a unit conversion inside some kernel is a no-op (wavelength in m for the gravity kernels, …).
    # UNIT and DTYPE are independent dimensions (integer tof in ns / ps is what raw event_time_offset looks like).
    'tof': ('us', 3000.0, 25000.0, ['us', 'ns', 'ps', 'ms', 's'], [0.3, 0.25, 0.2, 0.15, 0.1]),
    'wavelength': ('angstrom', 0.5, 10.0, ['m', 'angstrom', 'nm', 'pm'], [0.35, 0.35, 0.15, 0.15]),
    'energy': ('meV', 1.0, 100.0, ['meV', 'J', 'eV', 'ueV'], [0.4, 0.2, 0.2, 0.2]),
    'Q': ('1/angstrom', 0.5, 10.0, ['1/angstrom', '1/m', '1/nm'], [0.5, 0.25, 0.25]),
}
EVENT_DTYPES = (['float64', 'float32', 'int64', 'int32'], [0.4, 0.3, 0.2, 0.1])


def kernel_setup(case):
    """units, dtypes and values of the event operands and the geometry of the kernel / graph streams"""
    import numpy as np
    import scipp as sc

    rng = np.random.default_rng([case['seed'], case['idx'], 707])
    nbuf = case['nbuf']
    ev = {}
    for name, (base, lo, hi, units, w) in EVENT_UNITS.items():
        unit = str(rng.choice(units, p=w))
        dtype = str(rng.choice(EVENT_DTYPES[0], p=EVENT_DTYPES[1]))
        scale = float(sc.to_unit(sc.scalar(1.0, unit=base), unit).value)
        if dtype.startswith('int') and hi * scale < 100:      # integers need values well above 1 in this unit
            dtype = 'float64'
        if dtype == 'int32' and hi * scale > 2e9:             # … and must fit
            lo, hi = lo * 1.5e9 / (hi * scale), 1.5e9 / scale
        vals = (rng.uniform(lo, hi, nbuf) * scale).astype(dtype)
        ev[name] = (vals, unit, dtype)
    # wavelength in angstrom for time_at_sample (no unit conversion inside that kernel)
    ev['wavelength_A'] = (rng.uniform(0.5, 10.0, nbuf).astype(ev['tof'][2] if ev['tof'][2].startswith('float') else 'float64'),
                          'angstrom', 'x')
    npix = case['npix']
    orth = bool(rng.random() < 0.5)
    L = float(rng.uniform(5.0, 30.0))
    geo = {
        'orth': orth,
        # orthogonal: incident beam exactly along z, gravity exactly along -y
        'incident_beam': np.array([0.0, 0.0, L]) if orth else np.array([rng.normal() * 0.3, rng.normal() * 0.3, L]),
        'source_position': np.array([0.0, 0.0, -L]) if orth else np.array([rng.normal() * 0.3, rng.normal() * 0.3, -L]),
        'sample_position': np.zeros(3),
        'gravity': np.array([0.0, -9.80665, 0.0]),
        'scattered_beam': rng.normal(size=(npix, 3)) * 1.5 + np.array([0.0, 0.0, 3.0]),
        'pulse_time': float(rng.uniform(0.0, 100.0)),
        # geometry unit / dtype are dimensions too (vectors are always float64 in scipp)
        'len_unit': str(rng.choice(['m', 'mm', 'angstrom'], p=[0.5, 0.3, 0.2])),
        'geo_dtype': str(rng.choice(['float64', 'float32'], p=[0.65, 0.35])),
        'angle_unit': str(rng.choice(['rad', 'deg'], p=[0.7, 0.3])),
    }
    return ev, geo


def build_binned(case, ecoords):
    """binned DataArray with the layout of `case` and the given event coordinates {name: (values, unit)}"""
    import scipp as sc

    npix, ntof, grid = case['npix'], case['ntof'], case['grid']
    data = sc.array(dims=['event'], values=case['weights'], unit='counts')
    if case['variances']:
        data.variances = case['vars']
    table = sc.DataArray(data, coords={n: sc.array(dims=['event'], values=v, unit=u) for n, (v, u) in ecoords.items()})
    if grid == 'pixel':
        sizes = {'spectrum': npix}
    elif grid == 'tof':
        sizes = {'tof': ntof}
    elif case['transposed']:
        sizes = {'tof': ntof, 'spectrum': npix}
    else:
        sizes = {'spectrum': npix, 'tof': ntof}
    begin = sc.array(dims=['x'], values=case['begin'], unit=None).fold('x', sizes=sizes)
    end = sc.array(dims=['x'], values=case['begin'] + case['sizes'], unit=None).fold('x', sizes=sizes)
    return sc.DataArray(sc.bins(begin=begin, end=end, dim='event', data=table))


def kernel_geometry(case, geo, tof_unit, index=None, scaled_geometry=True):
    """dense operands of the kernels: per pixel on 'spectrum' (scalar for the 1-d tof grid) or gathered per event"""
    import numpy as np
    import scipp as sc

    scalar_pix = case['grid'] == 'tof'

    def pp(vals, unit, vec=False):
        vals = np.asarray(vals)
        if index is not None:
            vals = vals[index]
            return sc.vectors(dims=['event'], values=vals, unit=unit) if vec else sc.array(dims=['event'], values=vals, unit=unit)
        if scalar_pix:
            return sc.vector(value=vals[0], unit=unit) if vec else sc.scalar(float(vals[0]), unit=unit)
        return sc.vectors(dims=['spectrum'], values=vals, unit=unit) if vec else sc.array(dims=['spectrum'], values=vals, unit=unit)

    lu, gd = geo.get('len_unit', 'm'), geo.get('geo_dtype', 'float64')
    ls = {'m': 1.0, 'mm': 1e3, 'angstrom': 1e10}[lu]
    au = geo.get('angle_unit', 'rad')
    ascale = 1.0 if au == 'rad' else 180.0 / np.pi
    if not scaled_geometry:
        lu, ls, gd, au, ascale = 'm', 1.0, 'float64', 'rad', 1.0
    return {
        'Ltotal': pp(case['Ltotal'] * ls, lu).astype(gd), 'two_theta': pp(case['two_theta'] * ascale, au).astype(gd),
        'L1': sc.scalar(case['L1'] * ls, unit=lu).astype(gd), 'L2': pp(case['L2'] * ls, lu).astype(gd),
        'incident_energy': sc.scalar(case['incident_energy'], unit='meV'), 'final_energy': pp(case['final_energy'], 'meV'),
        'incident_beam': sc.vector(value=geo['incident_beam'] * ls, unit=lu),
        'scattered_beam': pp(geo['scattered_beam'] * ls, lu, vec=True),
        'gravity': sc.vector(value=geo['gravity'], unit='m/s^2'),
        'pulse_time': sc.scalar(geo['pulse_time'], unit=tof_unit),
        'position': pp((geo['scattered_beam'] + geo['sample_position']) * ls, lu, vec=True),
        'source_position': sc.vector(value=geo['source_position'] * ls, unit=lu),
        'sample_position': sc.vector(value=geo['sample_position'] * ls, unit=lu),
    }


KERNELS = [
    ('tof.wavelength_from_tof', lambda E, G: {'tof': E['tof'], 'Ltotal': G['Ltotal']}),
    ('tof.dspacing_from_tof', lambda E, G: {'tof': E['tof'], 'Ltotal': G['Ltotal'], 'two_theta': G['two_theta']}),
    ('tof.energy_from_tof', lambda E, G: {'tof': E['tof'], 'Ltotal': G['Ltotal']}),
    ('tof.energy_transfer_direct_from_tof',
     lambda E, G: {'tof': E['tof'], 'L1': G['L1'], 'L2': G['L2'], 'incident_energy': G['incident_energy']}),
    ('tof.energy_transfer_indirect_from_tof',
     lambda E, G: {'tof': E['tof'], 'L1': G['L1'], 'L2': G['L2'], 'final_energy': G['final_energy']}),
    ('tof.energy_from_wavelength', lambda E, G: {'wavelength': E['wavelength']}),
    ('tof.wavelength_from_energy', lambda E, G: {'energy': E['energy']}),
    ('tof.Q_from_wavelength', lambda E, G: {'wavelength': E['wavelength'], 'two_theta': G['two_theta']}),
    ('tof.wavelength_from_Q', lambda E, G: {'Q': E['Q'], 'two_theta': G['two_theta']}),
    ('tof.Q_elements_from_wavelength',
     lambda E, G: {'wavelength': E['wavelength'], 'incident_beam': G['incident_beam'], 'scattered_beam': G['scattered_beam']}),
    ('tof.dspacing_from_wavelength', lambda E, G: {'wavelength': E['wavelength'], 'two_theta': G['two_theta']}),
    ('tof.dspacing_from_energy', lambda E, G: {'energy': E['energy'], 'two_theta': G['two_theta']}),
    ('tof.time_at_sample_from_tof',
     lambda E, G: {'pulse_time': G['pulse_time'], 'tof': E['tof'], 'L2': G['L2'], 'wavelength': E['wavelength_A']}),
    ('beamline.scattering_angles_with_gravity',
     lambda E, G: {'incident_beam': G['incident_beam'], 'scattered_beam': G['scattered_beam'],
                   'wavelength': E['wavelength'], 'gravity': G['gravity']}),
    ('beamline.scattering_angle_in_yz_plane',
     lambda E, G: {'incident_beam': G['incident_beam'], 'scattered_beam': G['scattered_beam'],
                   'wavelength': E['wavelength'], 'gravity': G['gravity']}),
]


def _kernel_func(name):
    import importlib

    mod, fn = name.split('.')
    return getattr(importlib.import_module(f'scippneutron.conversion.{mod}'), fn)


def flat_binned(var, nbins):
    """events of a binned variable bin by bin (row-major bin order) -> canonical (dtype, unit, bytes)"""
    import numpy as np

    c = var.bins.constituents
    b = np.asarray(c['begin'].values).ravel()
    e = np.asarray(c['end'].values).ravel()
    data = c['data']
    vals = np.asarray(data.values)
    parts = [vals[int(b[i]):int(e[i])] for i in range(nbins)]
    flat = np.concatenate(parts) if parts else vals[:0]
    return (str(data.dtype), str(data.unit), [int(e[i] - b[i]) for i in range(nbins)], np.ascontiguousarray(flat).tobytes().hex())


def canon_dense(var):
    import numpy as np

    return (str(var.dtype), str(var.unit), np.ascontiguousarray(var.values).tobytes().hex())


def call_kernel(f, kwargs):
    try:
        r = f(**kwargs)
    except Exception as e:  # noqa: BLE001
        return None, _err(e)
    return (r if isinstance(r, dict) else {'': r}), None


def snapshot_any(da, dense):
    return snapshot(da), {n: canon_dense(v) for n, v in dense.items()}


def run_kernel_case(case, layout_line):
    """every kernel with binned operands: event results vs the dense kernel on the flattened events (bitwise),
    input snapshot before/after, second call on the same input"""
    import numpy as np
    import scipp as sc

    ev, geo = kernel_setup(case)
    sizes_f, order, pixel_of_bin, pix = converted_view(case)
    nb = len(sizes_f)
    m_ranges, m_bins = layout_line.split('|')
    pred_flat = []
    if nb:
        for b in m_bins.split(';'):
            pred_flat += [tuple(int(x) for x in e.split('.')) for e in b.split(',')] if b else []
    pred_order = order[[c for c, _, _ in pred_flat]] if pred_flat else order[:0]
    pred_pix = pixel_of_bin[[g for _, g, _ in pred_flat]] if pred_flat else np.zeros(0, dtype=np.int64)
    own_pix = np.repeat(pixel_of_bin, sizes_f)
    tof_unit = ev['tof'][1]
    cfg = ' '.join(f'{n}:{u}/{d}' for n, (_, u, d) in ev.items() if n != 'wavelength_A') + (' orth' if geo['orth'] else ' tilted')
    records = []
    for name, mk in KERNELS:
        if name.endswith('yz_plane') and not geo['orth']:
            continue
        f = _kernel_func(name)
        rec = {'target': name, 'scatter': True, 'mode': cfg, 'dis': [], 'viol': [], 'numeric': None}
        records.append(rec)
        da = build_binned(case, {n: (v, u) for n, (v, u, _) in ev.items()})
        G = kernel_geometry(case, geo, tof_unit)
        E = {n: da.bins.coords[n] for n in ev}
        snap = snapshot_any(da, G)
        res, err = call_kernel(f, mk(E, G))
        after = snapshot_any(da, G)
        rec['outcome'] = 'ok' if res is not None else err
        if after != snap:
            changed = [n for n in snap[0]['ecoords'] if snap[0]['ecoords'][n] != after[0]['ecoords'].get(n)]
            changed += [n for n in snap[1] if snap[1][n] != after[1].get(n)]
            if snap[0]['data'] != after[0]['data']:
                changed.append('weights')
            rec['viol'].append((f'C06:input-modified:{name}',
                                f'the operands {changed} differ (bit level) after calling {name} with binned operands'))
        # dense reference: (a) own flattening, (b) the pairs the Lean model predicts
        def dense_ref(ordr, pixs):
            Ed = {n: sc.array(dims=['event'], values=v[ordr], unit=u) for n, (v, u, _) in ev.items()}
            Gd = kernel_geometry(case, geo, tof_unit, index=np.asarray(pixs, dtype=np.int64))
            return call_kernel(f, mk(Ed, Gd))
        dres, derr = dense_ref(order, own_pix)
        if (res is None) != (dres is None) or (res is None and err != derr):
            rec['viol'].append((f'C06:event-vs-dense-exception:{name}',
                                f'binned operands: {rec["outcome"]}; dense kernel on the flattened events: {"ok" if dres is not None else derr}'))
            continue
        if res is None:
            continue
        mres, _ = dense_ref(pred_order, pred_pix)
        first = {}
        for key, var in res.items():
            if var.bins is None:
                rec['viol'].append((f'C06:event-value-differs-from-dense:{name}', f'output {key!r} is not binned'))
                continue
            got = flat_binned(var, nb)
            first[key] = got
            exp = dres[key]
            if got[2] != [int(x) for x in sizes_f]:
                rec['viol'].append((f'C06:bin-sizes-changed:{name}', f'output {key!r}: bin sizes {got[2][:8]} != {sizes_f.tolist()[:8]}'))
            elif (got[0], got[1], got[3]) != canon_dense(exp):
                gv = np.frombuffer(bytes.fromhex(got[3]), dtype=np.asarray(exp.values).dtype if got[0] == str(exp.dtype) else np.uint8)
                xv = np.asarray(exp.values).ravel()
                k = int(np.argmax(gv != xv)) if gv.shape == xv.shape and len(gv) else -1
                rec['viol'].append((f'C06:event-value-differs-from-dense:{name}',
                                    f'output {key!r} ({got[0]} [{got[1]}] vs dense {exp.dtype} [{exp.unit}])'
                                    + (f': event {k}: {gv[k]!r} vs {xv[k]!r}' if k >= 0 else '')))
            if mres is None or (got[0], got[1], got[3]) != canon_dense(mres[key]) or got[2] != [int(x) for x in sizes_f]:
                rec['dis'].append((f'{name} output {key!r}: binned result vs dense kernel on the model-predicted (event, geometry) pairs',
                                   got[:3], None if mres is None else canon_dense(mres[key])[:2]))
        # the documented formula in exact arithmetic on the event values (elastic kernels of the C01 table)
        kshort = name.split('.', 1)[1]
        from .. import tofkernels as tk
        if name.startswith('tof.') and kshort in tk.KERNELS and '' in res and res[''].bins is not None and len(order):
            K = tk.KERNELS[kshort]
            npx = case['npix']
            ops = {}
            for a, _kind in K.args:
                if a in ev:
                    ops[a] = (ev[a][0][order], sc.Unit(ev[a][1]))
                else:
                    gvals = np.asarray(G[a].values)
                    ops[a] = (np.broadcast_to(gvals, (npx,))[own_pix], G[a].unit)
            cdata = res[''].bins.constituents
            rb, re_ = np.asarray(cdata['begin'].values).ravel(), np.asarray(cdata['end'].values).ravel()
            rv = np.asarray(cdata['data'].values)
            flat = np.concatenate([rv[int(rb[i]):int(re_[i])] for i in range(nb)]) if nb else rv[:0]
            if len(flat) == len(order):
                ferr, fk_, ftol, fnote = formula_error(kshort, ops, flat, str(flat.dtype), cdata['data'].unit)
                if not ferr <= ftol:
                    rec['viol'].append((f'C06:event-value-differs-from-formula:{name}',
                                        f'event {fk_}: operands ' + ', '.join(f'{a}={v[fk_]!r} {u}' for a, (v, u) in ops.items())
                                        + f' -> {flat[fk_]!r}: relative error {ferr:.3e} against the documented formula in exact '
                                        f'arithmetic (tolerance {ftol:g} for a {flat.dtype} result) {fnote}'))
        # second call on the same input must give the same answer
        res2, err2 = call_kernel(f, mk(E, G))
        second = {k: flat_binned(v, nb) for k, v in (res2 or {}).items() if v.bins is not None}
        if res2 is None or second != first:
            rec['viol'].append((f'C06:second-call-differs:{name}',
                                f'calling {name} a second time on the same binned operands gives {"a different result" if res2 is not None else err2}'))
    return records


def gravity_graph(orth):
    from scippneutron.conversion import beamline as kb
    from scippneutron.conversion import graph as cg

    g = {**cg.beamline.beamline(scatter=True), **cg.tof.elastic('wavelength')}
    del g['two_theta']   # replaced by the gravity-corrected angles
    g[('two_theta', 'phi')] = kb.scattering_angles_with_gravity
    if orth:
        g['gamma'] = kb.scattering_angle_in_yz_plane
    return g


def run_graph_case(case, layout_line):
    """transform_coords with the gravity kernels in the graph (as reflectometry / SANS workflows do), binned event
    wavelength; per target: event result vs dense transform of the flattened events, snapshot, second call"""
    import numpy as np
    import scipp as sc

    ev, geo = kernel_setup(case)
    if case['grid'] == 'tof':
        return []
    sizes_f, order, pixel_of_bin, pix = converted_view(case)
    nb = len(sizes_f)
    own_pix = np.repeat(pixel_of_bin, sizes_f)
    wl, unit, dtype = ev['wavelength']
    graph = gravity_graph(geo['orth'])
    cfg = f'wavelength:{unit}/{dtype}' + (' orth' if geo['orth'] else ' tilted')

    def make(binned):
        if binned:
            da = build_binned(case, {'wavelength': (wl, unit), 'pulse_time': (case['pulse_time'], 'ms')})
            G = kernel_geometry(case, geo, 'us')
        else:
            da = sc.DataArray(sc.array(dims=['event'], values=np.ones(len(order))),
                              coords={'wavelength': sc.array(dims=['event'], values=wl[order], unit=unit)})
            G = kernel_geometry(case, geo, 'us', index=own_pix)
        for n in ('position', 'source_position', 'sample_position', 'gravity'):
            da.coords[n] = G[n]
        return da

    records = []
    for target in ['two_theta', 'phi', 'Q', 'dspacing'] + (['gamma'] if geo['orth'] else []):
        rec = {'target': 'graph:' + target, 'scatter': True, 'mode': cfg, 'dis': [], 'viol': [], 'numeric': None}
        records.append(rec)
        name = f'transform_coords[{target}]'
        da = make(True)
        snap = snapshot(da)

        def tr(x):
            try:
                return x.transform_coords(target, graph=graph), None
            except Exception as e:  # noqa: BLE001
                return None, _err(e)
        res, err = tr(da)
        rec['outcome'] = 'ok' if res is not None else err
        if snapshot(da) != snap:
            rec['viol'].append((f'C06:input-modified:{name}', 'the binned input differs (bit level) after transform_coords with the gravity graph'))
        dres, derr = tr(make(False))
        if (res is None) != (dres is None) or (res is None and err != derr):
            rec['viol'].append((f'C06:event-vs-dense-exception:{name}', f'event mode {rec["outcome"]}, dense {"ok" if dres is not None else derr}'))
            continue
        if res is None:
            continue
        if target not in res.bins.coords:
            rec['viol'].append((f'C06:event-value-differs-from-dense:{name}', 'no event coordinate in the result'))
            continue
        got = flat_binned(res.bins.coords[target], nb)
        if got[2] != [int(x) for x in sizes_f]:
            rec['viol'].append((f'C06:bin-sizes-changed:{name}', 'bin sizes changed'))
        elif (got[0], got[1], got[3]) != canon_dense(dres.coords[target]):
            rec['viol'].append((f'C06:event-value-differs-from-dense:{name}',
                                f'event {target} ({got[0]} [{got[1]}]) differs from the dense transform of the flattened events '
                                f'({dres.coords[target].dtype} [{dres.coords[target].unit}])'))
        res2, err2 = tr(da)
        if res2 is None or target not in res2.bins.coords or flat_binned(res2.bins.coords[target], nb) != got:
            rec['viol'].append((f'C06:second-call-differs:{name}', 'a second transform_coords of the same input gives a different result'))
    return records


# ---- workers ----------------------------------------------------------------------------------------------

def init_worker(counter):
    with counter.get_lock():
        k = counter.value
        counter.value += 1
    try:
        cpus = sorted(os.sched_getaffinity(0))
        os.sched_setaffinity(0, {cpus[k % len(cpus)]})
    except (AttributeError, OSError):
        pass


def run_chunk(args):
    repo, seed, items = args
    src = os.path.join(repo, 'src')
    if src not in sys.path:
        sys.path.insert(0, src)
    import scippneutron

    if not os.path.abspath(scippneutron.__file__).startswith(os.path.abspath(src)):
        raise RuntimeError(f'worker imported scippneutron from {scippneutron.__file__}')
    import scipp as sc

    sc.get_logger().setLevel('ERROR')
    out = []
    for idx, layout_line, edges_line, kinds in items:
        case = make_case(seed, idx)
        try:
            if idx >= GRAPH_BASE:
                out.append((idx, summary(case), run_graph_case(case, layout_line)))
            elif idx >= KERNEL_BASE:
                out.append((idx, summary(case), run_kernel_case(case, layout_line)))
            else:
                out.append((idx, summary(case), run_case(case, layout_line, edges_line, kinds)))
        except Exception:  # noqa: BLE001
            out.append((idx, summary(case), traceback.format_exc()))
    return out


def summary(case):
    return {k: (case[k] if not hasattr(case[k], 'tolist') else case[k].tolist()) for k in
            ('seed', 'idx', 'grid', 'npix', 'ntof', 'style', 'storage', 'ev_dtype', 'w_dtype', 'variances', 'edges',
             'geom_kind', 'container', 'slice', 'transposed', 'tof_unit', 'edges_unit', 'len_unit', 'geo_dtype')} | {'sizes': case['sizes'].tolist()[:40], 'events': int(case['sizes'].sum())}


GEOM_NAMES = {
    'positions': ['position', 'source_position', 'sample_position'],
    'L1L2theta': ['L1', 'L2', 'two_theta'],
    'Ltotal-theta': ['Ltotal', 'two_theta'],
}


def model_lines(ctx, seed, idxs):
    names = ctx.driver(['c02.names'])[0].split('|')[1].split(',')
    ncode = {n: i for i, n in enumerate(names)}
    lines = []
    kind_lines, kind_keys = [], []
    for idx in idxs:
        case = make_case(seed, idx)
        sizes_f, order, pixel_of_bin, pix = converted_view(case)
        s = ','.join(str(int(x)) for x in sizes_f) or '-'
        g = ','.join(str(i) for i in range(len(sizes_f))) or '-'
        lines.append(f'c06.layout {s} {g}')
        lines.append(f'c06.edges {case["ntof"] + 1} {",".join(str(i) for i in range(len(pix))) or "-"}')
        for target, scatter, mode in TARGETS:
            if idx >= KERNEL_BASE:
                break
            if not applicable(case, target, scatter, mode) or target not in ncode:
                continue
            dense = list(GEOM_NAMES[case['geom_kind']]) + (['tof'] if case['edges'] else [])
            dense += {'direct': ['incident_energy'], 'indirect': ['final_energy']}.get(mode, [])
            kind_lines.append(f'c06.kinds {ncode["tof"]} {ncode[target]} {1 if scatter else 0} '
                              f'{",".join(str(ncode[n]) for n in dense)} {ncode["tof"]}')
            kind_keys.append((idx, target, scatter, mode))
    out = ctx.driver(lines)
    kout = ctx.driver(kind_lines)
    kinds = {}
    for key, k in zip(kind_keys, kout):
        kinds.setdefault(key[0], {})[key[1:]] = k
    return [(idx, out[2 * i], out[2 * i + 1], kinds.get(idx, {})) for i, idx in enumerate(idxs)]


def _run(ctx, seed, idxs, workers):
    import multiprocessing as mp
    from concurrent.futures import ProcessPoolExecutor

    items = model_lines(ctx, seed, idxs)
    size = max(5, min(100, len(items) // (workers * 6) + 1))
    chunks = [(ctx.repo, seed, items[i:i + size]) for i in range(0, len(items), size)]
    if workers <= 1:
        res = [run_chunk(c) for c in chunks]
    else:
        mpc = mp.get_context('spawn')
        with ProcessPoolExecutor(max_workers=workers, mp_context=mpc, initializer=init_worker,
                                 initargs=(mpc.Value('i', 0),)) as ex:
            res = list(ex.map(run_chunk, chunks))
    return [r for rs in res for r in rs]


_STASH: dict = {}


def _process(ctx, results, report_dis=True):
    viols = []
    numeric = []
    for idx, summ, recs in results:
        if isinstance(recs, str):
            ctx.disagree(summ, 'harness crash', None, recs[-800:])
            continue
        for r in recs:
            ident = (summ['seed'], idx, r['target'], r['scatter'], r['mode'])
            wit = {**summ, 'target': r['target'], 'scatter': r['scatter'], 'mode': r['mode']}
            ctx.case(ident, True, sample={**wit, 'outcome': r.get('outcome')})
            ctx.count(f'{r["target"]}:{"scatter" if r["scatter"] else "no-scatter"}:{r.get("outcome")}')
            ctx.count(f'grid:{summ["grid"]}')
            ctx.count(f'storage:{summ["storage"]}')
            if r.get('kind'):
                ctx.count('target-parts:' + r['kind'])
            if summ['transposed']:
                ctx.count('grid:transposed [tof, spectrum]')
            ctx.count(f'event-dtype:{summ["ev_dtype"]}')
            if idx < KERNEL_BASE:
                ctx.count(f'event-tof:{summ["tof_unit"]}/{summ["ev_dtype"]}')
                ctx.count(f'geometry:{summ["len_unit"]}/{summ["geo_dtype"]}')
            elif idx < GRAPH_BASE:
                ctx.count('kernel-operands:' + ' '.join(x for x in str(r['mode']).split(' ') if x.startswith(('tof', 'wavelength'))))
            ctx.count('events:' + ('0' if summ['events'] == 0 else '<10' if summ['events'] < 10 else '<100' if summ['events'] < 100 else '>=100'))
            if report_dis:
                for d in r['dis']:
                    ctx.disagree(wit, list(d[1:]), d[0], 'real result vs model prediction (structure) / dense conversion of the predicted pairs')
            for key, what in r['viol']:
                viols.append((key, what, wit))
            if r['numeric'] is not None:
                numeric.append((wit, *r['numeric']))
    if report_dis and numeric:
        outs = ctx.driver([line for _, line, _ in numeric])
        for (wit, line, real), out in zip(numeric, outs):
            model = [] if out == '-' else out.split(',')
            ctx.case(('numeric', wit['seed'], wit['idx'], wit['target'], wit['scatter'], wit['mode']), True)
            ctx.count('numeric-kernel:' + line.split(' ')[0])
            if model != real:
                k = next((i for i, (a, b) in enumerate(zip(model, real)) if a != b), -1)
                ctx.disagree(wit, real[k] if k >= 0 else len(real), model[k] if k >= 0 else len(model),
                             f'kernel executed by the model ({line.split(" ")[0]}) differs in event {k}')
    return viols


def correspond(ctx):
    import scipp as sc

    sc.get_logger().setLevel('ERROR')
    n = ctx.n(260, 15000)
    idxs = list(range(n))
    idxs += list(range(KERNEL_BASE, KERNEL_BASE + ctx.n(150, 6000)))
    idxs += list(range(GRAPH_BASE, GRAPH_BASE + ctx.n(120, 4000)))
    workers = int(os.environ.get('VERIF_WORKERS', '4' if ctx.quick else '12'))
    results = _run(ctx, ctx.seed, idxs, workers)
    _STASH['viols'] = _process(ctx, results)
    _STASH['done'] = True


def oracle(ctx, deep):
    import scipp as sc

    sc.get_logger().setLevel('ERROR')
    if not deep and _STASH.get('done'):
        for key, what, wit in _STASH['viols']:
            ctx.violation(key, what, wit)
        return
    n = 800 if deep else ctx.n(150, 1500)
    idxs = list(range(1_000_000, 1_000_000 + n))
    workers = int(os.environ.get('VERIF_WORKERS', '4' if ctx.quick else '12'))
    results = _run(ctx, ctx.seed, idxs, workers)
    for key, what, wit in _process(ctx, results, report_dis=False):
        ctx.violation(key, what, wit)


def replay(ctx, payload):
    import scipp as sc

    sc.get_logger().setLevel('ERROR')
    w = payload.get('witness', {})
    if 'idx' not in w:
        print('no concrete input in this replay file')
        return False
    items = model_lines(ctx, w['seed'], [w['idx']])
    case = make_case(w['seed'], w['idx'])
    if w['idx'] >= GRAPH_BASE:
        recs = run_graph_case(case, items[0][1])
    elif w['idx'] >= KERNEL_BASE:
        recs = run_kernel_case(case, items[0][1])
    else:
        recs = run_case(case, items[0][1], items[0][2], items[0][3])
    hit = False
    for r in recs:
        if (r['target'], r['scatter'], r['mode']) == (w['target'], w['scatter'], w['mode']):
            for key, what in r['viol']:
                print(key, '—', what)
                hit = hit or key == payload.get('key')
    return hit


LEVEL_TEXT = (
    'Lean 4 theorems (induction over arbitrary bin lists) about the model of event-mode conversion: the converted '
    'event buffer equals the dense element-wise kernel on the flattened event coordinates with the geometry '
    'broadcast per bin; bin edges are converted with the same function; payloads (weights, variances, other event '
    'coordinates), event order, bin sizes incl. empty bins, begin/end, masks and unrelated coordinates are unchanged; '
    'bins do not influence each other; the input heap cells are not written; through a whole conversion graph the event '
    'part and the bin-edge part of the target are the same derivation (an event on a bin edge gets the edge value) and '
    'the target has an event part iff a fetched input has one, a dense part iff all have; binned_convert_value: for every '
    'layout, target, origin, scatter flag and presence predicate, if each event with its bin\'s dense coordinates is the '
    'ground truth of its own neutron, every event carries the documented formula (C02.convert_value) of that neutron '
    'with its own payload, and the bin edges are converted by the same function. Tied to the code by a correspondence that '
    'checks the real result bit for bit against the real dense conversion of the pairs the model predicts.'
)
LEVEL_NOTE = (
    "Trusted: Lean kernel, the harness. That scipp's C++ engine applies the scalar kernel per event is assumed by the "
    'model and validated (sampled layouts, bitwise), not proved.'
)
TECHNIQUE = 'Lean 4 proof (structural induction) + model/implementation correspondence with bit-exact dense reference'
