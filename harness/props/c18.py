"""C18 — cylinder absorption: path lengths, quadrature and transmission are geometric."""
from __future__ import annotations

import math
import struct
from decimal import Decimal, getcontext
from fractions import Fraction

from ..translate import quadratures as tr_quad

PROP = 'C18'
LEAN_TARGETS = ['ScnVerif.Props.C18']
PROPS_FILE = 'ScnVerif/Props/C18.lean'
TRANSLATORS = [tr_quad.translate]
RULE = (
    'cylinders: unit axes uniform on the sphere plus +-x,+-y,+-z, axes tilted from +-z by 1e-12..1e-3, axes in the '
    'lower hemisphere; bases at 0, near and far; radius and height log-uniform in 1e-3..1e3; unit from '
    '{m, mm, cm, um, angstrom}. Rays per cylinder: from a point inside, from outside aimed at the solid, random '
    'direction, exactly parallel to the axis (inside/outside the radius), nearly parallel (1e-5, 1e-3), perpendicular, '
    'within 1e-16..1e-5 of +-axis and parallel up to rounding (not bit-identical), tangent to the side wall (offset 0, +-1e-12, +-1e-8, +-1e-4 of the radius), through the rim, inside a cap plane, '
    'starting on the surface. Quadrature: kinds cheap/medium/expensive, height/radius ratios crossing every node-count '
    'threshold. Transmission: wavelengths log-uniform 0.1..20 angstrom, detectors in all directions (incl. on the axis '
    'and along the beam), near and far. Object-reuse histories: 2-3 uses (beam_intersection, quadrature of each kind, '
    'volume, center, compute_transmission_map) of ONE Cylinder object interleaved with reassignment of each geometry field '
    '(setattr, dataclasses.replace, copy.copy + setattr), each result compared with a freshly constructed Cylinder and '
    'with the stateless model; Material / wavelength / beam / detector objects reused across two calls with Material fields '
    'reassigned. A case is distinct by (operation, all input bit patterns); non-trivial when the '
    'ray meets the solid / the axis needs a rotation / the attenuation is non-zero.'
)
ASSUMPTIONS = [
    'the disk tables disk55 and disk256_cheb are printed with 8 significant digits: their moments (weight sum, '
    'polynomial exactness) are required to hold to eps_tab = 5e-7 (absolute, unit disk), disk12 (15 digits) to 1e-13; '
    'consequently the transmission may exceed 1 by at most eps_tab/pi (theorem transmission_mem_Ioc_partial; observed: '
    "'expensive' gives 1 + 8.5e-8 at mu = 0)",
    'numpy chebgauss/leggauss return nodes in (-1,1) with positive weights (leggauss: summing to 2); validated against '
    'closed forms / the Legendre recurrence in exact arithmetic on every run, not proved',
    'libm sin/cos/atan2/exp and scipy Rotation.from_rotvec agree with the exact functions to a few ulp '
    '(correspondence tolerance 1e-9 relative to the size of the solid)',
    'axis vectors are unit to rounding; the exact reference normalises the given axis',
    'floating point: the theorems are over the reals; floating-point accuracy of the kernels is validated by the '
    'exact-arithmetic oracle (1e-9 of the size of the solid), including directions within 1e-16..1e-5 of the axis '
    '(finding C18:near-axis-ray-rounding, fixed in ef5a368; the pre-fix formula is kept as lineInfiniteCylinderOld '
    'and proved equal over the reals)',
    'rigid-motion / other-end invariance of the discrete transmission sum is validated at the accuracy of the '
    "quadrature (tolerance from |T_medium - T_expensive|), not proved; for exact path lengths it is proved",
    '0 < |z x a| < 1e-10 (axis within 1e-10 of +-z without being +-z): the code skips the rotation; points are then '
    'inside the solid only up to 1e-10 relative (validated, excluded from points_inside_solid)',
]
TRUSTED = [
    'translator harness/translate/quadratures.py (decimal text of every literal -> integer over a power of ten)',
    'modelled, not verified: Cylinder.beam_intersection, _line_infinite_cylinder_intersection, _line_slab_intersection, '
    '_positive_interval_intersection, _cylinder_quadrature_from_product, Cylinder.quadrature/_select_quadrature_points, '
    'compute_transmission_map and helpers (Model/Cylinder.lean); IEEE infinities modelled by Option',
    'scipp broadcasting, unit conversion and sc.spatial.rotations_from_rotvecs (scipy) are exercised by the '
    'correspondence, not modelled below the level of Rodrigues\' formula',
]

REL = 1e-9  # geometric tolerance of the property statement
EPS_TAB = {'cheap': 1e-13, 'medium': 5e-7, 'expensive': 5e-7}
KINDS = {
    'cheap': ('disk12', 5.0, 15.0, 5.0, 'leg'),
    'medium': ('disk55', 7.0, 25.0, 7.0, 'cheb'),
    'expensive': ('disk256_cheb', 11.0, 35.0, 11.0, 'cheb'),
}
UNITS = ['m', 'mm', 'cm', 'um', 'angstrom']


def bits(x: float) -> str:
    return struct.pack('>d', float(x)).hex()


def unbits(h: str) -> float:
    if h == 'inf':
        return math.inf
    if h == 'nan':
        return math.nan
    return struct.unpack('>d', bytes.fromhex(h))[0]


# ---------------------------------------------------------------------------------------------
# small exact / float vector helpers (independent of scipp and of the Lean model)

def _dot(u, v):
    return u[0] * v[0] + u[1] * v[1] + u[2] * v[2]


def _cross(u, v):
    return [u[1] * v[2] - u[2] * v[1], u[2] * v[0] - u[0] * v[2], u[0] * v[1] - u[1] * v[0]]


def _norm(u):
    return math.sqrt(_dot(u, u))


def _unit(u):
    n = _norm(u)
    return [x / n for x in u]


def _frame(a):
    """orthonormal (e1, e2) perpendicular to the unit vector a (Gram–Schmidt from the least aligned axis)"""
    k = min(range(3), key=lambda i: abs(a[i]))
    e = [0.0, 0.0, 0.0]
    e[k] = 1.0
    d = _dot(e, a)
    e1 = _unit([e[i] - d * a[i] for i in range(3)])
    e2 = _unit(_cross(a, e1))
    return e1, e2


def _lu(rng, lo, hi):
    return math.exp(rng.uniform(math.log(lo), math.log(hi)))


def _rand_unit(rng):
    while True:
        v = [rng.gauss(0, 1) for _ in range(3)]
        n = _norm(v)
        if n > 1e-2:
            return _unit(v)


def _rand_rotation(rng):
    """proper rotation matrix from two random vectors (Gram–Schmidt), independent of Rodrigues"""
    x = _rand_unit(rng)
    e1, e2 = _frame(x)
    phi = rng.uniform(0, 2 * math.pi)
    y = [math.cos(phi) * e1[i] + math.sin(phi) * e2[i] for i in range(3)]
    y = _unit([y[i] - _dot(y, x) * x[i] for i in range(3)])
    z = _unit(_cross(x, y))
    return [x, y, z]  # rows


def _matvec(m, v):
    return [_dot(m[0], v), _dot(m[1], v), _dot(m[2], v)]


# ---------------------------------------------------------------------------------------------
# generators

def gen_axis(rng):
    """(category, unit axis)"""
    k = rng.random()
    if k < 0.30:
        return 'sphere', _rand_unit(rng)
    if k < 0.50:
        a = _rand_unit(rng)
        a[2] = -abs(a[2])
        return 'lower', a
    if k < 0.62:
        s = rng.choice([1.0, -1.0])
        i = rng.randrange(3)
        a = [0.0, 0.0, 0.0]
        a[i] = s
        return ('+' if s > 0 else '-') + 'xyz'[i], a
    if k < 0.80:
        s = rng.choice([1.0, -1.0])
        t = rng.choice([1e-12, 1e-9, 1e-6, 1e-3])
        phi = rng.uniform(0, 2 * math.pi)
        return ('near+z' if s > 0 else 'near-z'), _unit([t * math.cos(phi), t * math.sin(phi), s])
    if k < 0.90:
        phi = rng.uniform(0, 2 * math.pi)
        return 'equator', _unit([math.cos(phi), math.sin(phi), 0.0])
    a = _rand_unit(rng)
    a[rng.randrange(3)] = 0.0
    return 'plane', _unit(a)


def gen_cylinder(rng, same_scale=False):
    cat, a = gen_axis(rng)
    r = _lu(rng, 1e-3, 1e3)
    h = r * _lu(rng, 0.05, 20) if same_scale else _lu(rng, 1e-3, 1e3)
    h = min(max(h, 1e-3), 1e3)
    size = max(r, h)
    k = rng.random()
    if k < 0.25:
        base = [0.0, 0.0, 0.0]
    elif k < 0.85:
        base = [rng.uniform(-3, 3) * size for _ in range(3)]
    else:
        base = [rng.uniform(-1e3, 1e3) * size for _ in range(3)]
    return {'axis_cat': cat, 'a': a, 'base': base, 'r': r, 'h': h, 'unit': rng.choice(UNITS)}


RAY_CATS = ['inside', 'aimed', 'random', 'parallel_in', 'parallel_out', 'near_parallel', 'perpendicular',
            'tangent', 'tangent_off', 'surface', 'rim', 'capgraze', 'parallel_on_wall', 'far_aimed', 'center_axis']
BOUNDARY_CATS = {'rim', 'capgraze', 'parallel_on_wall'}
# rays parallel to the axis up to rounding or within 1e-16..1e-5 of it (not bit-identical): since fix ef5a368 the code
# handles them, so they are part of the correspondence and of the oracle; a regression is reported under NEAR_AXIS_KEY
NEAR_AXIS_CATS = ['parallel_rounded', 'near_axis']
NEAR_AXIS_KEY = 'C18:near-axis-ray-rounding'


def _ulp_perturb(rng, v):
    out = []
    for x in v:
        for _ in range(rng.randrange(0, 3)):
            x = math.nextafter(x, rng.choice([-2.0, 2.0]))
        out.append(x)
    return out


def near_axis_amplification(c, start, n):
    """relative size of the rounding error of n x a along the axis, times the axial part of b, compared with the
    exact terms of s2: (|b.a| + |b|) * 2^-52 / (sin(angle) * r)"""
    sin_ax = angle_to_axis(c['a'], n)
    if sin_ax == 0:
        return 0.0
    b = [c['base'][i] - start[i] for i in range(3)]
    return (abs(_dot(b, _unit(c['a']))) + _norm(b)) * 2.0**-52 / (sin_ax * c['r'])


def is_near_axis_rounding(c, start, n, li, ex):
    """the class of the known finding C18:near-axis-ray-rounding: the direction is within 1e-3 of the axis (but not
    bit-identical to it) and the discrepancy is explained by the amplification above (factor 1e3 for the number of
    rounded operations and the square root)"""
    sin_ax = angle_to_axis(c['a'], n)
    if not 0 < sin_ax < 1e-3:
        return False
    return sin_ax < 1e-9 or abs(li - ex) <= 1e3 * near_axis_amplification(c, start, n) * beam_scale(c, start)


def angle_to_axis(a, n):
    """sin of the angle between direction n and the axis a (both approximately unit)"""
    return _norm(_cross(n, a)) / (_norm(n) * _norm(a))


def gen_ray(rng, c, cat):
    """(start, direction) for cylinder c; built from an independent orthonormal frame"""
    a, base, r, h = c['a'], c['base'], c['r'], c['h']
    e1, e2 = _frame(a)
    phi = rng.uniform(0, 2 * math.pi)
    er = [math.cos(phi) * e1[i] + math.sin(phi) * e2[i] for i in range(3)]
    et = [-math.sin(phi) * e1[i] + math.cos(phi) * e2[i] for i in range(3)]

    def pt(z, rho, d=er):
        return [base[i] + z * a[i] + rho * d[i] for i in range(3)]

    inside = pt(rng.uniform(0.02, 0.98) * h, math.sqrt(rng.uniform(0, 0.96)) * r)
    size = math.hypot(2 * r, h)
    if cat == 'inside':
        return inside, _rand_unit(rng)
    if cat == 'aimed':
        o = _rand_unit(rng)
        start = [inside[i] + o[i] * size * rng.uniform(1.5, 6) for i in range(3)]
        return start, _unit([inside[i] - start[i] for i in range(3)])
    if cat == 'far_aimed':
        o = _rand_unit(rng)
        start = [inside[i] + o[i] * size * _lu(rng, 10, 1e4) for i in range(3)]
        return start, _unit([inside[i] - start[i] for i in range(3)])
    if cat == 'random':
        o = _rand_unit(rng)
        return [inside[i] + o[i] * size * rng.uniform(0.2, 3) for i in range(3)], _rand_unit(rng)
    if cat == 'parallel_in':
        s = rng.choice([1.0, -1.0])
        z = rng.choice([rng.uniform(-2, 3), rng.uniform(0.1, 0.9)]) * h
        return pt(z, rng.uniform(0, 0.95) * r), [s * x for x in a]
    if cat == 'parallel_out':
        s = rng.choice([1.0, -1.0])
        return pt(rng.uniform(-2, 3) * h, rng.uniform(1.05, 3) * r), [s * x for x in a]
    if cat == 'parallel_rounded':
        sgn = rng.choice([1.0, -1.0])
        n = _ulp_perturb(rng, [sgn * x for x in a])
        if rng.random() < 0.3:
            rot = _rand_rotation(rng)  # the axis taken through a rotation and back
            back = [[rot[j][i] for j in range(3)] for i in range(3)]
            n = _unit(_matvec(back, _matvec(rot, [sgn * x for x in a])))
        if rng.random() < 0.7:
            return pt(rng.uniform(0.05, 0.95) * h, math.sqrt(rng.uniform(0, 0.9)) * r), n
        return pt(rng.uniform(-2, 3) * h, rng.uniform(1.1, 3) * r), n
    if cat == 'near_axis':
        # within 1e-16 .. 1e-5 of +-axis, not bit-identical; in long thin and in ordinary cylinders
        d = _lu(rng, 1e-16, 1e-5) * rng.choice([1, -1])
        sgn = rng.choice([1.0, -1.0])
        n = _unit([sgn * a[i] + d * (math.cos(phi) * e1[i] + math.sin(phi) * e2[i]) for i in range(3)])
        if n in ([sgn * x for x in a],):
            n = _ulp_perturb(rng, n)
        if rng.random() < 0.7:
            return pt(rng.uniform(0.05, 0.95) * h, math.sqrt(rng.uniform(0, 0.9)) * r), n
        return pt(rng.uniform(-2, 3) * h, rng.uniform(0, 3) * r), n
    if cat == 'parallel_on_wall':
        s = rng.choice([1.0, -1.0])
        return pt(rng.uniform(-2, 3) * h, r), [s * x for x in a]
    if cat == 'near_parallel':
        d = rng.choice([1e-5, 1e-4, 1e-3, 1e-2]) * rng.choice([1, -1])
        s = rng.choice([1.0, -1.0])
        n = _unit([s * a[i] + d * et[i] for i in range(3)])
        return pt(rng.uniform(-1, 2) * h, rng.uniform(0, 1.5) * r), n
    if cat == 'perpendicular':
        rho = rng.uniform(0, 2.5) * r
        start = pt(rng.uniform(-0.2, 1.2) * h, rho)
        psi = rng.uniform(0, 2 * math.pi)
        return start, _unit([math.cos(psi) * e1[i] + math.sin(psi) * e2[i] for i in range(3)])
    if cat in ('tangent', 'tangent_off'):
        off = 0.0 if cat == 'tangent' else rng.choice([1e-12, 1e-8, 1e-4]) * rng.choice([1, -1])
        rho = r * (1 + off)
        tilt = rng.uniform(-1, 1)
        n = _unit([et[i] + tilt * a[i] for i in range(3)])
        p = pt(rng.uniform(0.2, 0.8) * h, rho)
        back = rng.uniform(0.5, 3) * size
        return [p[i] - back * n[i] for i in range(3)], n
    if cat == 'surface':
        if rng.random() < 0.5:
            p = pt(rng.uniform(0.05, 0.95) * h, r)
        else:
            p = pt(rng.choice([0.0, h]), rng.uniform(0, 0.95) * r)
        return p, _rand_unit(rng)
    if cat == 'rim':
        p = pt(rng.choice([0.0, h]), r)
        n = _rand_unit(rng)
        back = rng.uniform(0.5, 3) * size
        return [p[i] - back * n[i] for i in range(3)], n
    if cat == 'capgraze':
        z = rng.choice([0.0, h])
        start = pt(z, rng.uniform(1.2, 3) * r)
        target = pt(z, rng.uniform(0, 0.9) * r, et)
        return start, _unit([target[i] - start[i] for i in range(3)])
    if cat == 'center_axis':
        ctr = pt(h / 2, 0.0)
        return ctr, rng.choice([a, [-x for x in a], er, _rand_unit(rng)])
    raise ValueError(cat)


# ---------------------------------------------------------------------------------------------
# the implementation, driven from plain Python data

def mk_cyl(c, r_unit=None, flip=False):
    import scipp as sc
    from scippneutron.absorption.cylinder import Cylinder

    a, base = c['a'], c['base']
    if flip:  # the same solid described from its other end
        base = [base[i] + c['h'] * a[i] for i in range(3)]
        a = [-x for x in a]
    r = sc.scalar(c['r'], unit=c['unit'])
    if r_unit is not None:
        r = sc.scalar(c['r'], unit=c['unit']).to(unit=r_unit)
    return Cylinder(sc.vector(a), sc.vector(base, unit=c['unit']), r, sc.scalar(c['h'], unit=c['unit']))


def impl_beam(c, rays):
    """path lengths of all rays [(start, n)] of one cylinder in one vectorised call"""
    import scipp as sc

    cyl = mk_cyl(c)
    starts = sc.vectors(dims=['ray'], values=[s for s, _ in rays], unit=c['unit'])
    dirs = sc.vectors(dims=['ray'], values=[n for _, n in rays])
    out = cyl.beam_intersection(starts, dirs)
    if str(out.unit) != str(sc.Unit(c['unit'])):
        raise RuntimeError(f'beam_intersection unit {out.unit} for inputs in {c["unit"]}')
    return [float(v) for v in out.values]


def line_rule_numpy(kind, k):
    from numpy.polynomial.chebyshev import chebgauss
    from numpy.polynomial.legendre import leggauss

    x, w = (leggauss if KINDS[kind][4] == 'leg' else chebgauss)(k)
    return [float(v) for v in x], [float(v) for v in w]


def py_round_k(kind, h_over_r):
    _, mult, cap, lo, _ = KINDS[kind]
    return round(max(min(mult * h_over_r, cap), lo))


# ---------------------------------------------------------------------------------------------
# exact reference for the path length: point-in-solid predicate along the ray, no closed form

def exact_path(a, base, r, h, p, n, prec=100):
    """length of {t >= 0 | p + t n in solid} in 100-digit decimal arithmetic on the exact input values:
    ternary search of the convex function max(constraints) for an interior parameter, then bisection
    for the two ends. The axis is normalised (|a| taken to 100 digits)."""
    getcontext().prec = prec
    D = Decimal
    a = [D(x) for x in a]
    d0 = [D(p[i]) - D(base[i]) for i in range(3)]
    nn = [D(x) for x in n]
    r, h = D(r), D(h)
    A = _dot(a, a).sqrt()
    z0, zn = _dot(d0, a) / A, _dot(nn, a) / A
    c2 = _dot(nn, nn) - zn * zn
    c1 = 2 * (_dot(d0, nn) - z0 * zn)
    c0 = _dot(d0, d0) - z0 * z0 - r * r

    def f(t):
        z = z0 + t * zn
        return max(-z, z - h, (c2 * t + c1) * t + c0)

    tmax = 2 * (_dot(d0, d0).sqrt() + (r * r + h * h).sqrt()) / _dot(nn, nn).sqrt() + 1
    lo, hi = D(0), tmax
    for _ in range(220):
        m1 = lo + (hi - lo) / 3
        m2 = hi - (hi - lo) / 3
        if f(m1) <= f(m2):
            hi = m2
        else:
            lo = m1
    ts = (lo + hi) / 2
    cands = [t for t in (ts, lo, hi, D(0)) if f(t) <= 0]
    if not cands:
        return 0.0
    ts = cands[0]
    if f(D(0)) <= 0:
        left = D(0)
    else:
        u, v = D(0), ts  # f(u) > 0 >= f(v)
        for _ in range(140):
            m = (u + v) / 2
            if f(m) <= 0:
                v = m
            else:
                u = m
        left = v
    u, v = ts, tmax  # f(u) <= 0 < f(v)
    for _ in range(140):
        m = (u + v) / 2
        if f(m) <= 0:
            u = m
        else:
            v = m
    return float((u - left) * _dot(nn, nn).sqrt())


def in_solid_margin(a, base, r, h, x):
    """signed violation of the point-in-solid predicate, in units of length (<= 0: inside); float arithmetic
    on an explicitly normalised axis"""
    an = _unit(a)
    d = [x[i] - base[i] for i in range(3)]
    z = _dot(d, an)
    rho = _norm([d[i] - z * an[i] for i in range(3)])
    return max(-z, z - h, rho - r)


def beam_scale(c, start):
    b = [c['base'][i] - start[i] for i in range(3)]
    return math.hypot(2 * c['r'], c['h']) + _norm(b)


def close_lengths(x, y, scale):
    """|x - y| <= 1e-9 * scale, or (condition-aware, near tangency) |x^2 - y^2| <= 1e-9 * scale^2"""
    if x == y:
        return True
    if not (math.isfinite(x) and math.isfinite(y)):
        return False
    return abs(x - y) <= REL * scale or abs(x * x - y * y) <= REL * scale * scale


# ---------------------------------------------------------------------------------------------
# correspondence

def _beam_cases(ctx, n_cyl, cats=None):
    cats = RAY_CATS + NEAR_AXIS_CATS if cats is None else cats
    out = []
    for _ in range(n_cyl):
        c = gen_cylinder(ctx.rng, same_scale=ctx.rng.random() < 0.7)
        rays = [(cat, *gen_ray(ctx.rng, c, cat)) for cat in cats]
        out.append((c, rays))
    return out


def _beam_line(c, s, n):
    return 'c18.beam ' + ' '.join(bits(x) for x in [*c['a'], *c['base'], c['r'], c['h'], *s, *n])


def _correspond_tables(ctx):
    import importlib

    q = importlib.import_module('scippneutron.absorption.quadratures')
    names = list(tr_quad.TABLE_NAMES)
    outs = ctx.driver([f'c18.table {n}' for n in names])
    for name, out in zip(names, outs):
        toks = out.split()
        den, n = int(toks[0]), int(toks[1])
        nums = [int(t) for t in toks[2:]]
        tab = getattr(q, name)
        impl = [float(v) for row in zip(tab['x'], tab['y'], tab['weights']) for v in row]
        model = [float(Fraction(v, den)) for v in nums]  # correctly rounded; a literal -0.0 compares equal to 0.0
        ctx.case(('table', name), True, sample={'op': 'table', 'name': name, 'rows': n, 'den': den})
        ctx.count(f'table:{name}:{n}')
        if n != len(tab['x']) or impl != model:
            ctx.disagree({'op': 'table', 'name': name}, [(i, a, b) for i, (a, b) in enumerate(zip(impl, model)) if a != b][:6], n,
                         'generated table differs from the values the running module holds')


def _correspond_beam(ctx):
    cases = _beam_cases(ctx, ctx.n(500, 8000))
    lines = [_beam_line(c, s, n) for c, rays in cases for _, s, n in rays]
    outs = iter(ctx.driver(lines))
    for c, rays in cases:
        impl = impl_beam(c, [(s, n) for _, s, n in rays])
        maxlen = math.hypot(2 * c['r'], c['h'])
        for (cat, s, n), li in zip(rays, impl):
            o = next(outs)
            lm = unbits(o)
            ctx.count('beam:' + cat + (':hit' if li > 0 else ':miss'))
            ctx.count('beam:axis:' + c['axis_cat'])
            ctx.count('beam:bit-equal' if bits(li) == o else 'beam:within-tolerance')
            ctx.case(('beam', bits(c['r']), bits(c['h']), tuple(map(bits, c['a'] + c['base'] + s + n))), li > 0,
                     sample={'op': 'beam', 'cat': cat, **c, 'start': s, 'n': n, 'impl': li, 'model': lm})
            ok = close_lengths(li, lm, beam_scale(c, s))
            if not ok and cat in BOUNDARY_CATS:
                # the answer is discontinuous there; both must be a possible chord length
                ok = all(0 <= v <= maxlen * (1 + REL) for v in (li, lm))
            if not ok:
                ctx.disagree({'op': 'beam', 'cat': cat, **c, 'start': s, 'n': n}, li, lm,
                             'path length: implementation vs model')


def _quad_cases(ctx, n):
    rng = ctx.rng
    out = []
    for i in range(n):
        kind = ['cheap', 'medium', 'expensive'][i % 3] if i < 9 else rng.choice(['cheap', 'cheap', 'medium', 'medium', 'expensive'])
        c = gen_cylinder(rng, same_scale=True)
        _, mult, cap, lo, _ = KINDS[kind]
        mode = rng.random()
        if mode < 0.35:  # exactly at / next to a rounding tie of the node count
            k = rng.randrange(int(lo), int(cap) + 1)
            ratio = (k + 0.5) / mult
            ratio = rng.choice([ratio, math.nextafter(ratio, 0), math.nextafter(ratio, 10)])
            c['h'] = c['r'] * ratio
        elif mode < 0.5:
            c['h'] = c['r'] * _lu(rng, 1e-3, 1e3)
        c['h'] = min(max(c['h'], 1e-3), 1e3)
        r_unit = rng.choice(UNITS) if rng.random() < 0.3 else None
        out.append((kind, c, r_unit))
    return out


def impl_quadrature(kind, c, r_unit=None, flip=False):
    cyl = mk_cyl(c, r_unit, flip)
    p, w = cyl.quadrature(kind)
    return cyl, p, w


def _quad_line(kind, c, rv, sr, x, w):
    pairs = [v for xw in zip(x, w) for v in xw]
    return f'c18.quad {kind} ' + ' '.join(bits(v) for v in [*c['a'], *c['base'], rv, c['h'], sr, *pairs])


def _correspond_quadrature(ctx):
    import scipp as sc
    from scippneutron.absorption import quadratures as qmod

    cases = _quad_cases(ctx, ctx.n(90, 1200))
    lines, meta = [], []
    for kind, c, r_unit in cases:
        cyl, p, w = impl_quadrature(kind, c, r_unit)
        rv = float(cyl.radius.value)
        sr = float(sc.scalar(1.0, unit=cyl.radius.unit).to(unit=c['unit']).value)
        k_impl = len(p) // len(getattr(qmod, KINDS[kind][0])['x'])
        x, wl = line_rule_numpy(kind, k_impl)
        _, mult, cap, lo, _ = KINDS[kind]
        lines.append('c18.selectk ' + ' '.join(bits(v) for v in (mult, cap, lo, c['h'], rv)))
        lines.append(_quad_line(kind, c, rv, sr, x, wl))
        meta.append((kind, c, r_unit, rv, sr, k_impl, p, w))
    outs = ctx.driver(lines)
    for j, (kind, c, r_unit, rv, sr, k_impl, p, w) in enumerate(meta):
        k_model = int(outs[2 * j])
        ctx.count(f'quad:{kind}:k={k_impl}')
        ctx.count('quad:axis:' + c['axis_cat'])
        ctx.count('quad:radius-unit:' + ('same' if r_unit is None else 'other'))
        ident = ('quad', kind, r_unit, bits(c['r']), bits(c['h']), tuple(map(bits, c['a'] + c['base'])))
        ctx.case(ident, True, sample={'op': 'quad', 'kind': kind, **c, 'r_unit': r_unit, 'k': k_impl, 'points': len(p)})
        if k_model != k_impl:
            ctx.disagree({'op': 'selectk', 'kind': kind, **c, 'r_unit': r_unit}, k_impl, k_model, 'number of line nodes')
            continue
        vals = [unbits(t) for t in outs[2 * j + 1].split()]
        pm = [vals[i:i + 4] for i in range(0, len(vals), 4)]
        pv, wv = p.values, w.values
        if len(pm) != len(pv):
            ctx.disagree({'op': 'quad', 'kind': kind, **c}, len(pv), len(pm), 'number of points')
            continue
        ctr = [c['base'][i] + c['a'][i] * c['h'] / 2 for i in range(3)]
        scale = max(rv * sr, c['h']) + _norm(ctr)
        worst = 0.0
        bad = None
        for i, (m, pi_, wi) in enumerate(zip(pm, pv, wv)):
            dp = max(abs(m[0] - pi_[0]), abs(m[1] - pi_[1]), abs(m[2] - pi_[2])) / scale
            dw = abs(m[3] - wi) / abs(wi) if wi != 0 else math.inf
            if max(dp, dw) > worst:
                worst, bad = max(dp, dw), i
        if not worst <= REL:
            ctx.disagree({'op': 'quad', 'kind': kind, **c, 'r_unit': r_unit, 'index': bad},
                         [*map(float, pv[bad]), float(wv[bad])], pm[bad], f'point/weight differs by {worst:.3g} (relative)')
    # the re-weighting of the Chebyshev rule
    lines, ref = [], []
    for k in sorted({m[5] for m in meta if KINDS[m[0]][4] == 'cheb'} | {7, 11, 25, 35}):
        import numpy as np
        from numpy.polynomial.chebyshev import chebgauss

        x, w = chebgauss(k)
        lines.append('c18.cheb ' + ' '.join(bits(v) for xw in zip(x, w) for v in xw))
        w = w * (1 - x**2) ** 0.5
        w = w / (sum(w) / 2)
        ref.append((k, list(map(float, x)), list(map(float, w))))
    for (k, x, w), out in zip(ref, ctx.driver(lines)):
        vals = [unbits(t) for t in out.split()]
        ctx.case(('cheb', k), True)
        ctx.count('cheb-reweight')
        if len(vals) != 2 * k or any(abs(vals[2 * i + 1] - w[i]) > 1e-12 * w[i] or vals[2 * i] != x[i] for i in range(k)):
            ctx.disagree({'op': 'cheb', 'k': k}, w, vals[1::2], 're-weighted Chebyshev rule')


def _off_axis(a, d):
    """d itself unless it is within 1e-4 of the axis direction; then tilted by 1e-3"""
    if angle_to_axis(a, d) >= 1e-4:
        return d
    e1, _ = _frame(_unit(a))
    return _unit([d[i] + 1e-3 * e1[i] for i in range(3)])


def gen_transmission_case(rng, kind=None, axis_aligned='all', cyl=None):
    """axis_aligned: 'none' — neither the beam nor a detector direction is within 1e-4 of the axis;
    'beam' — the beam may be bit-identical to +-axis (exactly parallel), detectors off the axis line;
    'all' — detectors may also sit on the axis line (directions parallel up to rounding)"""
    c = dict(cyl) if cyl is not None else gen_cylinder(rng, same_scale=True)
    size = max(c['r'], c['h'])
    # keep the sample within a factor 1e3 of the origin so that detector directions are well defined
    if _norm(c['base']) > 100 * size:
        c['base'] = [x / 50 for x in c['base']]
    kind = kind or rng.choice(['cheap', 'cheap', 'medium', 'medium', 'expensive'])
    beam = rng.choice([_rand_unit(rng), [0.0, 0.0, 1.0], c['a'], [-x for x in c['a']]])
    if axis_aligned == 'all' and rng.random() < 0.2:  # parallel to the axis up to rounding
        beam = _ulp_perturb(rng, rng.choice([c['a'], [-x for x in c['a']]]))
    if axis_aligned == 'none' or (axis_aligned == 'beam' and beam not in (c['a'], [-x for x in c['a']])):
        beam = _off_axis(c['a'], beam)
    ctr = [c['base'][i] + c['a'][i] * c['h'] / 2 for i in range(3)]
    dets = []
    for _ in range(rng.choice([1, 2, 4])):
        k = rng.random()
        d = _rand_unit(rng) if k < 0.6 else rng.choice([beam, [-x for x in beam], c['a'], [-x for x in c['a']], [0.0, 0.0, 1.0], [0.0, -1.0, 0.0]])
        if axis_aligned != 'all':
            d = _off_axis(c['a'], d)
        dist = size * _lu(rng, 3, 1e4)
        dets.append([ctr[i] + dist * d[i] for i in range(3)])
    nl = rng.choice([1, 2, 3])
    lams = sorted(_lu(rng, 0.1, 20) for _ in range(nl))
    # attenuation: mu * size from 0 to ~5
    mode = rng.random()
    sig_s = 0.0 if mode < 0.15 else _lu(rng, 1e-3, 3) / size
    sig_a = 0.0 if mode < 0.15 or mode > 0.85 else _lu(rng, 1e-3, 3) / size
    return {'kind': kind, 'cyl': c, 'beam': beam, 'dets': dets, 'det_unit': rng.choice([c['unit'], 'm', 'mm']),
            'lams': lams, 'sig_s': sig_s, 'sig_a': sig_a, 'dens': 1.0}


def _unit_ratio(u_from, u_to):
    import scipp as sc

    return float(sc.scalar(1.0, unit=u_from).to(unit=u_to).value)


def mk_material(t):
    import scipp as sc
    from scippneutron.absorption import Material
    from scippneutron.atoms import ScatteringParams

    u = t['cyl']['unit']
    return Material(
        ScatteringParams('Fake', absorption_cross_section=sc.scalar(t['sig_a'], unit=f'{u}**2'),
                         total_scattering_cross_section=sc.scalar(t['sig_s'], unit=f'{u}**2')),
        sc.scalar(t['dens'], unit=f'1/{u}**3'))


def impl_transmission(t, cyl_override=None, beam=None, dets=None, kind=None):
    """values[wavelength][det] of compute_transmission_map; detector positions are given in the cylinder's
    unit and handed over in t['det_unit']"""
    import scipp as sc
    from scippneutron.absorption import compute_transmission_map

    cyl = cyl_override or mk_cyl(t['cyl'])
    k = _unit_ratio(t['cyl']['unit'], t['det_unit'])
    dets = t['dets'] if dets is None else dets
    tm = compute_transmission_map(
        cyl, mk_material(t), beam_direction=sc.vector(t['beam'] if beam is None else beam),
        wavelength=sc.array(dims=['wavelength'], values=t['lams'], unit='angstrom'),
        detector_position=sc.vectors(dims=['det'], values=[[x * k for x in d] for d in dets], unit=t['det_unit']),
        quadrature_kind=kind or t['kind'])
    if tm.dims != ('wavelength', 'det') or str(tm.unit) != 'dimensionless':
        raise RuntimeError(f'transmission map dims {tm.dims} unit {tm.unit}')
    return [[float(v) for v in row] for row in tm.values]


def impl_mu(t):
    import scipp as sc

    m = mk_material(t)
    mu = m.attenuation_coefficient(sc.array(dims=['wavelength'], values=t['lams'], unit='angstrom'))
    return [float(v) for v in mu.to(unit=f"1/{t['cyl']['unit']}").values]


def _correspond_transmission(ctx):
    cases = [gen_transmission_case(ctx.rng) for _ in range(ctx.n(150, 2500))]
    lines, meta = [], []
    for t in cases:
        c = t['cyl']
        k = py_round_k(t['kind'], c['h'] / c['r'])
        x, w = line_rule_numpy(t['kind'], k)
        pairs = [v for xw in zip(x, w) for v in xw]
        mus = impl_mu(t)
        kdet = _unit_ratio(c['unit'], t['det_unit'])
        back = _unit_ratio(t['det_unit'], c['unit'])
        for il, mu in enumerate(mus):
            for idet, d in enumerate(t['dets']):
                dd = [x_ * kdet * back for x_ in d]
                lines.append(f"c18.trans {t['kind']} " + ' '.join(
                    bits(v) for v in [*c['a'], *c['base'], c['r'], c['h'], 1.0, *t['beam'], *dd, mu, *pairs]))
                meta.append((t, il, idet, mu))
    outs = ctx.driver(lines)
    cache = {}
    for (t, il, idet, mu), o in zip(meta, outs):
        key = id(t)
        if key not in cache:
            cache[key] = impl_transmission(t)
        ti = cache[key][il][idet]
        tmod = unbits(o)
        ctx.count('trans:' + t['kind'])
        ctx.count('trans:mu=0' if mu == 0 else 'trans:mu>0')
        ctx.case(('trans', t['kind'], bits(mu), tuple(map(bits, t['cyl']['a'] + t['cyl']['base'] + t['dets'][idet] + t['beam']))),
                 mu > 0, sample={'op': 'trans', 'kind': t['kind'], 'mu': mu, 'impl': ti, 'model': tmod, 'axis': t['cyl']['a']})
        if not (abs(ti - tmod) <= REL * abs(tmod)):
            ctx.disagree({'op': 'trans', **t, 'wavelength_index': il, 'det_index': idet, 'mu': mu}, ti, tmod,
                         'transmission: implementation vs model')


def _corpus_payloads():
    import glob
    import json
    import os

    d = os.path.join(os.path.dirname(os.path.dirname(os.path.dirname(os.path.abspath(__file__)))), 'corpus', 'C18')
    out = []
    for path in sorted(glob.glob(os.path.join(d, '*.json'))):
        with open(path) as f:
            out.append((os.path.basename(path), json.load(f)))
    return out


def _correspond_corpus(ctx):
    """the minimised witnesses of C18:near-axis-ray-rounding: the implementation and the model of the CURRENT code
    agree; the model's named pre-fix variant (lineInfiniteCylinderOld) still shows the defect (recorded, not required)"""
    items = [(name, p['witness']) for name, p in _corpus_payloads() if 'start' in p.get('witness', {})]
    lines = []
    for _, w in items:
        lines += [_beam_line(w, w['start'], w['n']), _beam_line(w, w['start'], w['n']).replace('c18.beam ', 'c18.beamold ', 1)]
    outs = ctx.driver(lines)
    for k, (name, w) in enumerate(items):
        li = impl_beam(w, [(w['start'], w['n'])])[0]
        lm, lold = unbits(outs[2 * k]), unbits(outs[2 * k + 1])
        ex = exact_path(w['a'], w['base'], w['r'], w['h'], w['start'], w['n'])
        scale = beam_scale(w, w['start'])
        ctx.case(('corpus-beam', name), True, sample={'op': 'corpus', 'file': name, 'impl': li, 'model': lm, 'model_old_formula': lold, 'exact': ex})
        ctx.count('corpus:old-formula-' + ('reproduces-defect' if not close_lengths(lold, ex, scale) else 'accurate'))
        if not close_lengths(li, lm, scale):
            ctx.disagree({'op': 'beam', 'corpus': name}, li, lm, 'path length: implementation vs model')



# ---------------------------------------------------------------------------------------------
# object-reuse histories: one Cylinder object used, its geometry fields reassigned, used again;
# every result must be the result of a freshly constructed Cylinder with the same field values

STALE_KEY = 'C18:stale-geometry-after-field-update'
STALE_ARGS_KEY = 'C18:stale-material-or-detector-after-reuse'
GEOM_FIELDS = ['center_of_base', 'symmetry_line', 'height', 'radius']
STATE_KEY = {'center_of_base': 'base', 'symmetry_line': 'a', 'height': 'h', 'radius': 'r'}


def _hist_use(rng, c, kinds, touch_center=False):
    """one use of the cylinder in state c: [name, params]"""
    names = ['quadrature', 'center', 'transmission'] if touch_center else \
        ['beam', 'beam', 'quadrature', 'quadrature', 'volume', 'center', 'transmission', 'transmission']
    name = rng.choice(names)
    if name == 'beam':
        cats = rng.sample(RAY_CATS + NEAR_AXIS_CATS, 4)
        return ['beam', [[cat, *gen_ray(rng, c, cat)] for cat in cats]]
    if name == 'quadrature':
        return ['quadrature', rng.choice(kinds)]
    if name == 'transmission':
        t = gen_transmission_case(rng, kind=rng.choice(kinds), axis_aligned='beam', cyl=c)
        return ['transmission', {k: t[k] for k in ('kind', 'beam', 'dets', 'det_unit', 'lams', 'sig_s', 'sig_a', 'dens')}]
    return [name, None]


def _hist_mutation(rng, c):
    """[how, {field: new value}]; how = set | replace | copy+set"""
    size = max(c['r'], c['h'])
    n = rng.choice([1, 1, 1, 2])
    upd = {}
    for f in rng.sample(GEOM_FIELDS, n):
        if f == 'center_of_base':
            upd[f] = [x + rng.uniform(-4, 4) * size for x in c['base']]
        elif f == 'symmetry_line':
            upd[f] = gen_axis(rng)[1]
        elif f == 'height':
            upd[f] = min(max(c['h'] * _lu(rng, 0.3, 3), 1e-3), 1e3)
        else:
            upd[f] = min(max(c['r'] * _lu(rng, 0.3, 3), 1e-3), 1e3)
    return [rng.choice(['set', 'set', 'set', 'replace', 'copy+set']), upd]


def gen_history(rng, kinds=('cheap', 'medium', 'expensive')):
    c = gen_cylinder(rng, same_scale=True)
    if _norm(c['base']) > 100 * max(c['r'], c['h']):
        c['base'] = [x / 50 for x in c['base']]
    c0 = dict(c)
    ops = []
    n_uses = rng.choice([2, 3])
    for i in range(n_uses):
        ops.append(['use', *_hist_use(rng, c, list(kinds), touch_center=(i == 0 and rng.random() < 0.7))])
        if i < n_uses - 1:
            m = _hist_mutation(rng, c)
            ops.append(m)
            for f, v in m[1].items():
                c[STATE_KEY[f]] = v
    return {'cyl': c0, 'ops': ops}


def _apply_mutation(obj, c, how, upd):
    """returns (object to continue with, new state)"""
    import copy
    import dataclasses

    import scipp as sc

    vals = {}
    c = dict(c)
    for f, v in upd.items():
        c[STATE_KEY[f]] = v
        if f == 'center_of_base':
            vals[f] = sc.vector(v, unit=c['unit'])
        elif f == 'symmetry_line':
            vals[f] = sc.vector(v)
        else:
            vals[f] = sc.scalar(v, unit=c['unit'])
    if how == 'replace':
        return dataclasses.replace(obj, **vals), c
    if how == 'copy+set':
        obj = copy.copy(obj)
    for f, v in vals.items():
        setattr(obj, f, v)
    return obj, c


def _tm_values(cyl, material, beam_var, wav_var, det_var, kind):
    from scippneutron.absorption import compute_transmission_map

    tm = compute_transmission_map(cyl, material, beam_direction=beam_var, wavelength=wav_var,
                                  detector_position=det_var, quadrature_kind=kind)
    return [float(v) for row in tm.values for v in row]


def _tm_args(c, u):
    import scipp as sc

    t = {'cyl': c, **u}
    k = _unit_ratio(c['unit'], u['det_unit'])
    return (mk_material(t), sc.vector(u['beam']),
            sc.array(dims=['wavelength'], values=u['lams'], unit='angstrom'),
            sc.vectors(dims=['det'], values=[[x * k for x in d] for d in u['dets']], unit=u['det_unit']))


def _do_use(obj, c, name, par):
    """canonical result of one use: flat list of floats in the unit of the cylinder"""
    import scipp as sc

    lu = c['unit']
    if name == 'beam':
        starts = sc.vectors(dims=['ray'], values=[r[1] for r in par], unit=lu)
        dirs = sc.vectors(dims=['ray'], values=[r[2] for r in par])
        return [float(v) for v in obj.beam_intersection(starts, dirs).to(unit=lu).values]
    if name == 'quadrature':
        p, w = obj.quadrature(par)
        return [float(x) for q in p.to(unit=lu).values for x in q] + [float(x) for x in w.to(unit=f'{lu}**3').values]
    if name == 'volume':
        return [float(obj.volume.to(unit=f'{lu}**3').value)]
    if name == 'center':
        return [float(x) for x in obj.center.to(unit=lu).value]
    if name == 'transmission':
        m, b, wv, dv = _tm_args(c, par)
        return _tm_values(obj, m, b, wv, dv, par['kind'])
    raise ValueError(name)


def _same(got, want):
    if len(got) != len(want):
        return False
    scale = max([abs(x) for x in want] + [1e-300])
    return all(abs(g - w) <= 1e-12 * scale for g, w in zip(got, want))


def run_history(hist):
    """[(step index, use name, state, params, result on the reused object, result on a fresh object)]"""
    c = dict(hist['cyl'])
    obj = mk_cyl(c)
    out = []
    last_mut = None
    for i, op in enumerate(hist['ops']):
        if op[0] == 'use':
            got = _do_use(obj, c, op[1], op[2])
            want = _do_use(mk_cyl(c), c, op[1], op[2])
            out.append((i, op[1], dict(c), op[2], got, want, last_mut))
        else:
            obj, c = _apply_mutation(obj, c, op[0], op[1])
            last_mut = op
    return out


def check_history(hist):
    bad = []
    for i, name, c, par, got, want, mut in run_history(hist):
        if not _same(got, want):
            k = next((j for j, (g, w) in enumerate(zip(got, want)) if not abs(g - w) <= 1e-12 * max(abs(w), 1e-300)), 0)
            desc = par if name == 'quadrature' else (par['kind'] if name == 'transmission' else '')
            bad.append((STALE_KEY, f'step {i}: {name}({desc}) on a Cylinder object reused after {mut[0]} of {sorted(mut[1])} '
                                   f'differs from a freshly constructed Cylinder with the same fields '
                                   f'(entry {k}: {got[k] if k < len(got) else None!r} vs {want[k] if k < len(want) else None!r}; '
                                   f'{len(got)} vs {len(want)} values)' if mut else f'step {i}: {name} not reproducible'))
    return bad


def gen_args_history(rng):
    """Material / wavelength / detector / beam objects reused across two calls, the Material's fields reassigned
    in between, cylinders differing between the calls"""
    t1 = gen_transmission_case(rng, kind=rng.choice(['cheap', 'medium']), axis_aligned='beam')
    c2 = dict(t1['cyl'])
    size = max(c2['r'], c2['h'])
    c2['base'] = [x + rng.uniform(-3, 3) * size for x in c2['base']]
    if rng.random() < 0.5:
        c2['a'] = gen_axis(rng)[1]
    return {'t': t1, 'cyl2': c2, 'dens2': t1['dens'] * _lu(rng, 0.3, 3), 'sig_s2': t1['sig_s'] * _lu(rng, 0.3, 3) + 1e-3 / size,
            'sig_a2': t1['sig_a'] * _lu(rng, 0.3, 3), 'mutate': rng.choice(['density', 'params', 'both', 'none'])}


def check_args_history(hh):
    import scipp as sc
    from scippneutron.atoms import ScatteringParams

    t, c1, c2 = hh['t'], hh['t']['cyl'], hh['cyl2']
    u = c1['unit']
    m, b, wv, dv = _tm_args(c1, t)
    keep = [b.copy(), wv.copy(), dv.copy()]
    first = _tm_values(mk_cyl(c1), m, b, wv, dv, t['kind'])
    t2 = dict(t)
    t2['cyl'] = c2
    if hh['mutate'] in ('density', 'both'):
        m.effective_sample_number_density = sc.scalar(hh['dens2'], unit=f'1/{u}**3')
        t2['dens'] = hh['dens2']
    if hh['mutate'] in ('params', 'both'):
        m.scattering_params = ScatteringParams('Fake', absorption_cross_section=sc.scalar(hh['sig_a2'], unit=f'{u}**2'),
                                               total_scattering_cross_section=sc.scalar(hh['sig_s2'], unit=f'{u}**2'))
        t2['sig_a'], t2['sig_s'] = hh['sig_a2'], hh['sig_s2']
    second = _tm_values(mk_cyl(c2), m, b, wv, dv, t['kind'])  # same Material / beam / wavelength / detector objects
    bad = []
    for name, before, after in zip(('beam_direction', 'wavelength', 'detector_position'), keep, (b, wv, dv)):
        if not sc.identical(before, after):
            bad.append((STALE_ARGS_KEY, f'{name} argument modified by compute_transmission_map'))
    m1, b1, w1, d1 = _tm_args(c1, t)
    if not _same(first, _tm_values(mk_cyl(c1), m1, b1, w1, d1, t['kind'])):
        bad.append((STALE_ARGS_KEY, 'first call not reproducible with freshly built arguments'))
    m2, b2, w2, d2 = _tm_args(c2, t2)
    fresh = _tm_values(mk_cyl(c2), m2, b2, w2, d2, t['kind'])
    if not _same(second, fresh):
        bad.append((STALE_ARGS_KEY, f"second call with the reused Material (reassigned: {hh['mutate']}), wavelength, beam and detector "
                                    f'objects gives {second[:3]}, freshly built arguments give {fresh[:3]}'))
    return bad


def oracle_histories(ctx, n, n_args):
    for _ in range(n):
        hist = gen_history(ctx.rng, ('cheap', 'medium') if ctx.rng.random() < 0.8 else ('expensive',))
        uses = [op[1] for op in hist['ops'] if op[0] == 'use']
        muts = [op for op in hist['ops'] if op[0] != 'use']
        ctx.case(('oracle-history', tuple(uses), tuple(map(bits, hist['cyl']['a'] + hist['cyl']['base']))), True)
        ctx.count(f'oracle-history:{len(uses)}-uses')
        for j, u_ in enumerate(uses):
            ctx.count(f'oracle-history:use:{u_}' + (':first' if j == 0 else ':after-update'))
        for mth in muts:
            ctx.count('oracle-history:update:' + mth[0])
            for f_ in mth[1]:
                ctx.count('oracle-history:field:' + f_)
        for key, what in check_history(hist):
            ctx.violation(key, what, hist)
    for _ in range(n_args):
        hh = gen_args_history(ctx.rng)
        ctx.case(('oracle-args-history', hh['mutate'], tuple(map(bits, hh['t']['cyl']['a'] + hh['cyl2']['base']))), True)
        ctx.count('oracle-args-history:' + hh['mutate'])
        for key, what in check_args_history(hh):
            ctx.violation(key, what, hh)


def _correspond_histories(ctx):
    """the same histories against the (stateless) Lean model: every use of the reused object is compared with
    the model evaluated at the object's current field values"""
    from scippneutron.absorption import quadratures as qmod

    hists = [gen_history(ctx.rng, ('cheap', 'medium')) for _ in range(ctx.n(40, 500))]
    lines, meta = [], []
    for hist in hists:
        for i, name, c, par, got, _want, mut in run_history(hist):
            if name == 'beam':
                for (cat, s_, n_), g in zip(par, got[:len(par)]):
                    lines.append(_beam_line(c, s_, n_))
                    meta.append((hist, i, name, c, ('ray', cat, s_), [g], mut))
            elif name == 'center':
                lines.append('c18.center ' + ' '.join(bits(v) for v in [*c['a'], *c['base'], c['h']]))
                meta.append((hist, i, name, c, None, got, mut))
            elif name == 'volume':
                lines.append('c18.volume ' + ' '.join(bits(v) for v in [c['r'], c['h']]))
                meta.append((hist, i, name, c, None, got, mut))
            elif name == 'quadrature':
                k = py_round_k(par, c['h'] / c['r'])
                x, w = line_rule_numpy(par, k)
                lines.append(_quad_line(par, c, c['r'], 1.0, x, w))
                meta.append((hist, i, name, c, par, got, mut))
            elif name == 'transmission':
                k = py_round_k(par['kind'], c['h'] / c['r'])
                x, w = line_rule_numpy(par['kind'], k)
                pairs = [v for xw in zip(x, w) for v in xw]
                mus = impl_mu({'cyl': c, **par})
                nd = len(par['dets'])
                for il, mu in enumerate(mus):
                    for idet, d in enumerate(par['dets']):
                        lines.append(f"c18.trans {par['kind']} " + ' '.join(
                            bits(v) for v in [*c['a'], *c['base'], c['r'], c['h'], 1.0, *par['beam'], *d, mu, *pairs]))
                        meta.append((hist, i, name, c, par['kind'], [got[il * nd + idet]], mut))
    outs = ctx.driver(lines)
    for (hist, i, name, c, par, got, mut), o in zip(meta, outs):
        model = [unbits(t) for t in o.split()]
        ctr = [c['base'][j] + c['a'][j] * c['h'] / 2 for j in range(3)]
        ctx.count(f'history:{name}' + (':after-' + mut[0] if mut else ':first-use'))
        ctx.case(('history', name, i, bits(c['r']), bits(c['h']), tuple(map(bits, c['a'] + c['base'])), repr(par)[:80]), mut is not None)
        if name == 'beam':
            ok = close_lengths(got[0], model[0], beam_scale(c, par[2]))
            if not ok and par[1] in BOUNDARY_CATS:
                ok = all(0 <= v <= math.hypot(2 * c['r'], c['h']) * (1 + REL) for v in (got[0], model[0]))
        elif name == 'quadrature':
            npts = len(model) // 4
            scale = max(c['r'], c['h']) + _norm(ctr)
            ok = len(got) == 4 * npts and all(
                abs(got[3 * q + j] - model[4 * q + j]) <= REL * scale for q in range(npts) for j in range(3)) and all(
                abs(got[3 * npts + q] - model[4 * q + 3]) <= REL * abs(model[4 * q + 3]) for q in range(npts))
        elif name == 'center':
            ok = len(model) == 3 and all(abs(g - m_) <= 1e-12 * (max(c['r'], c['h']) + _norm(ctr)) for g, m_ in zip(got, model))
        elif name == 'volume':
            ok = abs(got[0] - model[0]) <= 1e-12 * model[0]
        else:
            ok = abs(got[0] - model[0]) <= REL * abs(model[0])
        if not ok:
            ctx.disagree({'op': 'history:' + name, 'step': i, 'state': c, 'after': mut, 'history': hist}, got[:8], model[:8],
                         'reused Cylinder object vs the model at the current field values')


def correspond(ctx):
    _correspond_tables(ctx)
    _correspond_corpus(ctx)
    _correspond_beam(ctx)
    _correspond_quadrature(ctx)
    _correspond_transmission(ctx)
    _correspond_histories(ctx)


# ---------------------------------------------------------------------------------------------
# direct oracle: the property statement on the real code

def _disk_moment_exact(i, j):
    """integral of x^i y^j over the unit disk divided by pi (a rational)"""
    if i % 2 or j % 2:
        return Fraction(0)

    def df(n):
        r = 1
        while n > 1:
            r *= n
            n -= 2
        return r

    return Fraction(2 * df(i - 1) * df(j - 1), df(i + j + 2))


def check_line_rules(ctx):
    """assumption validation: numpy's Gauss rules against their closed forms (exact arithmetic)"""
    import numpy as np
    from numpy.polynomial.chebyshev import chebgauss
    from numpy.polynomial.legendre import leggauss

    for k in range(7, 36):
        x, w = chebgauss(k)
        ref = [math.cos(math.pi * (2 * i + 1) / (2 * k)) for i in range(k)]
        if len(x) != k or any(abs(x[i] - ref[i]) > 1e-14 for i in range(k)) or any(abs(w[i] - math.pi / k) > 1e-14 for i in range(k)):
            raise RuntimeError(f'numpy chebgauss({k}) is not the Chebyshev-Gauss rule')
        if not all(-1 < v < 1 for v in x):
            raise RuntimeError('chebgauss node outside (-1,1)')
    for k in range(5, 16):
        x, w = leggauss(k)
        tot = Fraction(0)
        for xi, wi in zip(x, w):
            X = Fraction(float(xi))
            p0, p1 = Fraction(1), X
            for n in range(1, k):
                p0, p1 = p1, ((2 * n + 1) * X * p1 - n * p0) / (n + 1)
            dp = k * (X * p1 - p0) / (X * X - 1)  # P_k'(x)
            if abs(float(p1 / dp)) > 1e-14:
                raise RuntimeError(f'numpy leggauss({k}) node {xi} is not a root of P_{k}')
            wref = 2 / ((1 - X * X) * dp * dp)
            if abs(float(wref) - wi) > 1e-13 or not (-1 < xi < 1) or not wi > 0:
                raise RuntimeError(f'numpy leggauss({k}) weight {wi} differs from 2/((1-x^2)P\'(x)^2)')
            tot += Fraction(float(wi))
        if abs(float(tot) - 2) > 1e-13:
            raise RuntimeError(f'numpy leggauss({k}) weights sum to {float(tot)}')
        ctx.count('line-rule-validated')


def oracle_beam(ctx, n_cyl):
    for c, rays in _beam_cases(ctx, n_cyl, RAY_CATS + NEAR_AXIS_CATS * 2):
        impl = impl_beam(c, [(s, n) for _, s, n in rays])
        maxlen = math.hypot(2 * c['r'], c['h'])
        for (cat, s, n), li in zip(rays, impl):
            ctx.case(('oracle-beam', bits(c['r']), bits(c['h']), tuple(map(bits, c['a'] + c['base'] + s + n))), True)
            w = {**c, 'cat': cat, 'start': s, 'n': n, 'impl': li}
            if not (0 <= li <= maxlen * (1 + REL) + REL * beam_scale(c, s)):
                ctx.violation('C18:path-length-range', f'path length {li} outside [0, longest chord {maxlen}]', w)
                continue
            if cat in BOUNDARY_CATS:
                ctx.count('oracle-beam:boundary(range only)')
                continue
            ex = exact_path(c['a'], c['base'], c['r'], c['h'], s, n)
            ctx.count('oracle-beam:' + ('hit' if ex > 0 else 'miss'))
            if not close_lengths(li, ex, beam_scale(c, s)):
                sin_ax = angle_to_axis(c['a'], n)
                key = NEAR_AXIS_KEY if is_near_axis_rounding(c, s, n, li, ex) else 'C18:path-length'
                ctx.violation(key, f'path length {li} but the ray is inside the solid for a length of {ex}'
                              + (f' (direction almost parallel to the axis, sin(angle) = {sin_ax:.3g}: rounding error of n x a '
                                 f'along the axis, amplified by {near_axis_amplification(c, s, n):.3g})' if key == NEAR_AXIS_KEY else ''),
                              {**w, 'exact': ex})


def _frame_coords(c, flip, p):
    """coordinates of point p in an independently built frame (e1, e2, axis) centred at the solid's centre"""
    a = _unit(c['a'])
    e1, e2 = _frame(a)
    ctr = [c['base'][i] + a[i] * c['h'] / 2 for i in range(3)]
    d = [p[i] - ctr[i] for i in range(3)]
    return _dot(d, e1), _dot(d, e2), _dot(d, a)


def oracle_quadrature(ctx, n):
    import scipp as sc

    for kind, c, r_unit in _quad_cases(ctx, n):
        flip = ctx.rng.random() < 0.3
        cyl, p, w = impl_quadrature(kind, c, r_unit, flip)
        ctx.case(('oracle-quad', kind, r_unit, flip, bits(c['r']), bits(c['h']), tuple(map(bits, c['a'] + c['base']))), True)
        ctx.count('oracle-quad:' + kind)
        wit = {'kind': kind, **c, 'r_unit': r_unit, 'flip': flip}
        bad = check_quadrature(kind, c, r_unit, flip, cyl, p, w)
        for key, what in bad:
            ctx.violation(key, what, wit)


def check_quadrature(kind, c, r_unit, flip, cyl, p, w):
    """[(key, what)] of property clauses the quadrature of the real code breaks"""
    import scipp as sc

    out = []
    lu = c['unit']
    if str(p.unit) != str(sc.Unit(lu)):
        out.append(('C18:quadrature-unit', f'points in {p.unit}, solid in {lu}'))
        return out
    r = c['r']  # radius in the length unit of the solid
    h = c['h']
    a_eff = [-x for x in c['a']] if flip else c['a']
    pv = [[float(x) for x in q] for q in p.values]
    try:
        wv = [float(x) for x in w.to(unit=f'{lu}**3').values]
    except Exception as e:  # noqa: BLE001
        out.append(('C18:quadrature-unit', f'weights are not a volume: {w.unit} ({e!r})'))
        return out
    vol = math.pi * r * r * h
    ctr = [c['base'][i] + c['a'][i] * h / 2 for i in range(3)]
    scale = max(r, h) + _norm(ctr)
    worst = max(in_solid_margin(c['a'], c['base'], r, h, q) for q in pv)
    if worst > REL * scale:
        n_out = sum(in_solid_margin(c['a'], c['base'], r, h, q) > REL * scale for q in pv)
        # the class "rotation wrong for axes with a negative z-component" is recognised by a control: the mirror
        # image of the same solid (axis z-component negated) has all its points inside
        lower = False
        if a_eff[2] < 0:
            cm = dict(c)
            cm['a'] = [c['a'][0], c['a'][1], -c['a'][2]]
            cm['base'] = [c['base'][0], c['base'][1], -c['base'][2]]
            try:
                _, pm, _ = impl_quadrature(kind, cm, r_unit, flip)
                lower = max(in_solid_margin(cm['a'], cm['base'], r, h, [float(x) for x in q]) for q in pm.values) <= REL * scale
            except Exception:  # noqa: BLE001
                lower = False
        key = 'C18:quadrature-rotation-lower-hemisphere' if lower else 'C18:quadrature-point-outside'
        out.append((key, f'{n_out} of {len(pv)} quadrature points outside the solid (worst by {worst:.3g} {lu}; axis {a_eff})'))
    if not all(x > 0 for x in wv):
        out.append(('C18:quadrature-weight-sign', f'non-positive weight {min(wv)}'))
    eps = max(EPS_TAB[kind] / math.pi, REL)
    sw = math.fsum(wv)
    if not abs(sw - vol) <= eps * vol:
        out.append(('C18:quadrature-weight-sum', f'weights sum to {sw}, volume is {vol} (relative {abs(sw - vol) / vol:.3g})'))
    try:
        vimpl = float(cyl.volume.to(unit=f'{lu}**3').value)
    except Exception as e:  # noqa: BLE001
        vimpl = math.nan
    if not abs(vimpl - vol) <= 1e-12 * vol:
        out.append(('C18:volume', f'Cylinder.volume {vimpl} is not pi r^2 h = {vol}'))
    # polynomial exactness in an independent frame of the solid: monomials xi^i eta^j zeta^k,
    # i + j + k <= 3; for the re-weighted Chebyshev line rules only k <= 1 is exact
    fc = [_frame_coords(c, flip, q) for q in pv]
    kmax = 3 if kind == 'cheap' else 1
    for i in range(4):
        for j in range(4 - i):
            for k in range(0, min(kmax, 3 - i - j) + 1):
                got = math.fsum(wi * x**i * y**j * z**k for wi, (x, y, z) in zip(wv, fc))
                zint = 0.0 if k % 2 else (h / 2) ** k / (k + 1)  # (1/h) * integral of z^k over [-h/2, h/2]
                exact = float(_disk_moment_exact(i, j)) * r ** (i + j) * zint * vol
                mag = vol * r ** (i + j) * (h / 2) ** k
                # table accuracy + rounding of the point coordinates (a few ulp of the distance from the origin)
                tol = mag * (eps + 1e-14 * scale * ((i + j) / r + 2 * k / h))
                if not abs(got - exact) <= tol:
                    key = 'C18:quadrature-centroid' if i + j + k == 1 else 'C18:quadrature-exactness'
                    out.append((key, f'integral of xi^{i} eta^{j} zeta^{k} over the solid: rule gives {got}, exact {exact}'))
    return out


def ref_paths(c, starts, dirs):
    """path lengths by the textbook method in the solid's own frame (numpy, vectorised over rays):
    coordinates along an independently built orthonormal frame (e1, e2, axis), a 2-D circle
    intersection and a 1-D slab clip. Independent of the implementation's vector formula."""
    import numpy as np

    a = np.array(_unit(c['a']))
    e1, e2 = (np.array(v) for v in _frame(list(a)))
    P = np.asarray(starts, dtype=float) - np.array(c['base'])
    D = np.asarray(dirs, dtype=float)
    px, py, pz = P @ e1, P @ e2, P @ a
    dx, dy, dz = D @ e1, D @ e2, D @ a
    r, h = c['r'], c['h']
    A = dx * dx + dy * dy
    B = px * dx + py * dy
    C = px * px + py * py - r * r
    with np.errstate(divide='ignore', invalid='ignore'):
        disc = B * B - A * C
        sq = np.sqrt(np.where(disc >= 0, disc, 0.0))
        lo_c = np.where(A > 0, (-B - sq) / A, -np.inf)
        hi_c = np.where(A > 0, (-B + sq) / A, np.inf)
        ok_c = np.where(A > 0, disc >= 0, C <= 0)
        t0 = (0.0 - pz) / dz
        t1 = (h - pz) / dz
        lo_s = np.where(dz != 0, np.minimum(t0, t1), -np.inf)
        hi_s = np.where(dz != 0, np.maximum(t0, t1), np.inf)
        ok_s = np.where(dz != 0, True, (pz >= 0) & (pz <= h))
        lo = np.maximum(np.maximum(lo_c, lo_s), 0.0)
        hi = np.minimum(hi_c, hi_s)
        length = np.where(ok_c & ok_s & (hi > lo), hi - lo, 0.0) * np.sqrt(dx * dx + dy * dy + dz * dz)
    return length


def ref_transmission(t):
    """(values[wavelength][det], smallest non-zero sin(angle to the axis) of any direction used):
    the implementation's own quadrature points and weights, path lengths from `ref_paths`, the sum of
    w * exp(-mu L) over the volume"""
    import numpy as np

    c = t['cyl']
    cyl, p, w = impl_quadrature(t['kind'], c)
    pts = np.array(p.values, dtype=float)
    ws = np.array(w.values, dtype=float)
    vol = math.pi * c['r'] ** 2 * c['h']
    an = np.array(_unit(c['a']))
    nb = -np.array(t['beam'], dtype=float)
    l1 = ref_paths(c, pts, np.broadcast_to(nb, pts.shape))
    sins = [float(np.linalg.norm(np.cross(nb, an)) / np.linalg.norm(nb))]
    mus = impl_mu(t)
    out = [[0.0] * len(t['dets']) for _ in mus]
    for idet, d in enumerate(t['dets']):
        dirs = np.array(d, dtype=float) - pts
        dirs = dirs / np.linalg.norm(dirs, axis=1)[:, None]
        sins += [float(v) for v in np.linalg.norm(np.cross(dirs, an), axis=1)]
        l2 = ref_paths(c, pts, dirs)
        for il, mu in enumerate(mus):
            out[il][idet] = float(np.sum(ws * np.exp(-mu * (l1 + l2))) / vol)
    nz = [v for v in sins if v > 0]
    return out, (min(nz) if nz else 1.0)


def check_transmission(t):
    """[(key, what)] for one transmission configuration on the real code"""
    out = []
    vals = impl_transmission(t)
    mus = impl_mu(t)
    ref, min_sin = ref_transmission(t)
    for il, row in enumerate(vals):
        for idet, v in enumerate(row):
            if not abs(v - ref[il][idet]) <= REL * ref[il][idet]:
                key = NEAR_AXIS_KEY if min_sin < 1e-9 else 'C18:transmission-value'
                out.append((key, f'transmission {v!r} but the weighted sum of exp(-mu L) over the quadrature, with path '
                                 f'lengths computed in the frame of the solid, is {ref[il][idet]!r} (mu = {mus[il]}, detector {idet}'
                                 + (f'; a direction is parallel to the axis up to rounding, sin = {min_sin:.3g})' if key == NEAR_AXIS_KEY else ')')))
    tol = max(EPS_TAB[t['kind']] / math.pi, REL)
    for il, row in enumerate(vals):
        for idet, v in enumerate(row):
            if not (0 < v <= 1 + tol):
                out.append(('C18:transmission-range', f'transmission {v!r} not in (0, 1] (mu = {mus[il]}, detector {idet})'))
            if mus[il] == 0 and not abs(v - 1) <= tol:
                out.append(('C18:transmission-no-attenuation', f'transmission {v!r} without attenuation'))
    order = sorted(range(len(mus)), key=lambda i: mus[i])
    for i0, i1 in zip(order, order[1:]):
        for idet in range(len(t['dets'])):
            lo_mu, hi_mu = vals[i0][idet], vals[i1][idet]
            if mus[i1] > mus[i0] and not hi_mu <= lo_mu * (1 + 1e-12):
                out.append(('C18:transmission-monotone',
                            f'transmission grows from {lo_mu!r} to {hi_mu!r} when mu grows from {mus[i0]} to {mus[i1]}'))
    return out


def invariance_data(t, rot, shift, flip):
    """transmission of the configuration and of its rigidly moved / other-end copy, for 'medium' and 'expensive'"""
    c = t['cyl']

    def mv(x):
        return [y + s for y, s in zip(_matvec(rot, x), shift)]

    c2 = dict(c)
    c2['a'] = _unit(_matvec(rot, c['a']))
    c2['base'] = mv(c['base'])
    t2 = dict(t)
    t2['cyl'] = c2
    t2['beam'] = _matvec(rot, t['beam'])
    t2['dets'] = [mv(d) for d in t['dets']]
    res = {}
    for kind in ('medium', 'expensive'):
        res[kind] = impl_transmission(t, kind=kind)
        res[kind + ':moved'] = impl_transmission(t2, cyl_override=mk_cyl(c2, flip=flip), kind=kind)
    return res


def check_invariance(t, rot, shift, flip):
    res = invariance_data(t, rot, shift, flip)
    flat = lambda k: [v for row in res[k] for v in row]  # noqa: E731
    acc = max(abs(x - y) for a, b in (('medium', 'expensive'), ('medium:moved', 'expensive:moved'))
              for x, y in zip(flat(a), flat(b)))
    out = []
    for kind in ('medium', 'expensive'):
        diff = max(abs(x - y) for x, y in zip(flat(kind), flat(kind + ':moved')))
        tol = 4 * acc + 1e-6
        if not diff <= tol:
            key = 'C18:other-end-invariance' if flip else 'C18:rigid-motion-invariance'
            out.append((key, f"'{kind}' transmission changes by {diff:.3g} when the configuration is "
                             f"{'described from the other end and ' if flip else ''}moved rigidly; the quadrature is accurate to {acc:.3g}"))
    return out


def oracle_transmission(ctx, n, n_inv):
    for _ in range(n):
        t = gen_transmission_case(ctx.rng, axis_aligned='all')
        ctx.case(('oracle-trans', t['kind'], tuple(map(bits, t['cyl']['a'] + t['cyl']['base'] + t['lams']))), True)
        ctx.count('oracle-trans:' + t['kind'])
        for key, what in check_transmission(t):
            ctx.violation(key, what, t)
    for i in range(n_inv):
        aligned = i % 3 == 2
        t = gen_transmission_case(ctx.rng, kind='medium', axis_aligned='all' if aligned else 'none')
        rot = _rand_rotation(ctx.rng)
        size = max(t['cyl']['r'], t['cyl']['h'])
        shift = [ctx.rng.uniform(-5, 5) * size for _ in range(3)]
        flip = i % 2 == 1
        if flip and i % 4 == 1:
            rot, shift = [[1.0, 0.0, 0.0], [0.0, 1.0, 0.0], [0.0, 0.0, 1.0]], [0.0, 0.0, 0.0]
        ctx.case(('oracle-invariance', flip, tuple(map(bits, t['cyl']['a'] + t['cyl']['base'] + shift))), True)
        ctx.count('oracle-invariance:' + ('other-end' if flip else 'rigid') + (':axis-aligned' if aligned else ''))
        for key, what in check_invariance(t, rot, shift, flip):
            if aligned:  # beam or a detector direction parallel to the axis up to rounding
                key, what = NEAR_AXIS_KEY, what + ' (beam or detector direction parallel to the axis up to rounding)'
            ctx.violation(key, what, {'t': t, 'rot': rot, 'shift': shift, 'flip': flip})


def run_corpus(ctx):
    """minimised past failures (corpus/C18/*.json, same format as a replay file), evaluated first"""
    import contextlib
    import glob
    import io
    import json
    import os

    d = os.path.join(os.path.dirname(os.path.dirname(os.path.dirname(os.path.abspath(__file__)))), 'corpus', 'C18')
    for path in sorted(glob.glob(os.path.join(d, '*.json'))):
        with open(path) as f:
            payload = json.load(f)
        ctx.case(('corpus', os.path.basename(path)), True)
        ctx.count('corpus')
        with contextlib.redirect_stdout(io.StringIO()):
            still = replay(ctx, payload)
        if still:
            ctx.violation(payload['key'], payload.get('what', '') + f' [corpus/C18/{os.path.basename(path)}]', payload['witness'])


def oracle(ctx, deep):
    run_corpus(ctx)
    check_line_rules(ctx)
    oracle_beam(ctx, 400 if deep else ctx.n(250, 5000))
    oracle_quadrature(ctx, 300 if deep else ctx.n(150, 2000))
    oracle_transmission(ctx, 150 if deep else ctx.n(100, 1500), 40 if deep else ctx.n(30, 400))
    oracle_histories(ctx, 200 if deep else ctx.n(120, 1500), 40 if deep else ctx.n(30, 300))


# ---------------------------------------------------------------------------------------------
# replay

def replay(ctx, payload):
    w = payload.get('witness', {})
    key = payload.get('key', '')
    if key in ('C18:path-length', 'C18:path-length-range', NEAR_AXIS_KEY) and 'start' in w:
        c = {k: w[k] for k in ('a', 'base', 'r', 'h', 'unit')}
        li = impl_beam(c, [(w['start'], w['n'])])[0]
        maxlen = math.hypot(2 * c['r'], c['h'])
        if not (0 <= li <= maxlen * (1 + REL) + REL * beam_scale(c, w['start'])):
            return True
        if w.get('cat') in BOUNDARY_CATS:
            return False
        ex = exact_path(c['a'], c['base'], c['r'], c['h'], w['start'], w['n'])
        print('implementation', li, 'exact', ex)
        return not close_lengths(li, ex, beam_scale(c, w['start']))
    if key.startswith('C18:quadrature') or key == 'C18:volume':
        c = {k: w[k] for k in ('a', 'base', 'r', 'h', 'unit', 'axis_cat') if k in w}
        cyl, p, wt = impl_quadrature(w['kind'], c, w.get('r_unit'), w.get('flip', False))
        bad = check_quadrature(w['kind'], c, w.get('r_unit'), w.get('flip', False), cyl, p, wt)
        for k, what in bad:
            print(k, what)
        return any(k == key for k, _ in bad)
    if key.startswith('C18:transmission') or (key == NEAR_AXIS_KEY and 'kind' in w and 'cyl' in w):
        bad = check_transmission(w)
        for k, what in bad:
            print(k, what)
        return any(k == key for k, _ in bad)
    if key in ('C18:rigid-motion-invariance', 'C18:other-end-invariance', NEAR_AXIS_KEY):
        bad = check_invariance(w['t'], w['rot'], w['shift'], w['flip'])
        for k, what in bad:
            print(k, what)
        return bool(bad)
    if key == STALE_KEY:
        bad = check_history(w)
        for k, what in bad:
            print(k, what)
        return bool(bad)
    if key == STALE_ARGS_KEY:
        bad = check_args_history(w)
        for k, what in bad:
            print(k, what)
        return bool(bad)
    print('no specific replay for key', key)
    return False


LEVEL_TEXT = (
    'Lean 4 theorems over the reals about the executable model of cylinder.py/base.py (the same definitions run at '
    'Float in the driver): cyl_interval_iff / slab_interval_iff — the returned interval is exactly the set of ray '
    'parameters inside the infinite cylinder / the slab, parallel cases included; path_length_is_measure and '
    'path_length_is_lebesgue_measure — beam_intersection is the Lebesgue measure of {t >= 0 | start + t n in solid} for '
    'every unit axis, base, radius, height and ray; path_rigid_invariant (any scalar-product preserving motion) and '
    'other_end_same_solid / other_end_same_path; rotation_maps_z_to_axis — the coded atan2 rotation maps z to every unit '
    'axis that is rotated (both hemispheres), it is an isometry, so points_inside_solid_partial (all axes except '
    '0 < |z x a| < 1e-10, for which a counterexample to the full statement is proved); weights_positive, '
    'weights_sum_volume, product_rule_moment / frame_exactness / linear_exact (centroid and moments up to degree 3 exact up '
    'to the table accuracy); disk_tables_ok by decide +kernel on the tables regenerated from quadratures.py on every run '
    '(weights > 0, nodes in the unit disk, all moments up to degree 3 within 1e-14 (disk12) / 5e-7 (disk55, disk256_cheb) '
    'using pi_gt_d20/pi_lt_d20); transmission in (0, 1 + eps_tab/pi] (partial: disk256_cheb weights sum to more than pi, '
    'proved), equal to sum(w)/V at mu = 0, antitone in mu; old_variant_same — the formula before fix ef5a368 is the same '
    'function over the reals as the current code (all theorems are about the current code). The model is tied to the Python code on every run by a '
    'correspondence over path lengths, node counts, quadrature points/weights and transmission maps.'
)
LEVEL_NOTE = (
    'Trusted: Lean kernel, propext/Classical.choice/Quot.sound, the table translator, the hand transcription of '
    'cylinder.py/base.py (compared with the implementation on every run), libm/scipy rotation, numpy Gauss nodes '
    '(validated against closed forms on every run). Floating-point behaviour is validated (exact-arithmetic oracle), '
    'not proved (C18:near-axis-ray-rounding was found that way and is fixed). Invariance of the discrete transmission sum under rigid '
    'motions is validated at the quadrature accuracy, not proved (for path lengths it is proved).'
)
TECHNIQUE = 'Lean 4 proof over the reals of an executable model + translator-regenerated tables + model/implementation correspondence + exact-arithmetic oracle'
