"""C02 — convert() succeeds iff the target is derivable, matches the formulas, never uses the wrong
scattering mode, and the reported conversion graph is the one that is used.

Configuration space: 4 origins x every target (all graph outputs + 'tof') x scatter x all 2^11 subsets
of the geometry/energy coordinates x {DataArray, Dataset}. The data always carry the origin
coordinate and the auxiliary inputs (pulse_time, u_matrix, b_matrix, sample_rotation); every supplied
coordinate has an independent random value (deliberately *inconsistent* with the others, so that a
supplied coordinate that is recomputed, or a derived one that is taken from the wrong route, shows).
"""
from __future__ import annotations

import math
import os
import sys
import traceback

from ..translate import graphs as tr_graphs

PROP = 'C02'
LEAN_TARGETS = ['ScnVerif.Props.C02']
PROPS_FILE = 'ScnVerif/Props/C02.lean'
TRANSLATORS = [tr_graphs.translate]
RULE = (
    'configuration = (origin, target, scatter, subset of the 11 coordinates, container); thorough enumerates all '
    '4 x 22 x 2 x 2048 x 2 of them (exhaustive), quick takes per (origin,target,scatter) stratum a seeded sample of '
    'subsets (three densities + hand-picked minimal sets +- one coordinate). Values are random per configuration. '
    'A case is non-trivial when it reaches convert() on real data (all do); distinct = distinct configuration. '
    'Coordinate ALIGNMENT is a further dimension: each configuration (every one in thorough, 60 % in quick) is run a '
    'second time with supplied coordinates unaligned — coords.set_aligned(name, False) on a random non-empty subset of '
    'the supplied ones (all of them / exactly the inelastic energies / random) or the pixel dimension sliced away '
    "(data['spectrum', i], which leaves every per-pixel coordinate unaligned) — for DataArray and Dataset; the "
    'alignment dimension is sampled, the aligned space is what is exhaustive. '
    'SHAPE of the supplied coordinates is a further sampled dimension: the same configuration on a run x pixel grid with '
    'every one of the 11 coordinates 0-d / per pixel / per run (another dim label) / run x pixel / pixel x run (transposed), '
    '40 % of them "crossed" (incident side per run, scattered side per pixel or vice versa, single sample position); the '
    'formula oracle compares per element with numpy broadcasting over (run, pixel, x). '
    'In addition every (origin incl. an unsupported one, target, scatter, mode) is compared for conversion_graph '
    'and every public graph factory x argument for the factory models. An extra stream outside the quantifier '
    '(some of Qx/Qy/Qz supplied; unsupported origin dspacing) is compared with the literal graph_for model only. '
    'For every configuration the subgraph scipp builds (Graph.graph_for: which node is fetched, which computed by '
    'which kernel) is compared with the literal model, and the literal and the recursive model must coincide.'
)
ASSUMPTIONS = [
    'presence is independent of alignment: scipp.transform_coords takes a coordinate from `da.coords` whether or not it '
    'is aligned (`_is_in_coords`: `name in da.coords`), so the presence predicate P of the model (and of the oracle) is '
    '"in coords", aligned or not; validated by the alignment dimension of the correspondence',
    'scipp.transform_coords resolves a graph as transcribed from scipp/coords/graph.py (present coordinate -> fetch, '
    'else its rule, else KeyError) and calls each kernel with the values of its dependencies; validated by the '
    'exhaustive correspondence (bitwise equality of the target coordinate with the model derivation evaluated with '
    'the real kernel functions), not proved',
    'value clause over the reals: `convert_value` (Props/C02.lean, via Lemmas/ConvertValue.lean) proves that the '
    'derivation evaluates to the documented formula of the target when the supplied coordinates carry the ground truth of '
    'one neutron/beamline, using the kernel theorems of C01 (TofPhys.*_phys), C03 (two_theta_eq_angle) and C05 '
    '(direct_/indirect_conserves_energy); hypotheses: positive constants/scales/tof/energies, non-zero and non-parallel '
    'beams, detector not at the source, and for energy_transfer the inelastic flight-time relation; the hkl value is the '
    "kernel's own formula (R·UB)^-1 Q/2π (its meaning is C08.hkl_inverse). In floating point the oracle compares at "
    '1e-9 relative (energy_transfer 1e-6 of max(|value|,1), away from the t = t0 pole)',
    'the recursive model `resolve` (about which convert_ok_iff etc. are proved) resolves multi-output rules '
    '(Qx,Qy,Qz / h,k,l) per output name; scipp (and the literal model `graphFor`) recompute all outputs of such a rule '
    'even when some are supplied (fullLiteralPrecedence_false). `convertLiteral_eq_convert` proves both models '
    'equal whenever no output of a multi-output rule is supplied — true for every configuration of the property',
]
TRUSTED = [
    'translator harness/translate/graphs.py (walks the graph dicts, inspect.getfullargspec for kernel inputs); '
    'cross-checked on every run: model conversion_graph/factories vs the real functions (keys in dict order, kernel '
    'identity, argument names)',
    'modelled, not verified: core/conversions.py, conversion/graph/{tof,beamline}.py, scipp Graph.graph_for',
]

ELEVEN = ['position', 'source_position', 'sample_position', 'incident_beam', 'scattered_beam',
          'L1', 'L2', 'Ltotal', 'two_theta', 'incident_energy', 'final_energy']
ORIGINS = ['energy', 'tof', 'Q', 'wavelength']
AUX = ['pulse_time', 'u_matrix', 'b_matrix', 'sample_rotation']
MODES = ['elastic', 'direct_inelastic', 'indirect_inelastic']
NPIX, NX = 2, 3


# ---- tables shared by harness and workers ------------------------------------------------------

class Tables:
    def __init__(self, names, kernels):
        self.names = names
        self.kernels = kernels
        self.ncode = {n: i for i, n in enumerate(names)}
        self.kcode = {k: i for i, k in enumerate(kernels)}
        self._funcs = {}

    def func(self, kcode: int):
        if kcode not in self._funcs:
            import importlib

            mod, fn = self.kernels[kcode].split('.', 1)
            self._funcs[kcode] = getattr(importlib.import_module(f'scippneutron.conversion.{mod}'), fn)
        return self._funcs[kcode]


def _err(e: BaseException) -> str:
    if isinstance(e, RuntimeError) and type(e) is RuntimeError:
        return 'err:runtime'
    if isinstance(e, KeyError):
        return 'err:key'
    if isinstance(e, ValueError):
        return 'err:value'
    return 'err:other:' + type(e).__name__


# ---- data --------------------------------------------------------------------------------------

NRUN = 2
SHAPE_KINDS = ['0', 'p', 'r', 'rp', 'pr']   # 0-d | per pixel | per run (another dim label) | run x pixel | pixel x run (transposed)
DEFAULT_KIND = {'position': 'p', 'source_position': '0', 'sample_position': '0', 'incident_beam': '0', 'scattered_beam': 'p',
                'L1': '0', 'L2': 'p', 'Ltotal': 'p', 'two_theta': 'p', 'incident_energy': '0', 'final_energy': 'p'}


def kind_of(name, align):
    if align[0] == 'shape' and name in ELEVEN:
        return align[1][ELEVEN.index(name)]
    return DEFAULT_KIND.get(name)


def shape_values(vseed, align):
    """values when the SHAPES of the supplied coordinates vary: every coordinate is drawn on the full run x pixel grid and
    reduced to its shape kind"""
    import numpy as np

    v = make_values(vseed)
    rng = np.random.default_rng([*vseed, 4242])
    full = {
        'position': rng.normal(size=(NRUN, NPIX, 3)) * 3.0 + np.array([0.3, -0.2, 4.0]),
        'source_position': rng.normal(size=(NRUN, NPIX, 3)) * 2.0 + np.array([0.1, 0.4, -12.0]),
        'sample_position': rng.normal(size=(NRUN, NPIX, 3)) * 0.7 + np.array([0.5, -0.3, 0.8]),
        'incident_beam': rng.normal(size=(NRUN, NPIX, 3)) * 2.0 + np.array([0.2, 0.1, 9.0]),
        'scattered_beam': rng.normal(size=(NRUN, NPIX, 3)) * 2.5,
        'L1': rng.uniform(5.0, 15.0, size=(NRUN, NPIX)), 'L2': rng.uniform(1.0, 6.0, size=(NRUN, NPIX)),
        'Ltotal': rng.uniform(8.0, 30.0, size=(NRUN, NPIX)), 'two_theta': rng.uniform(0.05, 3.0, size=(NRUN, NPIX)),
        'incident_energy': rng.uniform(20.0, 100.0, size=(NRUN, NPIX)), 'final_energy': rng.uniform(15.0, 90.0, size=(NRUN, NPIX)),
    }
    for n, a in full.items():
        k = kind_of(n, align)
        v[n] = {'0': a[0, 0], 'p': a[0], 'r': a[:, 0], 'rp': a, 'pr': np.swapaxes(a, 0, 1).copy()}[k]
    v['data'] = rng.random((NRUN, NPIX, NX))
    return v


def make_values(vseed):
    """independent random values for every coordinate (natural units), as numpy arrays"""
    import numpy as np

    rng = np.random.default_rng(vseed)
    u = rng.uniform
    v = {
        'position': rng.normal(size=(NPIX, 3)) * 3.0 + np.array([0.3, -0.2, 4.0]),
        'source_position': rng.normal(size=3) * 2.0 + np.array([0.1, 0.4, -12.0]),
        'sample_position': rng.normal(size=3) * 0.7 + np.array([0.5, -0.3, 0.8]),
        'incident_beam': rng.normal(size=3) * 2.0 + np.array([0.2, 0.1, 9.0]),
        'scattered_beam': rng.normal(size=(NPIX, 3)) * 2.5,
        'L1': u(5.0, 15.0),
        'L2': u(1.0, 6.0, size=NPIX),
        'Ltotal': u(8.0, 30.0, size=NPIX),
        'two_theta': u(0.05, 3.0, size=NPIX),
        'incident_energy': u(20.0, 100.0),
        'final_energy': u(15.0, 90.0, size=NPIX),
        'tof': np.sort(u(4000.0, 20000.0, size=NX)),
        'wavelength': np.sort(u(0.5, 10.0, size=NX)),
        'energy': np.sort(u(1.0, 100.0, size=NX)),
        'Q': np.sort(u(0.5, 10.0, size=NX)),
        'pulse_time': u(0.0, 1000.0),
        'u_matrix': np.linalg.qr(rng.normal(size=(3, 3)))[0],
        'b_matrix': rng.normal(size=(3, 3)) + 2.0 * np.eye(3),
        'sample_rotation': np.linalg.qr(rng.normal(size=(3, 3)))[0],
        'data': rng.random((NPIX, NX)),
    }
    # drawn last so that the values above do not depend on them: coordinates outside the quantifier
    v['dspacing'] = np.sort(u(0.3, 5.0, size=NX))
    for n in ('Qx', 'Qy', 'Qz'):
        v[n] = rng.normal(size=(NPIX, NX)) * 3.0
    return v


UNITS = {
    'position': 'm', 'source_position': 'm', 'sample_position': 'm', 'incident_beam': 'm', 'scattered_beam': 'm',
    'L1': 'm', 'L2': 'm', 'Ltotal': 'm', 'two_theta': 'rad', 'incident_energy': 'meV', 'final_energy': 'meV',
    'tof': 'us', 'wavelength': 'angstrom', 'energy': 'meV', 'Q': '1/angstrom', 'pulse_time': 'us',
    'dspacing': 'angstrom', 'Qx': '1/angstrom', 'Qy': '1/angstrom', 'Qz': '1/angstrom',
}


KIND_DIMS = {'0': [], 'p': ['spectrum'], 'r': ['run'], 'rp': ['run', 'spectrum'], 'pr': ['spectrum', 'run']}


def make_var(name, val, origin=None, kind=None):
    import numpy as np
    import scipp as sc

    if kind is not None and name in ELEVEN:
        dims = KIND_DIMS[kind]
        if name in ('position', 'source_position', 'sample_position', 'incident_beam', 'scattered_beam'):
            return sc.vectors(dims=dims, values=val, unit='m') if dims else sc.vector(value=val, unit='m')
        return sc.array(dims=dims, values=val, unit=UNITS[name]) if dims else sc.scalar(float(val), unit=UNITS[name])
    if name in ('Qx', 'Qy', 'Qz'):
        return sc.array(dims=['spectrum', origin], values=val, unit=UNITS[name])
    if name in ('position', 'scattered_beam'):
        return sc.vectors(dims=['spectrum'], values=val, unit='m')
    if name in ('source_position', 'sample_position', 'incident_beam'):
        return sc.vector(value=val, unit='m')
    if name in ('u_matrix', 'sample_rotation'):
        return sc.spatial.linear_transform(value=val)
    if name == 'b_matrix':
        return sc.spatial.linear_transform(value=val, unit='1/angstrom')
    if name in ('tof', 'wavelength', 'energy', 'Q', 'dspacing'):
        # a dynamic coordinate other than the origin (left over from an earlier conversion) lives on the origin's dim
        return sc.array(dims=[origin if origin is not None and origin in UNITS else name], values=val, unit=UNITS[name])
    if np.ndim(val) == 0:
        return sc.scalar(float(val), unit=UNITS[name])
    return sc.array(dims=['spectrum'], values=val, unit=UNITS[name])


def make_data(origin, present, vals, container, align=('all',)):
    import scipp as sc

    shaped_cfg = align[0] == 'shape'
    da = sc.DataArray(sc.array(dims=(['run'] if shaped_cfg else []) + ['spectrum', origin], values=vals['data'], unit='counts'))
    for n in [origin, *AUX, *present]:
        da.coords[n] = make_var(n, vals[n], origin, kind_of(n, align) if shaped_cfg else None)
    data = sc.Dataset({'a': da, 'b': da * sc.scalar(2.0)}) if container == 'Dataset' else da
    if align[0] == 'set':      # explicitly unaligned coordinates
        for i, n in enumerate(ELEVEN):
            if align[1] >> i & 1 and n in data.coords:
                data.coords.set_aligned(n, False)
    elif align[0] == 'slice':  # slicing the pixel dimension away leaves every per-pixel coordinate unaligned
        data = data['spectrum', align[1]]
    return data


PER_PIXEL = ('position', 'scattered_beam', 'L2', 'Ltotal', 'two_theta', 'final_energy', 'Qx', 'Qy', 'Qz', 'data')


def sliced_values(vals, align):
    """the values the oracle sees: for a sliced object only the selected pixel"""
    if align[0] != 'slice':
        return vals
    i = align[1]
    return {n: (v[i:i + 1] if n in PER_PIXEL else v) for n, v in vals.items()}


def canon(var):
    """canonical, bit-exact form of a variable: (dtype, unit, shape, bytes)"""
    import numpy as np

    return (str(var.dtype), str(var.unit), tuple(var.shape), np.ascontiguousarray(var.values).tobytes().hex())


def result_coord(res, target, container):
    if container == 'Dataset':
        a, b = res['a'].coords[target], res['b'].coords[target]
        ca, cb = canon(a), canon(b)
        if ca != cb:
            return ('items-differ', ca, cb), a
        return ca, a
    c = res.coords[target]
    return canon(c), c


# ---- evaluating a model derivation with the real kernels --------------------------------------

def parse_term(s: str):
    """'f11' | '(k.o t1 t2 …)' -> ('f', n) | ('a', k, o, [terms])"""
    pos = 0

    def term():
        nonlocal pos
        if s[pos] == 'f':
            j = pos + 1
            while j < len(s) and s[j].isdigit():
                j += 1
            n = int(s[pos + 1:j])
            pos = j
            return ('f', n)
        assert s[pos] == '('
        j = s.index('.', pos)
        k = int(s[pos + 1:j])
        pos = j + 1
        j = pos
        while s[j].isdigit():
            j += 1
        o = int(s[pos:j])
        pos = j
        args = []
        while s[pos] == ' ':
            pos += 1
            args.append(term())
        assert s[pos] == ')'
        pos += 1
        return ('a', k, o, args)

    t = term()
    assert pos == len(s), s
    return t


def eval_term(T: Tables, t, coords, memo):
    key = repr(t)
    if key in memo:
        return memo[key]
    if t[0] == 'f':
        r = coords[T.names[t[1]]]
    else:
        _, k, o, args = t
        if k == 0:
            r = eval_term(T, args[0], coords, memo)
        else:
            f = T.func(k)
            an = tr_graphs.arg_names(f)
            out = f(**{a: eval_term(T, x, coords, memo) for a, x in zip(an, args, strict=True)})
            r = out[T.names[o]] if isinstance(out, dict) else out
    memo[key] = r
    return r


def term_kernels(t, acc):
    if t[0] == 'a':
        acc.add(t[1])
        for x in t[3]:
            term_kernels(x, acc)
    return acc


# ---- the documented formulas (oracle; independent of the model and of the graph tables) ---------

def _consts():
    import scipp as sc
    import scipp.constants as const

    h = float(const.h.value)
    m = float(const.m_n.value)
    mev = float(sc.to_unit(sc.scalar(1.0, unit='meV'), 'J').value)
    return h, m, mev


def documented(origin, scatter, mode):
    """{output: (inputs, function on numpy arrays in natural units)}.
    Shapes: per-pixel scalars (NPIX,1) or (), x-axis (1,NX); vectors carry a trailing axis of 3."""
    import numpy as np

    h, m, mev = _consts()
    norm = lambda a: np.sqrt(np.sum(a * a, axis=-1))  # noqa: E731

    def angle(b1, b2):
        b1, b2 = np.broadcast_arrays(b1, b2)
        return np.arctan2(norm(np.cross(b1, b2)), np.sum(b1 * b2, axis=-1))

    lam_tof = lambda t, L: h * (t * 1e-6) / (m * L) * 1e10  # noqa: E731
    e_tof = lambda t, L: m * L**2 / (2 * (t * 1e-6) ** 2) / mev  # noqa: E731
    e_lam = lambda lam: h**2 / (2 * m * (lam * 1e-10) ** 2) / mev  # noqa: E731
    lam_e = lambda e: h / np.sqrt(2 * m * e * mev) * 1e10  # noqa: E731

    def qvec(lam, b1, b2):
        e1 = b1 / norm(b1)[..., None]
        e2 = b2 / norm(b2)[..., None]
        return 2 * np.pi / lam[..., None] * (e1 - e2)

    def hkl(q, ub, r):
        return np.einsum('ij,...j->...i', np.linalg.inv(r @ ub), q) / (2 * np.pi)

    def direct(t, l1, l2, ei):
        t0 = np.sqrt(m * l1**2 / (2 * ei * mev))
        dt = t * 1e-6 - t0
        with np.errstate(all='ignore'):
            r = ei - m * l2**2 / (2 * dt**2) / mev
        return np.where(dt <= 0, np.nan, r)

    def indirect(t, l1, l2, ef):
        t0 = np.sqrt(m * l2**2 / (2 * ef * mev))
        dt = t * 1e-6 - t0
        with np.errstate(all='ignore'):
            r = m * l1**2 / (2 * dt**2) / mev - ef
        return np.where(dt <= 0, np.nan, r)

    if not scatter:
        return {
            'Ltotal': (('source_position', 'position'), lambda s, p: norm(p - s)),
            'wavelength': (('tof', 'Ltotal'), lam_tof),
            'energy': (('tof', 'Ltotal'), e_tof),
        }
    f = {
        'incident_beam': (('source_position', 'sample_position'), lambda s, a: a - s),
        'scattered_beam': (('position', 'sample_position'), lambda p, a: p - a),
        'L1': (('incident_beam',), norm),
        'L2': (('scattered_beam',), norm),
        'Ltotal': (('L1', 'L2'), lambda a, b: a + b),
        'two_theta': (('incident_beam', 'scattered_beam'), angle),
    }
    if mode == 'direct':
        f['energy_transfer'] = (('tof', 'L1', 'L2', 'incident_energy'), direct)
        return f
    if mode == 'indirect':
        f['energy_transfer'] = (('tof', 'L1', 'L2', 'final_energy'), indirect)
        return f
    qd = {
        'Q': (('wavelength', 'two_theta'), lambda lam, tt: 4 * np.pi * np.sin(tt / 2) / lam),
        'Qx': (('wavelength', 'incident_beam', 'scattered_beam'), lambda *a: qvec(*a)[..., 0]),
        'Qy': (('wavelength', 'incident_beam', 'scattered_beam'), lambda *a: qvec(*a)[..., 1]),
        'Qz': (('wavelength', 'incident_beam', 'scattered_beam'), lambda *a: qvec(*a)[..., 2]),
        'Q_vec': (('Qx', 'Qy', 'Qz'), lambda x, y, z: np.stack(np.broadcast_arrays(x, y, z), axis=-1)),
        'ub_matrix': (('u_matrix', 'b_matrix'), lambda u, b: u @ b),
        'hkl_vec': (('Q_vec', 'ub_matrix', 'sample_rotation'), hkl),
        'h': (('hkl_vec',), lambda v: v[..., 0]),
        'k': (('hkl_vec',), lambda v: v[..., 1]),
        'l': (('hkl_vec',), lambda v: v[..., 2]),
    }
    if origin == 'tof':
        f.update(qd)
        f.update({
            'wavelength': (('tof', 'Ltotal'), lam_tof),
            'energy': (('tof', 'Ltotal'), e_tof),
            'dspacing': (('tof', 'Ltotal', 'two_theta'), lambda t, L, tt: lam_tof(t, L) / (2 * np.sin(tt / 2))),
            'time_at_sample': (('pulse_time', 'tof', 'L2', 'wavelength'),
                               lambda p, t, l2, lam: p + t - l2 * (lam * 1e-10) * m / h * 1e6),
        })
    elif origin == 'wavelength':
        f.update(qd)
        f.update({
            'energy': (('wavelength',), e_lam),
            'dspacing': (('wavelength', 'two_theta'), lambda lam, tt: lam / (2 * np.sin(tt / 2))),
        })
    elif origin == 'energy':
        f.update({
            'wavelength': (('energy',), lam_e),
            'dspacing': (('energy', 'two_theta'), lambda e, tt: lam_e(e) / (2 * np.sin(tt / 2))),
        })
    elif origin == 'Q':
        f['wavelength'] = (('Q', 'two_theta'), lambda q, tt: 4 * np.pi * np.sin(tt / 2) / q)
    return f


def shaped(name, val, kind=None):
    """numpy value with broadcast-ready shape: axes (run, pixel, x) and the vector axis last"""
    import numpy as np

    val = np.asarray(val, dtype=float)
    if name in ('u_matrix', 'b_matrix', 'sample_rotation'):
        return val
    if name in ('tof', 'wavelength', 'energy', 'Q', 'dspacing'):
        return val.reshape(1, 1, NX)
    if name in ('Qx', 'Qy', 'Qz'):
        return val.reshape(1, -1, NX)
    vec = name in ('position', 'source_position', 'sample_position', 'incident_beam', 'scattered_beam')
    tail = (3,) if vec else ()
    if kind is None:
        kind = '0' if val.ndim == (1 if vec else 0) else 'p'
    if kind == '0':
        return val.reshape(1, 1, 1, *tail)
    if kind == 'p':
        return val.reshape(1, -1, 1, *tail)
    if kind == 'r':
        return val.reshape(-1, 1, 1, *tail)
    if kind == 'pr':
        val = np.swapaxes(val, 0, 1)
    return val.reshape(val.shape[0], val.shape[1], 1, *tail)


def oracle_expect(origin, target, scatter, present, vals, align=('all',)):
    """what the property demands: 'err:runtime' or ('ok', expected numpy value)"""
    inel = [n for n in ('incident_energy', 'final_energy') if n in present]
    if target == 'energy_transfer':
        if len(inel) != 1:
            return 'err:runtime', 'ambiguous-mode', None
        mode = 'direct' if inel[0] == 'incident_energy' else 'indirect'
    else:
        if 'energy' in (origin, target) and inel:
            return 'err:runtime', 'ambiguous-mode', None
        mode = 'elastic'
    f = documented(origin, scatter, mode)
    have = set(present) | {origin, *AUX}
    known = set(have)
    changed = True
    while changed:  # naive fixpoint
        changed = False
        for out, (ins, _) in f.items():
            if out not in known and all(i in known for i in ins):
                known.add(out)
                changed = True
    if target not in known:
        return 'err:runtime', 'not-derivable', mode
    memo = {}

    def val(n):
        if n not in memo:
            if n in have:
                memo[n] = shaped(n, vals[n], kind_of(n, align) if align[0] == 'shape' else None)
            else:
                ins, fn = f[n]
                memo[n] = fn(*[val(i) for i in ins])
        return memo[n]

    return ('ok', val(target)), mode, mode


def compare_value(target, coord, expected):
    """real coordinate vs expected numpy value (rtol 1e-9; NaN pattern must agree). None if fine."""
    import numpy as np

    got = np.asarray(coord.values, dtype=float)
    dims = list(coord.dims)
    is_vec = str(coord.dtype) == 'vector3'
    is_mat = str(coord.dtype) == 'linear_transform3'
    exp = np.asarray(expected, dtype=float)
    if is_mat:
        if got.shape != exp.shape:
            return f'shape {got.shape} vs {exp.shape}'
    else:
        # bring got to (run, pixel, x[, 3]): order the labelled axes, insert the missing ones
        other = [d for d in dims if d not in ('run', 'spectrum')]
        if len(other) > 1:
            return f'unexpected dims {dims}'
        order = [d for d in ['run', 'spectrum', *other] if d in dims]
        got = np.transpose(got, [dims.index(d) for d in order] + list(range(len(dims), got.ndim)))
        if 'run' not in dims:
            got = got[None, ...]
        if 'spectrum' not in dims:
            got = got[:, None, ...]
        if not other:
            got = got[:, :, None, ...]
        want_nd = 4 if is_vec else 3
        if got.ndim != want_nd or exp.ndim != want_nd:
            return f'rank {got.shape} vs {exp.shape}'
        try:
            full = np.broadcast_shapes(got.shape, exp.shape)
        except ValueError:
            return f'shape {got.shape} vs {exp.shape}'
        got = np.broadcast_to(got, full)
        exp = np.broadcast_to(exp, full)
    nan_g, nan_e = np.isnan(got), np.isnan(exp)
    rtol = 1e-9
    if target == 'energy_transfer':
        # cancellation Ei - x and the pole at t = t0: tolerance relative to the larger term; points
        # within 1e-3 of the pole are not compared
        scale = np.maximum(np.abs(exp), 1.0)
        ok = np.abs(got - exp) <= 1e-6 * scale
        fine = (nan_g == nan_e) & (nan_e | ok)
        big = ~nan_e & (np.abs(exp) > 1e6)
        fine = fine | big
        return None if fine.all() else f'max abs diff {np.nanmax(np.abs(got - exp)):.3e}'
    if (nan_g != nan_e).any():
        return 'NaN pattern differs'
    scale = np.maximum(np.abs(exp), np.max(np.abs(exp)) * 1e-6 if is_vec else 0.0)
    bad = np.abs(got - exp) > rtol * scale + 1e-300
    if is_vec:
        # components of a vector: relative to the vector's norm
        nrm = np.sqrt(np.sum(exp * exp, axis=-1, keepdims=True))
        bad = np.abs(got - exp) > rtol * np.maximum(nrm, 1e-300)
    if is_mat:
        bad = np.abs(got - exp) > rtol * np.max(np.abs(exp))
    if bad.any():
        return f'max rel diff {np.max(np.abs(got - exp) / np.maximum(np.abs(exp), 1e-300)):.3e}'
    return None


# ---- one configuration --------------------------------------------------------------------------

def run_config(T: Tables, cfg, model_line, seed):
    """cfg = (index, origin, target, scatter, mask, container, extras, kind); kind 'q' = inside the
    quantifier of the property, 'x' = extra stream (further coordinates present / unsupported origin).
    returns dict(impl=…, model=…, agree=bool, notes=[…], viol=[(key, what)])"""
    import scippneutron as scn

    idx, origin, target, scatter, mask, container, extras, kind, align = cfg
    present = [n for i, n in enumerate(ELEVEN) if mask >> i & 1]
    vals = shape_values([seed, idx], align) if align[0] == 'shape' else make_values([seed, idx])
    data = make_data(origin, [*present, *extras], vals, container, align)
    vals = sliced_values(vals, align)
    out = {'viol': [], 'hist': []}
    # --- real code
    try:
        g_real = scn.deduce_conversion_graph(data, origin, target, scatter)
        d_impl = ('ok', sorted(k if isinstance(k, tuple) else (k,) for k in g_real))
    except Exception as e:  # noqa: BLE001
        g_real = None
        d_impl = _err(e)
    coord = None
    try:
        res = scn.convert(data, origin, target, scatter)
        c_can, coord = result_coord(res, target, container)
        c_impl = ('ok', c_can)
    except Exception as e:  # noqa: BLE001
        res = None
        c_impl = _err(e)
    # --- model
    d_m, c_rec, _miss, c_m, subs = model_line.split('|')
    if d_m.startswith('ok '):
        keys = [] if d_m[3:] == '-' else [tuple(T.names[int(x)] for x in k.split(',')) for k in d_m[3:].split(';')]
        d_model = ('ok', sorted(keys))
    else:
        d_model = d_m
    kernels_used = set()
    if c_m.startswith('ok '):
        term = parse_term(c_m[3:])
        term_kernels(term, kernels_used)
        item = data['a'] if container == 'Dataset' else data
        try:
            v = eval_term(T, term, item.coords, {})
            c_model = ('ok', canon(v))
        except Exception as e:  # noqa: BLE001
            c_model = _err(e)
    else:
        c_model = c_m
    out['impl'] = (d_impl if isinstance(d_impl, str) else 'ok', c_impl if isinstance(c_impl, str) else 'ok')
    out['agree'] = d_impl == d_model and c_impl == c_model
    detail_model = [d_model, c_model if isinstance(c_model, str) else ['ok', *c_model[1][:3], c_model[1][3][:64]], c_m[:200]]
    # the recursive model (about which the theorems are) and the literal graph_for model must coincide inside the quantifier
    if c_rec != c_m:
        if kind == 'q':
            out['agree'] = False
            detail_model.append('recursive resolve differs from the literal graph_for model: ' + c_rec[:200])
        else:
            out['hist'].append('extra:multi-output-rule-recomputes-a-supplied-output')
    # the subgraph scipp builds: which nodes are fetched, which computed by which kernel
    sub_impl = real_subgraph(T, g_real, data['a'] if container == 'Dataset' else data, target)
    if sub_impl is not None:
        sub_model = 'err' if subs == '-' else {int(a): (b if b == 'F' else int(b)) for a, b in (e.split(':') for e in subs.split(','))}
        if sub_impl != sub_model:
            out['agree'] = False
            detail_model.append(f'subgraph impl={sub_impl} model={sub_model}')
    if not out['agree']:
        out['detail'] = {
            'impl': [d_impl, c_impl if isinstance(c_impl, str) else ['ok', *c_impl[1][:3], c_impl[1][3][:64]]],
            'model': detail_model,
        }
    if kind not in ('q', 'y'):
        out['hist'].append(f'extra:{container}:{"ok" if not isinstance(c_impl, str) else c_impl}')
        out['kernels'] = sorted(kernels_used)
        return out
    # --- oracle: the property statement on the real outcome
    if kind == 'y':
        # left-over dynamic coordinates (wavelength / energy / Q / dspacing / tof other than origin and target) are
        # 'coordinates that were present': the documented formulas use them where the documented derivation of the
        # target passes through them (supplied takes precedence) and ignore them otherwise
        out['hist'].append('leftover-dynamic:' + '+'.join(extras))
        present = [*present, *extras]
    exp, why, mode = oracle_expect(origin, target, scatter, present, vals, align)
    out['hist'].append(f'{container}:{"ok" if not isinstance(c_impl, str) else c_impl}:{why}')
    if align[0] == 'shape':
        out['hist'].append(f'shapes:{"ok" if not isinstance(c_impl, str) else c_impl}:{why}')
    elif align[0] != 'all':
        out['hist'].append(f'alignment:{align[0]}:{"ok" if not isinstance(c_impl, str) else c_impl}:{why}')
    if isinstance(exp, str):
        if c_impl != 'err:runtime':
            out['viol'].append((f'C02:{why}-not-rejected',
                                f'convert answered {c_impl if isinstance(c_impl, str) else "ok"} although the property '
                                f'demands RuntimeError ({why})'))
    else:
        if isinstance(c_impl, str):
            out['viol'].append(('C02:derivable-rejected' if c_impl == 'err:runtime' else 'C02:wrong-exception',
                                f'target is derivable from the supplied coordinates but convert raised {c_impl}'))
        elif c_impl[1][0] == 'items-differ':
            out['viol'].append(('C02:dataset-items-differ', 'items of a Dataset got different target coordinates'))
        else:
            diff = compare_value(target, coord, exp[1])
            if diff is not None:
                out['viol'].append(('C02:value-differs-from-formulas',
                                    f'target coordinate differs from the documented formulas applied to the supplied '
                                    f'coordinates ({why} mode): {diff}'))
    # reported graph == used graph: transform_coords with the reported graph reproduces convert()
    if g_real is not None:
        import scipp as sc

        try:
            alt = data.transform_coords(target, graph=g_real)
            alt_out = 'ok'
        except KeyError:
            alt, alt_out = None, 'err:runtime'
        except Exception as e:  # noqa: BLE001
            alt, alt_out = None, _err(e)
        real_out = 'ok' if res is not None else c_impl
        if alt_out != real_out or (alt is not None and not sc.identical(alt, res, equal_nan=True)):
            out['viol'].append(('C02:reported-graph-not-used',
                                'transform_coords with the graph reported by deduce_conversion_graph does not reproduce '
                                'the result of convert'))
        # and conversion_graph() with the mode the documentation prescribes is that same graph
        if mode is not None:
            mname = {'elastic': 'elastic', 'direct': 'direct_inelastic', 'indirect': 'indirect_inelastic'}[mode]
            try:
                g2 = scn.conversion_graph(origin, target, scatter, mname)
            except Exception as e:  # noqa: BLE001
                g2 = _err(e)
            if isinstance(g2, str) or dict(g2) != dict(g_real):
                out['viol'].append(('C02:deduced-graph-differs',
                                    f'deduce_conversion_graph differs from conversion_graph(…, {mname!r})'))
    elif mode is not None:
        out['viol'].append(('C02:deduce-raised', f'deduce_conversion_graph raised {d_impl} although the mode is unambiguous'))
    out['kernels'] = sorted(kernels_used)
    return out


def init_worker(counter, ncpu):
    """pin the worker to one CPU *before* scipp (TBB) is imported, so that it runs single-threaded:
    16 workers must not start 16 x 16 threads on a shared machine"""
    with counter.get_lock():
        k = counter.value
        counter.value += 1
    try:
        cpus = sorted(os.sched_getaffinity(0))
        os.sched_setaffinity(0, {cpus[k % len(cpus)]})
    except (AttributeError, OSError):
        pass
    os.environ['OMP_NUM_THREADS'] = '1'


def real_subgraph(T, g_real, item, target):
    """{name code: 'F' | kernel code} of scipp's Graph.graph_for (an internal API: None if unavailable), 'err' on KeyError"""
    if g_real is None:
        return None
    try:
        from scipp.coords.graph import Graph
        from scipp.coords.rule import ComputeRule, FetchRule
    except ImportError:
        return None
    try:
        sub = Graph(g_real).graph_for(item, {target})
    except KeyError:
        return 'err'
    except Exception:  # noqa: BLE001
        return None
    out = {}
    for name, rule in sub.items():
        if name not in T.ncode:
            return None
        if isinstance(rule, FetchRule):
            out[T.ncode[name]] = 'F'
        elif isinstance(rule, ComputeRule):
            out[T.ncode[name]] = T.kcode.get(tr_graphs.kernel_name(rule._func), -1)
        else:
            out[T.ncode[name]] = 0
    return out


def run_chunk(args):
    """worker entry: evaluates a list of configurations; returns compact results"""
    repo, seed, names, kernels, cfgs, lines = args
    src = os.path.join(repo, 'src')
    if src not in sys.path:
        sys.path.insert(0, src)
    import scippneutron

    if not os.path.abspath(scippneutron.__file__).startswith(os.path.abspath(src)):
        raise RuntimeError(f'worker imported scippneutron from {scippneutron.__file__}')
    import scipp as sc

    sc.get_logger().setLevel('ERROR')
    T = Tables(names, kernels)
    res = []
    for cfg, line in zip(cfgs, lines, strict=True):
        try:
            r = run_config(T, cfg, line, seed)
        except Exception:  # noqa: BLE001
            r = {'crash': traceback.format_exc(), 'viol': [], 'hist': [], 'agree': False, 'impl': ('crash', 'crash')}
        res.append(r)
    return res


# ---- configuration streams ------------------------------------------------------------------------

def targets_of(T: Tables, data) -> list[str]:
    outs = set()
    for g in list(data['tables']['dynamics'].values()) + [data['tables']['scatterBeamline'], data['tables']['noScatterBeamline']]:
        for o, _, _ in g:
            outs.update(o)
    for *_, g in data['factories']:
        for o, _, _ in g:
            outs.update(o)
    outs.add('tof')
    return [n for n in T.names if n in outs]


HAND_MASKS = [
    ['position', 'source_position', 'sample_position'],
    ['incident_beam', 'scattered_beam'],
    ['L1', 'L2', 'two_theta'],
    ['Ltotal', 'two_theta'],
    ['Ltotal'],
    ['position', 'source_position'],
    ['L1', 'L2'],
    [],
    list(ELEVEN),
    ['L1', 'L2', 'incident_energy'],
    ['L1', 'L2', 'final_energy'],
    ['position', 'source_position', 'sample_position', 'incident_energy'],
    ['incident_beam', 'scattered_beam', 'final_energy'],
    ['L1', 'L2', 'incident_energy', 'final_energy'],
]


def mask_of(names) -> int:
    return sum(1 << ELEVEN.index(n) for n in names)


def quick_masks(rng, k):
    ms = []
    base = rng.sample(HAND_MASKS, 4)
    for b in base:
        m = mask_of(b)
        ms.append(m)
        ms.append(m ^ (1 << rng.randrange(11)))                   # +- one coordinate
        ms.append(m | (1 << rng.choice([9, 10])))                  # with an inelastic energy
    while len(ms) < k:
        p = rng.choice([0.25, 0.5, 0.8])
        ms.append(sum(1 << i for i in range(11) if rng.random() < p))
    return ms[:k]


def origins_of(ctx, data):
    """the supported origins are the keys of _GRAPH_DYNAMICS_BY_ORIGIN (as in the Lean theorems)"""
    keys = list(data['tables']['dynamics'])
    known = [o for o in keys if o in UNITS]
    if set(keys) != set(ORIGINS):
        ctx.note(f'origins in the source {keys} differ from the four of the property; enumerated: {known}')
    return known


def configs(ctx, T, targets, origins=ORIGINS):
    idx = 0
    out = []
    for o in origins:
        for t in targets:
            for s in (True, False):
                if ctx.quick:
                    masks = quick_masks(ctx.rng, 17)
                else:
                    masks = range(2048)
                for m in masks:
                    for c in ('DataArray', 'Dataset'):
                        if ctx.quick and c == 'Dataset' and ctx.rng.random() < 0.5:
                            continue
                        out.append((idx, o, t, s, m, c, (), 'q', ('all',)))
                        idx += 1
                        # the same configuration with some supplied coordinates UNALIGNED (set_aligned(False) on a
                        # random non-empty subset of the supplied ones, or the pixel dimension sliced away)
                        if m and (not ctx.quick or ctx.rng.random() < 0.6):
                            out.append((idx, o, t, s, m, c, (), 'q', random_alignment(ctx.rng, m)))
                            idx += 1
                        # … and with the SHAPES of the supplied coordinates varied (0-d / per pixel / per run with
                        # another dim label / run x pixel / transposed), data on a run x pixel grid
                        if m and (not ctx.quick or ctx.rng.random() < 0.6):
                            out.append((idx, o, t, s, m, c, (), 'q', random_shapes(ctx.rng)))
                            idx += 1
    return out


def random_shapes(rng):
    kinds = [rng.choice(SHAPE_KINDS) for _ in ELEVEN]
    r = rng.random()
    if r < 0.4:
        # "crossed" beams: the incident side varies per run, the scattered side per pixel (or the other way round) with a
        # single sample position: same number of dims, different dim labels
        a, b = ('r', 'p') if r < 0.25 else ('p', 'r')
        for n, k in (('source_position', a), ('incident_beam', a), ('L1', a), ('incident_energy', a), ('sample_position', '0'),
                     ('position', b), ('scattered_beam', b), ('L2', b), ('final_energy', b)):
            kinds[ELEVEN.index(n)] = k
    return ('shape', tuple(kinds))


def random_alignment(rng, m):
    if rng.random() < 0.35:
        return ('slice', rng.randrange(NPIX))
    um = 0
    while um == 0:
        r = rng.random()
        if r < 0.3:
            um = m                                   # every supplied coordinate unaligned
        elif r < 0.6 and m & 0b11000000000:
            um = m & 0b11000000000                   # exactly the inelastic energies
        else:
            um = m & rng.getrandbits(11)
    return ('set', um)


def extra_configs(ctx, T, targets, n):
    """outside the quantifier: some of Qx/Qy/Qz supplied (outputs of a multi-output rule), and an unsupported origin"""
    rng = ctx.rng
    out = []
    idx = 50_000_000
    qtargets = [t for t in ('Q_vec', 'Qx', 'Qy', 'Qz', 'hkl_vec', 'h') if t in targets]
    for _ in range(n):
        m = sum(1 << i for i in range(11) if rng.random() < rng.choice([0.4, 0.8]))
        if rng.random() < 0.7 and qtargets:
            ex = tuple(q for q in ('Qx', 'Qy', 'Qz') if rng.random() < 0.5)
            out.append((idx, rng.choice(['tof', 'wavelength']), rng.choice(qtargets), True, m,
                        rng.choice(['DataArray', 'Dataset']), ex, 'x', ('all',)))
        else:
            out.append((idx, 'dspacing', rng.choice(targets), rng.random() < 0.7, m, rng.choice(['DataArray', 'Dataset']), (), 'x', ('all',)))
        idx += 1
    return out


DYNAMIC = ('tof', 'wavelength', 'energy', 'Q', 'dspacing')


def leftover_configs(ctx, T, targets, n):
    """inside the statement ('from the coordinates that were present'), outside the 2^11 grid: one or two dynamic
    coordinates other than origin and target are also on the data, with values INCONSISTENT with the origin (the
    usual history tof -> wavelength -> energy keeps the consumed coordinates; the origin is then recalibrated)"""
    rng = ctx.rng
    out = []
    idx = 70_000_000
    for _ in range(n):
        o = rng.choice(ORIGINS)
        t = rng.choice([x for x in targets if x != o])
        pool = [d for d in DYNAMIC if d not in (o, t) and d in T.ncode]
        ex = tuple(rng.sample(pool, rng.choice([1, 1, 2])))
        base = rng.choice(HAND_MASKS)
        m = mask_of(base)
        if rng.random() < 0.5:
            m ^= 1 << rng.randrange(9)
        out.append((idx, o, t, True if rng.random() < 0.8 else False, m, rng.choice(['DataArray', 'Dataset']), ex, 'y', ('all',)))
        idx += 1
    return out


def model_lines(ctx, T, cfgs):
    extras = ','.join(str(T.ncode[a]) for a in AUX)
    lines = [
        f'c02.convert {T.ncode[o]} {T.ncode[t]} {1 if s else 0} {m} '
        + ','.join([str(T.ncode[o]), extras, *[str(T.ncode[x]) for x in ex]])
        for (_, o, t, s, m, _, ex, _, _) in cfgs
    ]
    out = []
    step = 200000
    for i in range(0, len(lines), step):
        out += ctx.driver(lines[i:i + step])
    return out


# ---- cross-check of the tables and of the graph-assembly model -------------------------------------

def _real_rules(T, g):
    # a dict: the order of the items is not observable through transform_coords -> compared as a sorted list
    return sorted((tuple(T.ncode[x] for x in o), T.kcode[k], tuple(T.ncode[x] for x in i)) for o, k, i in tr_graphs.graph_rules(g))


def _model_rules(s):
    if s == '-':
        return []
    out = []
    for r in s.split(';'):
        o, rest = r.split('=')
        k, i = rest.split(':')
        out.append((tuple(int(x) for x in o.split(',')), int(k), tuple(int(x) for x in i.split(',')) if i else ()))
    return sorted(out)


def check_tables(ctx, T, data, targets):
    import scippneutron as scn
    from scippneutron.conversion.graph import beamline as gb
    from scippneutron.conversion.graph import tof as gt

    # conversion_graph for every (origin incl. unsupported, target incl. unknown, scatter, mode)
    queries = []
    for o in [*ORIGINS, 'dspacing']:
        for t in [*targets, 'pulse_time']:
            for s in (True, False):
                for mi, m in enumerate(MODES):
                    queries.append((o, t, s, mi, m))
    outs = ctx.driver([f'c02.graph {T.ncode[o]} {T.ncode[t]} {1 if s else 0} {mi}' for o, t, s, mi, m in queries])
    for (o, t, s, mi, m), line in zip(queries, outs):
        try:
            impl = ('ok', _real_rules(T, scn.conversion_graph(o, t, s, m)))
        except Exception as e:  # noqa: BLE001
            impl = _err(e)
        model = ('ok', _model_rules(line[3:])) if line.startswith('ok ') else line
        ctx.case(('graph', o, t, s, m), True, sample={'op': 'conversion_graph', 'args': [o, t, s, m],
                                                      'impl': impl if isinstance(impl, str) else f'{len(impl[1])} rules'})
        ctx.count('conversion_graph:' + (impl if isinstance(impl, str) else 'ok'))
        if impl != model:
            ctx.disagree({'op': 'conversion_graph', 'args': [o, t, s, m]}, impl, model)
    # public factories: model and generated table vs a fresh call
    fq = []
    for mod, pym in (('tof', gt), ('beamline', gb)):
        for n, f in sorted(vars(pym).items()):
            import inspect

            if n.startswith('_') or not inspect.isfunction(f) or f.__module__ != pym.__name__:
                continue
            params = list(inspect.signature(f).parameters)
            if params == ['start']:
                for a in tr_graphs.START_CANDIDATES:
                    fq.append((mod, n, f, {'start': a}, str(T.ncode[a])))
            elif params == ['scatter']:
                for a in (True, False):
                    fq.append((mod, n, f, {'scatter': a}, 'true' if a else 'false'))
            elif params == []:
                fq.append((mod, n, f, {}, '-'))
            else:
                ctx.disagree({'op': 'factory', 'name': f'{mod}.{n}'}, params, None, 'factory signature not understood')
    outs = ctx.driver([f'c02.factory {mod}.{n} {arg}' for mod, n, f, kw, arg in fq])
    gen = {}
    i = 0
    while True:
        batch = ctx.driver([f'c02.gen {j}' for j in range(i, i + 64)])
        stop = False
        for line in batch:
            if line == 'end':
                stop = True
                break
            name, arg, g = line.split(' ')
            gen[(name, arg)] = _model_rules(g)
        if stop:
            break
        i += 64
    for (mod, n, f, kw, arg), line in zip(fq, outs):
        try:
            impl = ('ok', _real_rules(T, f(**kw)))
        except Exception as e:  # noqa: BLE001
            impl = _err(e)
        ctx.case(('factory', mod, n, arg), True)
        ctx.count('factory:' + (impl if isinstance(impl, str) else 'ok'))
        if line != 'bad-op':  # modelled factory
            model = ('ok', _model_rules(line[3:])) if line.startswith('ok ') else line
            if impl != model:
                ctx.disagree({'op': 'factory', 'name': f'{mod}.{n}', 'arg': kw}, impl, model)
        else:
            ctx.count('factory:not-modelled(literal dict)')
        garg = {'-': '-'}.get(arg, arg if arg in ('true', 'false') else T.names[int(arg)] if arg.isdigit() else arg)
        g = gen.get((f'{mod}.{n}', garg))
        if isinstance(impl, str):
            if g is not None:
                ctx.disagree({'op': 'gen', 'name': f'{mod}.{n}', 'arg': kw}, impl, g, 'generated table has a graph for a raising call')
        elif g != impl[1]:
            ctx.disagree({'op': 'gen', 'name': f'{mod}.{n}', 'arg': kw}, impl, g, 'generated table differs')


# ---- correspond / oracle / replay --------------------------------------------------------------------

_STASH: dict = {}


def _tables(ctx):
    data = tr_graphs.extract(ctx.repo)
    base, gen, kernels = ctx.driver(['c02.names'])[0].split('|')
    T = Tables(gen.split(','), kernels.split(','))
    if base.split(',') != T.names[:len(base.split(','))] or T.names != data['names'] or T.kernels != data['kernels']:
        ctx.disagree('names', data['names'], [base, gen], 'name/kernel tables of model, generated file and translator differ')
    if T.names[:11] != ELEVEN:
        ctx.disagree('names', T.names[:11], ELEVEN, 'the first 11 names are not the coordinates of the quantifier')
    return T, data


def _run(ctx, T, cfgs, lines, workers):
    from concurrent.futures import ProcessPoolExecutor
    import multiprocessing as mp

    n = len(cfgs)
    size = max(50, min(2000, n // (workers * 8) + 1))
    chunks = [(ctx.repo, ctx.seed, T.names, T.kernels, cfgs[i:i + size], lines[i:i + size]) for i in range(0, n, size)]
    if workers <= 1:
        results = [run_chunk(c) for c in chunks]
    else:
        mpc = mp.get_context('spawn')
        with ProcessPoolExecutor(max_workers=workers, mp_context=mpc, initializer=init_worker,
                                 initargs=(mpc.Value('i', 0), os.cpu_count())) as ex:
            results = list(ex.map(run_chunk, chunks))
    return [r for rs in results for r in rs]


def correspond(ctx):
    import scipp as sc

    sc.get_logger().setLevel('ERROR')
    T, data = _tables(ctx)
    targets = targets_of(T, data)
    check_tables(ctx, T, data, targets)
    cfgs = configs(ctx, T, targets, origins_of(ctx, data)) + extra_configs(ctx, T, targets, ctx.n(600, 20000)) \
        + leftover_configs(ctx, T, targets, ctx.n(500, 8000))
    lines = model_lines(ctx, T, cfgs)
    workers = int(os.environ.get('VERIF_WORKERS', '4' if ctx.quick else '12'))
    results = _run(ctx, T, cfgs, lines, workers)
    viols = []
    used_kernels = set()
    for cfg, line, r in zip(cfgs, lines, results):
        idx, o, t, s, m, c, ex, kind, al = cfg
        present = [n for i, n in enumerate(ELEVEN) if m >> i & 1]
        case = {'origin': o, 'target': t, 'scatter': s, 'present': present, 'container': c, 'vseed': [ctx.seed, idx],
                'extras': list(ex), 'kind': kind, 'align': list(al),
                'unaligned': ([n for i, n in enumerate(ELEVEN) if al[1] >> i & 1 and m >> i & 1] if al[0] == 'set'
                              else 'per-pixel coordinates (sliced)' if al[0] == 'slice' else []),
                'shapes': ({n: KIND_DIMS[k] for n, k in zip(ELEVEN, al[1]) if n in present} if al[0] == 'shape' else None)}
        ctx.case((o, t, s, m, c, ex, al), True, sample={**case, 'impl': list(r['impl']), 'model': line[:160]})
        for h in r['hist']:
            ctx.count(h)
        if 'crash' in r:
            ctx.disagree(case, 'harness crash', None, r['crash'][-600:])
            continue
        used_kernels.update(r.get('kernels', ()))
        if not r['agree']:
            ctx.disagree(case, r['detail']['impl'], r['detail']['model'])
        for key, what in r['viol']:
            viols.append((key, what, case))
    ctx.note(f'kernels occurring in model derivations: {len(used_kernels)} of {len(T.kernels) - 1}')
    if not ctx.quick:
        ctx.exhaustive = True
    _STASH['viols'] = viols
    _STASH['done'] = True


def oracle(ctx, deep):
    """The property statement on the real code. The per-configuration oracle (derivability by naive fixpoint over
    the documented formulas, expected value from those formulas with precedence of supplied coordinates, reported
    graph reproduces convert) is evaluated in the same pass as the correspondence (it needs the same data); here
    its findings are reported. `deep` draws fresh values and fresh subsets."""
    import scipp as sc

    sc.get_logger().setLevel('ERROR')
    if not deep and _STASH.get('done'):
        for key, what, case in _STASH['viols']:
            ctx.violation(key, what, case)
        return
    T, data = _tables(ctx)
    targets = targets_of(T, data)
    n = 6000 if deep else ctx.n(1500, 6000)
    rng = ctx.rng
    cfgs = []
    for i in range(n):
        p = rng.choice([0.25, 0.5, 0.8])
        m = sum(1 << j for j in range(11) if rng.random() < p)
        cfgs.append((10_000_000 + i, rng.choice(ORIGINS), rng.choice(targets), rng.random() < 0.5, m,
                     rng.choice(['DataArray', 'Dataset']), (), 'q',
                     (random_shapes(rng) if rng.random() < 0.4 else random_alignment(rng, m)) if m and rng.random() < 0.6
                     else ('all',)))
    lines = model_lines(ctx, T, cfgs)
    results = _run(ctx, T, cfgs, lines, int(os.environ.get('VERIF_WORKERS', '4' if ctx.quick else '12')))
    for cfg, r in zip(cfgs, results):
        idx, o, t, s, m, c, ex, kind, al = cfg
        present = [nm for i, nm in enumerate(ELEVEN) if m >> i & 1]
        case = {'origin': o, 'target': t, 'scatter': s, 'present': present, 'container': c, 'vseed': [ctx.seed, idx],
                'extras': [], 'kind': 'q', 'align': list(al)}
        ctx.case(('oracle', o, t, s, m, c, idx), True)
        for key, what in r['viol']:
            ctx.violation(key, what, case)


def _align_of(a):
    a = list(a)
    return (a[0], tuple(a[1])) if a[0] == 'shape' else tuple(a)


def replay(ctx, payload):
    import scipp as sc

    sc.get_logger().setLevel('ERROR')
    w = payload.get('witness', {})
    if 'origin' not in w:
        print('no concrete input in this replay file')
        return False
    T, _ = _tables(ctx)
    m = mask_of(w['present'])
    seed, idx = w['vseed']
    cfg = (idx, w['origin'], w['target'], bool(w['scatter']), m, w['container'], tuple(w.get('extras', ())), w.get('kind', 'q'),
           _align_of(w.get('align', ('all',))))
    line = model_lines(ctx, T, [cfg])[0]
    r = run_config(T, cfg, line, seed)
    for key, what in r['viol']:
        print(key, '—', what)
    return any(key == payload.get('key') for key, _ in r['viol']) or (bool(r['viol']) and payload.get('key') is None)


LEVEL_TEXT = (
    'Lean 4 theorems about an executable model of convert/deduce_conversion_graph/conversion_graph and of scipp\'s graph '
    'resolution: for every ranked graph, resolution succeeds iff the target is derivable, fetches every supplied '
    'coordinate and only applies kernels of the graph; the generated graph tables (re-extracted from the source on '
    'every run) are ranked and duplicate-free (decide +kernel); hence for all 4 origins, every target, both scatter '
    'flags and EVERY set of present coordinates convert returns a derivation iff the mode is unambiguous and the target '
    'derivable, else RuntimeError; derivations never contain a kernel of the wrong scattering mode; the literal '
    'stack/dict loop of scipp Graph.graph_for (terminating within its budget) yields the same derivation as the '
    'recursive resolution; the graph tables are exactly the documented wiring; every kernel of every graph maps ground '
    'truth to ground truth and hence (convert_value) the derivation evaluates to the documented formula of the target '
    '(λ = h t/(m_n L), E = m_n L²/(2t²), d = λ/(2 sin θ), Q = 4π sin θ/λ, Euclidean L1/L2/Ltotal/2θ, ΔE = Ei − Ef, '
    'Q-vector, hkl, time at sample); the factory models reproduce every '
    'public graph factory. The model is tied to the code by an exhaustive correspondence over all configurations '
    '(bitwise equal target coordinates, equal subgraphs, equal graph keys).'
)
LEVEL_NOTE = (
    'Trusted: Lean kernel, the translator, the harness. scipp.transform_coords is modelled from its source and validated '
    'by the correspondence; kernel formulas are compared by the oracle at 1e-9, proved elsewhere (C01/C03/C05).'
)
TECHNIQUE = 'Lean 4 proof over translator-regenerated graph tables + exhaustive model/implementation correspondence'
