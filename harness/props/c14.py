"""C14 — CIF output is valid CIF 1.1 and parses back to exactly what was supplied."""
from __future__ import annotations

import io
import math
import re
from datetime import datetime, timedelta, timezone
from decimal import Decimal
from fractions import Fraction

from . import c14_cif as G
from .c14_cif import CifSyntaxError, backslashreplace, cif_strip, enc, py_parse

PROP = 'C14'
LEAN_TARGETS = ['ScnVerif.Props.C14']
PROPS_FILE = 'ScnVerif/Props/C14.lean'
TRANSLATORS = []
RULE = (
    'values are drawn from a grammar over-weighting _ # $ ; [ ] quotes tab newline blank, CIF keywords in several '
    'cases, empty and non-ASCII text; numbers are ints and log-uniform floats with and without variances; documents '
    'are 1-3 blocks of chunks and loops (1..50 rows x 1..6 columns) with comments and schemas; builder programs are '
    'random sequences of new/copy/with_authors/with_reducers/with_beamline/with_reduced_powder_data/'
    'with_powder_calibration/set name/set comment/save/save_cif(comment=). A case is distinct by its full input; '
    'non-trivial when it produced text (or the documented rejection) that was compared.'
)
ASSUMPTIONS = [
    "str(float) (shortest repr) and scipp's compact value(su) format are Python's/scipp's: the harness calls the same "
    'primitives to obtain the token text given to the model and separately checks float(token)==value and the '
    'value(su) convention with su=sqrt(variance) in exact rational arithmetic (half a unit of the last printed digit '
    'plus one floating-point rounding of the scaled value, 2^-51 relative, for exact ties)',
    'tags are drawn from the CIF tag grammar (non-blank printable ASCII); the timestamp and the version string are '
    'read from the produced text (format and closeness to now checked) and handed to the model',
    'the iteration order of the Python set of schemas is unspecified: it is read from the produced text and handed to '
    'the model as a permutation; the oracle compares schema rows as a set',
    'value strings are printable ASCII, tab, newline and non-ASCII code points (no other control characters)',
    "values with variances are drawn with 1e-12 <= |x| <= 1e22 (or 0) and relative uncertainty 1e-6..10: scipp's "
    'compact formatter, which is outside the repository, overflows near DBL_MAX and prints spurious digits below 1e-16',
]
TRUSTED = [
    'modelled, not verified: Model/Cif/Writer.lean and Model/Cif/Builder.lean are hand transcriptions of io/cif.py',
    'the CIF 1.1 grammar as transcribed into Model/Cif/Parser.lean and, independently, into harness/props/c14_cif.py '
    '(the two readers are compared with each other on every produced text)',
    'the model keeps the behaviour before commits 667eecd/0de43de (Variant.beforeFix) only for the regression '
    'counterexamples; theorems and correspondence are about the code as it stands (Variant.current), unconditionally',
]
LEVEL_TEXT = (
    'Lean 4 theorems over all strings (induction on character lists) about an executable model of the writer and an '
    'independent CIF 1.1 tokenizer/parser: every formatted value, pair, loop, comment, block and document written by '
    'the model tokenizes and parses back to exactly the supplied structure (values up to surrounding blanks) provided '
    'no value contains a newline followed by a semicolon (not representable in CIF 1.1); output is ASCII; comments '
    'yield no token; only characters of the CIF 1.1 character set are written; role ids refer to exactly one author id '
    'for every builder state; every chain of builder calls saves to a text the complete reader returns as the assembled '
    'block. The model is tied to the code by byte-for-byte text equality on generated documents and '
    'builder programs; the Lean reader is run on the text of the implementation and compared with a second, '
    'independently written reader and with the supplied structure.'
)
LEVEL_NOTE = (
    'Theorems are about the code as it stands (after the repairs 667eecd and 0de43de found by this check); the former '
    'defects are kept as proved regression counterexamples about the old quoting decision. The high-level builder is '
    'covered by builder_document_roundtrip (every chain of builder calls). Number-to-text conversion is delegated to '
    'Python/scipp and validated, not modelled; which tokens stand under which _su tag is proved for the model.'
)
TECHNIQUE = 'Lean 4 proof (tokenizer state machine, induction over character lists) + model/implementation text equality'

UTC = timezone.utc


def _mods():
    import scipp as sc
    from scippneutron import metadata
    from scippneutron.io import cif

    return sc, cif, metadata


# =================================================================================================
# value / document specifications (plain JSON-able data) and their three readings:
#   impl objects, protocol words for the Lean model, the supplied structure for the oracle
# =================================================================================================

def compact(v: float, var: float) -> str:
    sc, _, _ = _mods()
    return f'{sc.scalar(v, variance=var):c}'


def iso(dt) -> str:
    y, mo, d, h, mi, s = dt
    return f'{y:04d}-{mo:02d}-{d:02d}T{h:02d}:{mi:02d}:{s:02d}+00:00'


def vtext(v) -> str:
    """str(value) as the writer's contract states it"""
    t = v[0]
    if t in ('s', 'vs'):
        return v[1]
    if t in ('i', 'vi'):
        return str(int(v[1]))
    if t in ('f', 'vf'):
        return repr(float(v[1]))
    if t == 'fv':
        return compact(v[1], v[2])
    if t == 'dt':
        return iso(v[1])
    if t == 'b':
        return 'True' if v[1] else 'False'
    raise ValueError(t)


def vimpl(v):
    sc, _, _ = _mods()
    t = v[0]
    if t == 's':
        return v[1]
    if t == 'vs':
        return sc.scalar(v[1])
    if t == 'i':
        return int(v[1])
    if t == 'vi':
        return sc.scalar(int(v[1]), unit=v[2] if len(v) > 2 else None)
    if t == 'f':
        return float(v[1])
    if t == 'vf':
        return sc.scalar(float(v[1]), unit=v[2] if len(v) > 2 else None)
    if t == 'fv':
        return sc.scalar(float(v[1]), variance=float(v[2]), unit=v[3] if len(v) > 3 else None)
    if t == 'dt':
        return datetime(*v[1], tzinfo=UTC)
    if t == 'b':
        return bool(v[1])
    raise ValueError(t)


def col_specs(col):
    """column spec -> list of value specs (row order)"""
    t = col[0]
    if t == 's':
        return [('vs', x) for x in col[1]]
    if t == 'f':
        return [('vf', x) for x in col[1]]
    if t == 'i':
        return [('vi', x) for x in col[1]]
    if t == 'fv':
        return [('fv', x, y) for x, y in zip(col[1], col[2])]
    raise ValueError(t)


def col_impl(col):
    sc, _, _ = _mods()
    t = col[0]
    if t == 's':
        return sc.array(dims=['row'], values=list(col[1]))
    if t == 'f':
        return sc.array(dims=['row'], values=[float(x) for x in col[1]], unit=col[2] if len(col) > 2 else None)
    if t == 'i':
        return sc.array(dims=['row'], values=[int(x) for x in col[1]], unit=None, dtype='int64')
    if t == 'fv':
        return sc.array(dims=['row'], values=[float(x) for x in col[1]], variances=[float(x) for x in col[2]])
    raise ValueError(t)


def schema_impl(arg, consts):
    _, cif, _ = _mods()
    if arg is None:
        return None
    out = []
    for s in arg:
        if s == 'core':
            out.append(cif.CORE_SCHEMA)
        elif s == 'pd':
            out.append(cif.PD_SCHEMA)
        else:
            out.append(cif.CIFSchema(name=s[0], version=s[1], location=s[2]))
    if len(out) == 1 and arg[0] in ('core', 'pd'):
        return out[0]        # a single schema is passed bare
    return out


def schema_triples(arg, consts):
    if arg is None:
        return None
    return [consts['core'] if s == 'core' else consts['pd'] if s == 'pd' else tuple(s) for s in arg]


def get_consts():
    _, cif, _ = _mods()
    from scippneutron import __version__

    c, p = cif.CORE_SCHEMA, cif.PD_SCHEMA
    return {'core': (c.name, c.version, c.location), 'pd': (p.name, p.version, p.location), 'version': str(__version__)}


def item_impl(it, consts):
    _, cif, _ = _mods()
    if it['k'] == 'C':
        pairs = {k: vimpl(v) for k, v in it['pairs']}
        if it.get('as_dict') and not it['comment'] and it['schema'] is None:
            return pairs
        return cif.Chunk(pairs, comment=it['comment'], schema=schema_impl(it['schema'], consts))
    return cif.Loop({k: col_impl(c) for k, c in it['cols']}, comment=it['comment'],
                    schema=schema_impl(it['schema'], consts))


def block_impl(b, consts):
    _, cif, _ = _mods()
    blk = cif.Block(b['name'], [item_impl(it, consts) for it in b['items']], comment=b['comment'],
                    schema=schema_impl(b['schema'], consts))
    for _ in range(b.get('copies', 0)):
        blk = blk.copy()
    return blk


def err_enum(e: Exception) -> str:
    import scipp as sc

    if isinstance(e, sc.DimensionError):
        return 'err:dimension'
    if isinstance(e, sc.UnitError):
        return 'err:unit'
    if isinstance(e, sc.CoordError):
        return 'err:coord'
    if isinstance(e, ValueError):
        return 'err:value'
    return 'err:other:' + type(e).__name__


def doc_impl_text(doc, consts) -> str:
    """run the real writer on a document spec -> text or error enum"""
    import warnings

    _, cif, _ = _mods()
    try:
        with warnings.catch_warnings():
            warnings.simplefilter('ignore')
            blocks = [block_impl(b, consts) for b in doc['blocks']]
            f = io.StringIO()
            if doc['mode'] == 'B':
                blocks[0].write(f)
            elif len(blocks) == 1 and doc.get('single'):
                cif.save_cif(f, blocks[0], comment=doc['comment'])
            else:
                cif.save_cif(f, blocks, comment=doc['comment'])
            return f.getvalue()
    except Exception as e:  # noqa: BLE001
        return err_enum(e)


# ---- canonical schema set (mirrors Block.schemaSet of the model; used only to express the set order
#      found in the implementation's text as a permutation) ----------------------------------------

def _dedup(xs):
    out = []
    for x in xs:
        if x not in out:
            out.append(x)
    return out


def _preprocess(arg, consts):
    return [] if arg is None else _dedup(list(arg) + [consts['core']])


def canonical_schema_set(b, consts):
    own = schema_triples(b['schema'], consts)
    s = _dedup(_preprocess(own, consts) + [x for it in b['items'] for x in _preprocess(schema_triples(it['schema'], consts), consts)])
    for _ in range(b.get('copies', 0)):
        s = _dedup(_preprocess(s, consts) + [x for it in b['items'] for x in _preprocess(schema_triples(it['schema'], consts), consts)])
    return s


def schema_rows_in_text(text):
    """lists of rows (as lines) of each audit_conform loop, in order of appearance"""
    out = []
    lines = text.split('\n')
    i = 0
    while i < len(lines):
        if lines[i] == '_audit_conform.dict_location' and i >= 3 and lines[i - 3] == 'loop_':
            rows = []
            i += 1
            while i < len(lines) and lines[i] != '':
                rows.append(lines[i])
                i += 1
            out.append(rows)
        else:
            i += 1
    return out


def perms_for(text, sets):
    """permutation per block (identity when it cannot be read off the text)"""
    loops = schema_rows_in_text(text) if isinstance(text, str) else []
    perms = []
    j = 0
    for s in sets:
        ident = list(range(len(s)))
        if not s:
            perms.append(ident)
            continue
        rows = loops[j] if j < len(loops) else []
        j += 1
        want = [' '.join(t) for t in s]
        if sorted(rows) == sorted(want) and len(set(want)) == len(want):
            perms.append([want.index(r) for r in rows])
        else:
            perms.append(ident)
    return perms


# ---- protocol words ------------------------------------------------------------------------------

def w_schema_arg(arg, consts):
    if arg is None:
        return ['N']
    tr = schema_triples(arg, consts)
    out = ['S', str(len(tr))]
    for t in tr:
        out += [enc(x) for x in t]
    return out


def w_item(it, consts):
    if it['k'] == 'C':
        out = ['C', enc(it['comment'])] + w_schema_arg(it['schema'], consts) + [str(len(it['pairs']))]
        for k, v in it['pairs']:
            out += [enc(k), enc(vtext(v))]
        return out
    cols = it['cols']
    nrows = len(col_specs(cols[0][1])) if cols else 0
    out = ['L', enc(it['comment'])] + w_schema_arg(it['schema'], consts) + [str(len(cols)), str(nrows)]
    for k, c in cols:
        out.append(enc(k))
        out += [enc(vtext(v)) for v in col_specs(c)]
    return out


def w_block(b, perm, consts):
    out = [enc(b['name']), enc(b['comment'])] + w_schema_arg(b['schema'], consts)
    out += [str(b.get('copies', 0)), str(len(perm))] + [str(p) for p in perm] + [str(len(b['items']))]
    for it in b['items']:
        out += w_item(it, consts)
    return out


def w_doc(doc, perms, variant, consts):
    out = ['c14.save', variant, doc['mode']] + [enc(x) for x in consts['core']] + [enc(doc['comment']), str(len(doc['blocks']))]
    for b, p in zip(doc['blocks'], perms):
        out += w_block(b, p, consts)
    return ' '.join(out)


# ---- generators ----------------------------------------------------------------------------------

def gen_float(rng):
    r = rng.random()
    if r < 0.08:
        return rng.choice([0.0, -0.0, 1.0, -1.0, 1e22, 1e16, 1e-7, 1.5e-5, 123456789012345678.0, 0.1, 5e-324, 1.7976931348623157e308])
    m = math.exp(rng.uniform(math.log(1e-12), math.log(1e12)))
    x = m * rng.choice([1, -1])
    if r < 0.4:
        x = float(f'{x:.{rng.randrange(1, 6)}g}')
    return x


def gen_scalar(rng, hostile=True):
    r = rng.random()
    gv = G.gen_value if hostile else G.gen_benign_value
    if r < 0.62:
        return ('s', gv(rng))
    if r < 0.70:
        return ('vs', gv(rng))
    if r < 0.76:
        return ('i', rng.choice([0, 1, -1, 62, 93, 10**12, -7, rng.randrange(-10**6, 10**6)]))
    if r < 0.80:
        return ('vi', rng.randrange(-1000, 1000), rng.choice([None, 'deg', 'm']))
    if r < 0.85:
        return ('f', gen_float(rng))
    if r < 0.90:
        return ('vf', gen_float(rng), rng.choice([None, 'deg', 'us']))
    if r < 0.96:
        # value(su): scipp's compact formatter is outside the repository; it overflows near DBL_MAX and
        # prints spurious digits for relative uncertainties below 1e-16, so the range is kept moderate
        x = gen_float(rng)
        if x == 0 or not (1e-12 <= abs(x) <= 1e22):
            x = rng.choice([0.0, 1.0, 93.2, -5.0, 123456.0, 1.5])
        rel = math.exp(rng.uniform(math.log(1e-6), math.log(10)))
        var = (abs(x) * rel) ** 2 if x != 0 else rng.choice([1.0, 0.04, 4.41])
        return ('fv', x, var, rng.choice([None, 'deg']))
    if r < 0.98:
        return ('dt', (rng.randrange(1990, 2030), rng.randrange(1, 13), rng.randrange(1, 29), rng.randrange(24),
                       rng.randrange(60), rng.randrange(60)))
    return ('b', rng.random() < 0.5)


def gen_column(rng, n, hostile):
    r = rng.random()
    if r < 0.6:
        if hostile:
            return ('s', [G.gen_value(rng) if rng.random() < 0.5 else G.gen_benign_value(rng) for _ in range(n)])
        return ('s', [G.gen_benign_value(rng) for _ in range(n)])
    if r < 0.75:
        return ('f', [gen_float(rng) for _ in range(n)])
    if r < 0.85:
        return ('i', [rng.randrange(-10**6, 10**6) for _ in range(n)])
    vals, vrs = [], []
    for _ in range(n):
        v = gen_scalar_fv(rng)
        vals.append(v[0])
        vrs.append(v[1])
    return ('fv', vals, vrs)


def gen_scalar_fv(rng):
    x = math.exp(rng.uniform(math.log(1e-6), math.log(1e6))) * rng.choice([1, -1])
    rel = math.exp(rng.uniform(math.log(1e-5), math.log(3)))
    return x, (abs(x) * rel) ** 2


CUSTOM_SCHEMAS = [['myCIF', '1.0', 'http://example.org/my.dic'], ['coreCIF', '9.9', 'file:///x.dic'],
                  ['x-cif', 'v2', 'loc']]


def gen_schema_arg(rng):
    r = rng.random()
    if r < 0.6:
        return None
    if r < 0.75:
        return ['core']
    if r < 0.87:
        return ['pd']
    if r < 0.92:
        return ['core', 'pd']
    if r < 0.96:
        return [list(rng.choice(CUSTOM_SCHEMAS))]
    if r < 0.98:
        return []
    return [list(rng.choice(CUSTOM_SCHEMAS)), 'pd', 'core'][:rng.randrange(1, 4)]


def gen_item(rng, used, hostile, big):
    if rng.random() < 0.55:
        n = rng.choice([0, 1, 1, 2, 2, 3, 5]) if rng.random() < 0.9 else rng.randrange(6, 12)
        pairs = [[G.gen_tag(rng, used), gen_scalar(rng, hostile)] for _ in range(n)]
        it = {'k': 'C', 'comment': G.gen_comment(rng), 'schema': gen_schema_arg(rng), 'pairs': pairs}
        if rng.random() < 0.3:
            it['as_dict'] = True
            it['comment'] = ''
            it['schema'] = None
        return it
    ncols = rng.randrange(1, 7)
    nrows = rng.randrange(1, 51) if big else rng.choice([1, 1, 2, 2, 3, 3, 4, 5, 7])
    cols = [[G.gen_tag(rng, used), gen_column(rng, nrows, hostile and nrows <= 8)] for _ in range(ncols)]
    return {'k': 'L', 'comment': G.gen_comment(rng), 'schema': gen_schema_arg(rng), 'cols': cols}


def gen_doc(rng, hostile=True):
    nb = rng.choice([1, 1, 1, 2, 3])
    mode = 'B' if (nb == 1 and rng.random() < 0.35) else 'H'
    blocks = []
    for _ in range(nb):
        used = set()
        ni = rng.choice([0, 1, 1, 2, 2, 3, 4, 5])
        big = rng.random() < 0.15
        blocks.append({
            'name': G.gen_block_name(rng), 'comment': G.gen_comment(rng) if rng.random() < 0.4 else '',
            'schema': gen_schema_arg(rng) if rng.random() < 0.3 else None,
            'copies': rng.choice([0, 0, 0, 0, 1, 2]),
            'items': [gen_item(rng, used, hostile, big) for _ in range(ni)],
        })
    doc = {'mode': mode, 'comment': G.gen_comment(rng) if mode == 'H' else '', 'blocks': blocks}
    if mode == 'H' and nb == 1 and rng.random() < 0.5:
        doc['single'] = True
    return doc


# =================================================================================================
# the property, evaluated on text produced by the real code
# =================================================================================================

RESERVED_RE = re.compile(r'^(data_.*|save_.*|loop_|stop_|global_)$', re.I | re.S)


def value_class(s: str) -> str:
    """stable class id of an (escaped) string value that does not survive the round trip"""
    if '\n' in s or ("'" in s and '"' in s):
        return 'C14:text-field-self-terminates' if '\n;' in s else 'C14:value-roundtrip'
    if "'" in s or '"' in s or ' ' in s or s == '':
        return 'C14:value-roundtrip'
    if '\t' in s:
        return 'C14:tab-unquoted'
    c = s[0]
    if c == '_':
        return 'C14:unquoted-leading-underscore'
    if c == '#':
        return 'C14:unquoted-hash'
    if c in '$[]':
        return 'C14:unquoted-dollar-bracket'
    if c == ';':
        return 'C14:semicolon-line-start'
    if RESERVED_RE.match(s):
        return 'C14:reserved-word'
    return 'C14:value-roundtrip'


FV_RE = re.compile(r'^(-?)(\d+)(?:\.(\d+))?\((\d+)\)$')


def number_ok(tok: str, v) -> bool:
    t = v[0]
    try:
        if t in ('i', 'vi'):
            return re.fullmatch(r'-?\d+', tok) is not None and int(tok) == int(v[1])
        if t in ('f', 'vf'):
            return re.fullmatch(r'[-+0-9.eE]+|-?inf|nan', tok) is not None and float(tok) == float(v[1]) \
                and math.copysign(1, float(tok)) == math.copysign(1, float(v[1]))
        if t == 'fv':
            return fv_ok(tok, float(v[1]), float(v[2]))
    except ValueError:
        return False
    return False


def fv_ok(tok: str, x: float, var: float) -> bool:
    """value(su): value and su = sqrt(variance) both rounded to the printed precision.  With decimals the
    precision is the last decimal; an integer mantissa may be padded with place-holder zeros
    (`-300000000000(1100000)`), then the precision is the last significant digit of the su (one digit more
    when the su reads `1` followed by zeros, since a leading 1 is printed with two digits)."""
    m = FV_RE.match(tok)
    if not m:
        return var == 0.0 and float(tok) == x
    sign, ip, fp, su = m.groups()
    if int(su) == 0:
        return False
    p = len(fp or '')
    val = Fraction(Decimal(f'{sign}{ip}.{fp or "0"}'))
    if p > 0:
        units = [Fraction(1, 10 ** p)]
    else:
        tz = len(su) - len(su.rstrip('0'))
        units = [Fraction(10 ** tz)] + ([Fraction(10 ** (tz - 1))] if tz >= 1 and su.rstrip('0') == '1' else [])
    for unit in units:
        su_v = Fraction(int(su))
        if p > 0:
            su_v = int(su) * unit
        half = unit / 2
        # the formatter rounds value*10^p computed in floating point: an exact tie can fall on either
        # side, so one rounding error of the product (2^-52 relative) is allowed beyond the half unit
        slack = abs(Fraction(x)) / 2 ** 51
        if val % unit != 0 or abs(Fraction(x) - val) > half + slack:
            continue
        sslack = su_v / 2 ** 50
        lo, hi = max(su_v - half - sslack, 0), su_v + half + sslack
        if lo * lo <= Fraction(var) <= hi * hi:
            return True
    return False


def value_matches(parsed: str, v) -> bool:
    t = v[0]
    if t in ('s', 'vs', 'dt', 'b'):
        return cif_strip(parsed) == cif_strip(backslashreplace(vtext(v)))
    return number_ok(parsed, v)


def expected_items(b):
    """supplied structure of a block (without the generated schema loop)"""
    out = []
    for it in b['items']:
        if it['k'] == 'C':
            for k, v in it['pairs']:
                out.append(('P', k, v))
        else:
            cols = [(k, col_specs(c)) for k, c in it['cols']]
            n = len(cols[0][1])
            out.append(('L', [k for k, _ in cols], [cols[j][1][i] for i in range(n) for j in range(len(cols))]))
    return out


def supplied_schemas(b, consts):
    s = []
    for arg in [b['schema']] + [it['schema'] for it in b['items']]:
        if arg is not None:
            s += schema_triples(arg, consts)
    return set(s)


def compare_items(got, want):
    """-> None or a description of the first difference"""
    if len(got) != len(want):
        return f'{len(got)} data items read, {len(want)} supplied'
    for i, (g, w) in enumerate(zip(got, want)):
        if g[0] != w[0]:
            return f'item {i}: read as {g[0]}, supplied as {w[0]}'
        if g[0] == 'P':
            if g[1] != w[1]:
                return f'item {i}: tag {g[1]!r} read, {w[1]!r} supplied'
            if not value_matches(g[2], w[2]):
                return f'item {i}: value {g[2]!r} read for supplied {w[2]!r}'
        else:
            if g[1] != w[1]:
                return f'item {i}: loop tags {g[1]!r} read, {w[1]!r} supplied'
            if len(g[2]) != len(w[2]):
                return f'item {i}: {len(g[2])} loop values read, {len(w[2])} supplied'
            for j, (a, b) in enumerate(zip(g[2], w[2])):
                if not value_matches(a, b):
                    return f'item {i}: loop value {j} read as {a!r}, supplied {b!r}'
    return None


def check_doc_text(text, doc, consts):
    """the property on one produced text -> None or (kind, description)"""
    bad = [c for c in text if ord(c) > 127]
    if bad:
        return ('non-ascii', f'non-ASCII character {bad[0]!r} in the output')
    try:
        blocks = py_parse(text)
    except CifSyntaxError as e:
        return ('syntax', f'not valid CIF 1.1: {e.why}')
    if len(blocks) != len(doc['blocks']):
        return ('structure', f'{len(blocks)} data blocks read, {len(doc["blocks"])} supplied')
    for (name, items), b in zip(blocks, doc['blocks']):
        if name != backslashreplace(b['name']):
            return ('structure', f'block name {name!r} read, {b["name"]!r} supplied')
        sup = supplied_schemas(b, consts)
        if items and items[0][0] == 'L' and items[0][1] == ['audit_conform.dict_name', 'audit_conform.dict_version',
                                                            'audit_conform.dict_location']:
            vals = items[0][2]
            rows = [tuple(vals[i:i + 3]) for i in range(0, len(vals), 3)]
            if len(set(rows)) != len(rows) or not (sup <= set(rows) <= sup | {consts['core']}):
                return ('structure', f'schema loop lists {rows!r}, supplied {sorted(sup)!r}')
            items = items[1:]
        elif sup:
            return ('structure', 'schema loop missing')
        d = compare_items(items, expected_items(b))
        if d:
            return ('structure', f'block {b["name"]!r}: {d}')
    return None


def string_values(doc):
    for b in doc['blocks']:
        for it in b['items']:
            if it['k'] == 'C':
                for _, v in it['pairs']:
                    if v[0] in ('s', 'vs'):
                        yield v[1]
            else:
                for _, c in it['cols']:
                    if c[0] == 's':
                        yield from c[1]


def replace_values(doc, bad: set):
    import copy

    d = copy.deepcopy(doc)
    for b in d['blocks']:
        for it in b['items']:
            if it['k'] == 'C':
                for p in it['pairs']:
                    if p[1][0] in ('s', 'vs') and p[1][1] in bad:
                        p[1] = (p[1][0], 'x')
            else:
                for kc in it['cols']:
                    if kc[1][0] == 's':
                        kc[1] = ('s', ['x' if x in bad else x for x in kc[1][1]])
    return d


VALUE_CONTEXTS = ('pair', 'loop-first', 'loop-second', 'loop-single')


def value_doc(v: str, context: str):
    if context == 'pair':
        items = [{'k': 'C', 'comment': '', 'schema': None, 'pairs': [['k.a', ('s', v)], ['k.b', ('s', 'after')]]}]
    elif context == 'loop-first':
        items = [{'k': 'L', 'comment': '', 'schema': None, 'cols': [['k.a', ('s', [v, 'p'])], ['k.b', ('s', ['q', 'r'])]]}]
    elif context == 'loop-second':
        items = [{'k': 'L', 'comment': '', 'schema': None, 'cols': [['k.a', ('s', ['p', 'q'])], ['k.b', ('s', [v, 'r'])]]}]
    else:
        items = [{'k': 'L', 'comment': '', 'schema': None, 'cols': [['k.a', ('s', [v])]]}]
    items.append({'k': 'C', 'comment': '', 'schema': None, 'pairs': [['k.z', ('s', 'end')]]})
    return {'mode': 'B', 'comment': '', 'blocks': [{'name': 'v', 'comment': '', 'schema': None, 'copies': 0, 'items': items}]}


def _report(ctx, key, what, witness):
    """at most 3 witnesses per class reach the framework (it keeps the first 200 violations only, so a
    flood of one known class must not crowd out another class); every occurrence is counted"""
    seen = ctx.__dict__.setdefault('_c14_seen', {})
    seen[key] = seen.get(key, 0) + 1
    if seen[key] <= 3:
        ctx.violation(key, what, witness)
    else:
        ctx.count('violation:' + key)


def _with_name(doc, name):
    doc['blocks'][0]['name'] = name
    return doc


_value_cache: dict = {}


def value_failure(v: str, consts):
    """first context in which the string value does not round trip -> (context, description) or None"""
    if v in _value_cache:
        return _value_cache[v]
    res = None
    for c in VALUE_CONTEXTS:
        d = value_doc(v, c)
        text = doc_impl_text(d, consts)
        if text.startswith('err:'):
            res = (c, 'writer raised ' + text)
            break
        r = check_doc_text(text, d, consts)
        if r:
            res = (c, r[1])
            break
    _value_cache[v] = res
    return res


def oracle_doc(ctx, doc, consts, tag, depth=0):
    """evaluate the property on one document; localise failures to single values where possible"""
    text = doc_impl_text(doc, consts)
    names_ok = all(not re.search(r'[ \t\n]', backslashreplace(b['name'])) for b in doc['blocks'])
    if isinstance(text, str) and text.startswith('err:'):
        if names_ok or text != 'err:value':
            _report(ctx, 'C14:writer-raises', f'writer raised {text} on a valid document', {'kind': 'doc', 'doc': doc})
        else:
            ctx.count('oracle:block-name-rejected')
        return
    if not names_ok:
        _report(ctx, 'C14:blank-in-block-name-accepted', 'block name with blank accepted', {'kind': 'doc', 'doc': doc})
        return
    r = check_doc_text(text, doc, consts)
    if r is None:
        ctx.count('oracle:doc-ok')
        return
    # localise
    if any(b['name'] == '' for b in doc['blocks']):
        _report(ctx, 'C14:empty-block-name', "empty block name gives a bare 'data_' (no block heading in CIF 1.1)",
                      {'kind': 'doc', 'doc': _with_name(value_doc('x', 'pair'), '')})
        doc = {**doc, 'blocks': [{**b, 'name': b['name'] or 'n'} for b in doc['blocks']]}
        return oracle_doc(ctx, doc, consts, tag, depth + 1)
    if r[0] == 'non-ascii' and doc['mode'] == 'H' and any(ord(c) > 127 for c in doc['comment']):
        _report(ctx, 'C14:file-comment-non-ascii', 'save_cif writes the non-ASCII file comment unescaped',
                      {'kind': 'doc', 'doc': {'mode': 'H', 'comment': '\xb5', 'single': True,
                                              'blocks': [value_doc('x', 'pair')['blocks'][0]]}})
        return oracle_doc(ctx, {**doc, 'comment': backslashreplace(doc['comment'])}, consts, tag, depth + 1)
    bad = set()
    for v in (dict.fromkeys(string_values(doc)) if depth < 3 else []):
        f = value_failure(v, consts)
        if f:
            bad.add(v)
            _report(ctx, value_class(backslashreplace(v)), f'string value does not survive ({f[0]}): {f[1]}',
                          {'kind': 'value', 'value': v, 'context': f[0]})
    if bad - {'x'}:
        ctx.count('oracle:doc-with-bad-values')
        return oracle_doc(ctx, replace_values(doc, bad), consts, tag, depth + 1)
    _report(ctx, 'C14:document', r[1], {'kind': 'doc', 'doc': doc})


# =================================================================================================
# builder programs
# =================================================================================================

def orcid_checksum(digits15: str) -> str:
    total = 0
    for ch in digits15:
        total = (total + int(ch)) * 2
    r = (12 - total % 11) % 11
    return 'X' if r == 10 else str(r)


def gen_orcid(rng):
    d = ''.join(rng.choice('0123456789') for _ in range(15))
    s = d + orcid_checksum(d)
    s = '-'.join(s[i:i + 4] for i in range(0, 16, 4))
    return ('https://orcid.org/' + s) if rng.random() < 0.5 else s


def orcid_url(o):
    return None if o is None else (o if o.startswith('https://') else 'https://orcid.org/' + o)


def gen_person(rng):
    name = G.gen_value(rng) if rng.random() < 0.5 else rng.choice(['Jane Doe', 'Max Mustermann', 'Librarian', 'Ridcully, M.', "O'Neil", 'Å. Ström'])
    if not name:
        name = 'N'
    return {
        'name': name,
        'email': rng.choice([None, None, 'jane.doe@ess.eu', 'mm@scipp.eu', 'a_b@x-y.org', "o'neil@uu.am"]),
        'address': rng.choice([None, None, 'Partikelgatan, Lund', '', G.gen_value(rng)]),
        'orcid': gen_orcid(rng) if rng.random() < 0.4 else None,
        'role': rng.choice([None, None, '', 'measurement', 'data reduction', G.gen_value(rng)]),
        'corr': rng.random() < 0.35,
    }


def person_impl(p):
    _, _, metadata = _mods()
    return metadata.Person(name=p['name'], email=p['email'], address=p['address'], orcid_id=p['orcid'], role=p['role'],
                           corresponding=p['corr'])


def gen_powder(rng):
    n = rng.choice([1, 2, 3, 3, 5, 8, 20, 50])
    r = rng.random()
    dim = 'tof' if r < 0.5 else 'dspacing' if r < 0.92 else rng.choice(['x', 'time', 'Tof'])
    good_unit = {'tof': 'us', 'dspacing': 'angstrom'}.get(dim, 'us')
    cunit = good_unit if rng.random() < 0.92 else rng.choice(['ns', 'm', 'one'])
    name = rng.choice(['', '', 'intensity_net', 'intensity_norm', 'intensity_total', 'bad', 'intensity'])
    dunit = rng.choice(['one', 'one', 'counts', 'counts/us', None, 'angstrom'])
    coord = sorted(abs(gen_float(rng)) % 1e6 + 0.001 * i for i in range(n))
    vals = [abs(gen_scalar_fv(rng)[0]) for _ in range(n)]
    return {
        'dim': dim, 'cunit': cunit, 'name': name, 'dunit': dunit, 'coord': coord,
        'cvar': [gen_scalar_fv(rng)[1] for _ in range(n)] if rng.random() < 0.25 else None,
        'vals': vals, 'var': [gen_scalar_fv(rng)[1] for _ in range(n)] if rng.random() < 0.6 else None,
        'comment': G.gen_comment(rng),
    }


def powder_impl(p):
    sc, _, _ = _mods()
    data = sc.array(dims=[p['dim']], values=p['vals'], variances=p['var'], unit=p['dunit'])
    coord = sc.array(dims=[p['dim']], values=p['coord'], variances=p['cvar'], unit=p['cunit'])
    return sc.DataArray(data, coords={p['dim']: coord}, name=p['name'])


def gen_calib(rng):
    n = rng.choice([1, 2, 3, 4, 6])
    if rng.random() < 0.6:
        powers = rng.sample([0, 1, 2, -1, 3, -2, 4, 5, 10, -3], n)
    else:
        powers = [rng.choice([0.0, 1.0, 2.0, -1.0, 0.5, 1.5, -0.5, 2.5, -0.0, 1e-3, 3.0]) for _ in range(n)]
    return {'powers': powers, 'coeffs': [gen_float(rng) for _ in range(n)],
            'var': [gen_scalar_fv(rng)[1] for _ in range(n)] if rng.random() < 0.5 else None, 'comment': G.gen_comment(rng)}


def calib_impl(c):
    sc, _, _ = _mods()
    return sc.DataArray(sc.array(dims=['cal'], values=c['coeffs'], variances=c['var']),
                        coords={'power': sc.array(dims=['cal'], values=c['powers'])})


def gen_program(rng):
    ops = [('new', G.gen_block_name(rng) if rng.random() < 0.7 else '', G.gen_comment(rng))]
    npool = 1
    for _ in range(rng.randrange(2, 12)):
        i = rng.randrange(npool)
        r = rng.random()
        if r < 0.06:
            ops.append(('new', G.gen_block_name(rng), G.gen_comment(rng)))
        elif r < 0.12:
            ops.append(('copy', i))
        elif r < 0.34:
            ops.append(('authors', i, [gen_person(rng) for _ in range(rng.choice([1, 1, 2, 2, 3, 4]))]))
        elif r < 0.44:
            ops.append(('reducers', i, [G.gen_value(rng) if rng.random() < 0.5 else 'mypackage v1' for _ in range(rng.choice([1, 1, 2, 3]))]))
        elif r < 0.56:
            fac = rng.choice([None, 'ESS', 'ess', 'ISIS', 'MAX IV', 'J-PARC', 'SnS', '', 'PSI', G.gen_value(rng)])
            ops.append(('beamline', i, rng.choice(['DREAM', 'Balder', 'fake', G.gen_value(rng)]), fac,
                        rng.choice([None, None, 's', 'r', 'x']), G.gen_comment(rng)))
        elif r < 0.66:
            ops.append(('powder', i, gen_powder(rng)))
        elif r < 0.72:
            ops.append(('calib', i, gen_calib(rng)))
        elif r < 0.75:
            ops.append(('setname', i, G.gen_block_name(rng)))
        elif r < 0.78:
            ops.append(('setcomment', i, G.gen_comment(rng)))
        elif r < 0.95:
            ops.append(('save', i))
        else:
            ops.append(('savec', i, G.gen_comment(rng)))
        if ops[-1][0] in ('new', 'copy', 'authors', 'reducers', 'beamline', 'powder', 'calib'):
            npool += 1          # provisional; fixed up when the implementation rejects the op
        if ops[-1][0] in ('new', 'powder'):
            # these may be rejected: later indices must stay valid, so re-draw against the real pool below
            pass
    ops.append(('save', rng.randrange(npool)))
    return ops


DATE_RE = re.compile(r'^_audit\.creation_date (\d{4}-\d{2}-\d{2}T\d{2}:\d{2}:\d{2}\+00:00)$', re.M)
SRC = {'s': 'SpallationNeutronSource', 'r': 'ReactorNeutronSource', 'x': 'SynchrotronXraySource'}


def run_program_impl(ops, consts):
    """-> (outputs, effective ops, outcomes): indices are reduced modulo the size of the pool of builder
    objects; outcome per effective op is 'push' (a builder was added), 'out' (an output: text or error
    enum) or 'none'"""
    import warnings

    sc, cif, metadata = _mods()
    pool = []
    outs = []
    eff = []
    outcome = []
    for op in ops:
        kind = op[0]
        if kind != 'new':
            if not pool:
                continue
            op = (kind, op[1] % len(pool)) + tuple(op[2:])
        eff.append(op)
        try:
            with warnings.catch_warnings():
                warnings.simplefilter('ignore')
                if kind == 'new':
                    pool.append(cif.CIF(op[1], comment=op[2]))
                    outcome.append('push')
                    continue
                b = pool[op[1]]
                res = 'push'
                if kind == 'copy':
                    nb = b.copy()
                elif kind == 'authors':
                    nb = b.with_authors(*[person_impl(p) for p in op[2]])
                elif kind == 'reducers':
                    nb = b.with_reducers(*op[2])
                elif kind == 'beamline':
                    src = None if op[4] is None else metadata.Source(
                        source_type=getattr(metadata.SourceType, SRC[op[4]]),
                        probe=metadata.RadiationProbe.Xray if op[4] == 'x' else metadata.RadiationProbe.Neutron)
                    nb = b.with_beamline(metadata.Beamline(name=op[2], facility=op[3]), src, comment=op[5])
                elif kind == 'powder':
                    nb = b.with_reduced_powder_data(powder_impl(op[2]), comment=op[2]['comment'])
                elif kind == 'calib':
                    nb = b.with_powder_calibration(calib_impl(op[2]), comment=op[2]['comment'])
                else:
                    nb = None
                    res = 'none'
                    if kind == 'setname':
                        b.name = op[2]
                    elif kind == 'setcomment':
                        b.comment = op[2]
                    elif kind == 'save':
                        f = io.StringIO()
                        b.save(f)
                        outs.append(f.getvalue())
                        res = 'out'
                    elif kind == 'savec':
                        f = io.StringIO()
                        cif.save_cif(f, b, comment=op[2])
                        outs.append(f.getvalue())
                        res = 'out'
                if nb is not None:
                    pool.append(nb)
                outcome.append(res)
        except Exception as e:  # noqa: BLE001
            outs.append(err_enum(e))
            outcome.append('out')
    return outs, eff, outcome


def unit_text(u):
    sc, _, _ = _mods()
    return 'None' if u is None else str(sc.Unit(u))


def w_person(p):
    return [enc(p['name']), enc(p['email'] or ''), enc(p['address'] or ''), enc(orcid_url(p['orcid']) or ''),
            enc(p['role'] or ''), '1' if p['corr'] else '0']


def num_tok(x):
    return str(x) if isinstance(x, int) else repr(float(x))


def w_program(eff, outs, outcome, variant, consts):
    """protocol line for the effective ops; dates and schema orders are taken from the outputs"""
    words = ['c14.prog', variant] + [enc(x) for x in consts['core']] + [enc(x) for x in consts['pd']] + [enc(consts['version'])]
    body = []
    oi = 0
    pool_has_pd = []       # per builder object: does its content use the pd schema
    for op, res in zip(eff, outcome):
        kind = op[0]
        t = None
        if res == 'out':
            t = outs[oi]
            oi += 1
        if kind == 'new':
            body += ['new', enc(op[1]), enc(op[2])]
            if res == 'push':
                pool_has_pd.append(False)
            continue
        i = op[1]
        if kind == 'copy':
            body += ['copy', str(i)]
        elif kind == 'authors':
            body += ['authors', str(i), str(len(op[2]))]
            for p in op[2]:
                body += w_person(p)
        elif kind == 'reducers':
            body += ['reducers', str(i), str(len(op[2]))] + [enc(x) for x in op[2]]
        elif kind == 'beamline':
            body += ['beamline', str(i), enc(op[2])] + (['0'] if op[3] is None else ['1', enc(op[3])]) + [op[4] or '-', enc(op[5])]
        elif kind == 'powder':
            p = op[2]
            n = len(p['vals'])
            body += ['powder', str(i), enc(p['comment']), enc(p['dim']), enc(unit_text(p['cunit'])), enc(p['name']),
                     enc(unit_text(p['dunit'])), '1' if p['dunit'] == 'one' else '0', str(n)]
            body += [enc(str(j)) for j in range(n)] + [enc(num_tok(x)) for x in p['coord']]
            body += ['0'] if p['cvar'] is None else ['1'] + [enc(repr(math.sqrt(x))) for x in p['cvar']]
            body += [enc(num_tok(x)) for x in p['vals']]
            body += ['0'] if p['var'] is None else ['1'] + [enc(repr(math.sqrt(x))) for x in p['var']]
        elif kind == 'calib':
            c = op[2]
            n = len(c['coeffs'])
            body += ['calib', str(i), enc(c['comment']), str(n)] + [enc(num_tok(x)) for x in c['powers']]
            body += [enc(num_tok(x)) for x in c['coeffs']]
            body += ['0'] if c['var'] is None else ['1'] + [enc(repr(math.sqrt(x))) for x in c['var']]
        elif kind == 'setname':
            body += ['setname', str(i), enc(op[2])]
        elif kind == 'setcomment':
            body += ['setcomment', str(i), enc(op[2])]
        elif kind in ('save', 'savec'):
            t = t or 'err:missing'
            m = DATE_RE.search(t) if not t.startswith('err:') else None
            date = m.group(1) if m else '1970-01-01T00:00:00+00:00'
            sset = [consts['core']] + ([consts['pd']] if pool_has_pd[i] else [])
            perm = perms_for(t, [sset])[0]
            if kind == 'save':
                body += ['save', str(i), enc(date), str(len(perm))] + [str(x) for x in perm]
            else:
                body += ['savec', str(i), enc(op[2]), enc(date), str(len(perm))] + [str(x) for x in perm]
        if res == 'push':
            pool_has_pd.append(pool_has_pd[i] or kind in ('powder', 'calib'))
    return ' '.join(words + [str(len(eff))] + body)


def unit_ok(p):
    sc, _, _ = _mods()
    want = {'tof': 'us', 'dspacing': 'angstrom'}[p['dim']]
    return p['cunit'] is not None and sc.Unit(p['cunit']) == sc.Unit(want)


# ---- oracle for builder outputs -------------------------------------------------------------------

def builder_state_sim(eff):
    """what was *supplied* to each builder object (pure bookkeeping of the calls, no formatting)"""
    pool = []
    saves = []
    for op in eff:
        kind = op[0]
        if kind == 'new':
            if not re.search(r'[ \t\n]', backslashreplace(op[1])):
                pool.append({'name': op[1], 'comment': op[2], 'authors': [], 'reducers': [], 'content': []})
            else:
                saves.append(None)
            continue
        i = op[1]
        b = pool[i]
        cp = lambda: {k: (list(v) if isinstance(v, list) else v) for k, v in b.items()}  # noqa: E731
        if kind == 'setname':
            # the setter stores the name before it validates it: an object whose name was rejected keeps
            # the bad name and rejects every later call until a valid name is set
            b['name'] = op[2]
            if re.search(r'[ \t\n]', backslashreplace(op[2])):
                saves.append(None)
            continue
        if kind == 'setcomment':
            b['comment'] = op[2]
            continue
        if re.search(r'[ \t\n]', backslashreplace(b['name'])):
            saves.append(None)
            continue
        if kind == 'copy':
            pool.append(cp())
        elif kind == 'authors':
            n = cp()
            n['authors'] += op[2]
            pool.append(n)
        elif kind == 'reducers':
            n = cp()
            n['reducers'] += op[2]
            pool.append(n)
        elif kind == 'beamline':
            n = cp()
            n['content'].append(('beamline', op))
            pool.append(n)
        elif kind == 'powder':
            p = op[2]
            if p['dim'] in ('tof', 'dspacing') and unit_ok(p) and p['name'] in ('', 'intensity_net', 'intensity_norm', 'intensity_total'):
                n = cp()
                n['content'].append(('powder', p))
                pool.append(n)
            else:
                saves.append(None)
        elif kind == 'calib':
            n = cp()
            n['content'].append(('calib', op[2]))
            pool.append(n)
        elif kind == 'save':
            saves.append(cp())
        elif kind == 'savec':
            n = cp()
            if op[2]:
                n['comment'] = op[2]
            saves.append(n)
    return saves


def str_eq(parsed, supplied):
    return cif_strip(parsed) == cif_strip(backslashreplace(supplied))


def floats_eq(toks, vals):
    try:
        return len(toks) == len(vals) and all(float(t) == float(v) for t, v in zip(toks, vals))
    except ValueError:
        return False


def check_builder_text(text, st, consts, now):
    """property on one saved builder file, against what was supplied -> None or description"""
    if any(ord(c) > 127 for c in text):
        return 'non-ASCII character in the output'
    try:
        blocks = py_parse(text)
    except CifSyntaxError as e:
        return f'not valid CIF 1.1: {e.why}'
    if len(blocks) != 1:
        return f'{len(blocks)} blocks'
    name, items = blocks[0]
    if name != backslashreplace(st['name']):
        return f'block name {name!r} for {st["name"]!r}'
    it = iter(items)

    def nxt():
        return next(it, None)

    x = nxt()
    if not (x and x[0] == 'L' and x[1] == ['audit_conform.dict_name', 'audit_conform.dict_version', 'audit_conform.dict_location']):
        return 'schema loop missing'
    rows = {tuple(x[2][i:i + 3]) for i in range(0, len(x[2]), 3)}
    want = {consts['core']} | ({consts['pd']} if any(k in ('powder', 'calib') for k, _ in st['content']) else set())
    if rows != want:
        return f'schema rows {rows}'
    x = nxt()
    if not (x and x[0] == 'P' and x[1] == 'audit.creation_date'):
        return 'creation date missing'
    try:
        t = datetime.fromisoformat(x[2])
    except ValueError:
        return f'creation date {x[2]!r}'
    if abs(t - now) > timedelta(seconds=600):
        return f'creation date {x[2]!r} is not now'
    x = nxt()
    if not (x and x[0] == 'P' and x[1] == 'audit.creation_method' and str_eq(x[2], 'Written by scippneutron ' + consts['version'])):
        return 'creation method'
    red = st['reducers']
    if len(red) == 1:
        x = nxt()
        if not (x and x[0] == 'P' and x[1] == 'computing.diffrn_reduction' and str_eq(x[2], red[0])):
            return f'single reducer: {x!r}'
    elif len(red) > 1:
        x = nxt()
        if not (x and x[0] == 'L' and x[1] == ['computing.diffrn_reduction'] and len(x[2]) == len(red)
                and all(str_eq(a, b) for a, b in zip(x[2], red))):
            return f'reducers loop: {x!r}'
    # authors
    author_ids = []
    role_of = {}
    for cat, corr in (('audit_contact_author', True), ('audit_author', False)):
        people = [p for p in st['authors'] if p['corr'] == corr]
        if not people:
            continue
        fields = [('name', [p['name'] for p in people]), ('email', [p['email'] or '' for p in people]),
                  ('address', [p['address'] or '' for p in people]), ('id_orcid', [orcid_url(p['orcid']) or '' for p in people])]
        fields = [(k, v) for k, v in fields if any(v)]
        with_role = any(p['role'] for p in people)
        tags = [f'{cat}.{k}' for k, _ in fields] + ([f'{cat}.id'] if with_role else [])
        if not tags:
            continue
        if len(people) == 1:
            got = {}
            for _ in tags:
                x = nxt()
                if not (x and x[0] == 'P'):
                    return f'{cat}: pair expected, got {x!r}'
                got[x[1]] = [x[2]]
            if list(got) != tags:
                return f'{cat}: tags {list(got)} expected {tags}'
        else:
            x = nxt()
            if not (x and x[0] == 'L' and x[1] == tags and len(x[2]) == len(tags) * len(people)):
                return f'{cat}: loop with tags {tags} x {len(people)} expected, got {x!r}'
            got = {t: x[2][j::len(tags)] for j, t in enumerate(tags)}
        for k, v in fields:
            if not all(str_eq(a, b) for a, b in zip(got[f'{cat}.{k}'], v)):
                return f'{cat}.{k}: {got[f"{cat}.{k}"]!r} for {v!r}'
        if with_role:
            ids = got[f'{cat}.id']
            author_ids += ids
            for i_, p in zip(ids, people):
                if p['role']:
                    role_of[i_] = p['role']
    if len(set(author_ids)) != len(author_ids):
        return f'author ids not unique: {author_ids}'
    if any(p['role'] for p in st['authors']):
        x = nxt()
        if not (x and x[0] == 'L' and x[1] == ['audit_author_role.id', 'audit_author_role.role']):
            return f'role loop expected, got {x!r}'
        rid, rrole = x[2][0::2], x[2][1::2]
        for i_, r in zip(rid, rrole):
            if author_ids.count(i_) != 1:
                return f'role id {i_!r} refers to {author_ids.count(i_)} author ids {author_ids}'
            if i_ not in role_of or not str_eq(r, role_of[i_]):
                return f'role {r!r} of id {i_!r} is not the role supplied for that author'
        if sorted(rid) != sorted(role_of):
            return f'roles written for {rid}, supplied for {sorted(role_of)}'
    # content in call order
    for kind, c in st['content']:
        if kind == 'beamline':
            op = c
            fac = op[3]
            known = (fac or '').lower() in ('csns', 'ess', 'isis', 'j-parc', 'lanscesinq', 'sns')
            src = op[4]
            probe = {'s': 'neutron', 'r': 'neutron', 'x': 'x-ray'}.get(src, 'neutron' if known else None)
            device = {'s': 'spallation', 'r': 'nuclear', 'x': 'synch'}.get(src, 'spallation' if known else None)
            want_pairs = [('diffrn_radiation.probe', probe), ('diffrn_source.beamline', op[2]),
                          ('diffrn_source.facility', fac), ('diffrn_source.device', device)]
            for k, v in want_pairs:
                if v is None:
                    continue
                x = nxt()
                if not (x and x[0] == 'P' and x[1] == k and str_eq(x[2], v)):
                    return f'beamline: {k}={v!r} expected, got {x!r}'
        elif kind == 'powder':
            p = c
            cname = {'tof': 'pd_meas.time_of_flight', 'dspacing': 'pd_proc.d_spacing'}[p['dim']]
            dname = 'pd_proc.' + (p['name'] or 'intensity_norm')
            cols = [('pd_data.point_id', list(range(len(p['vals'])))), (cname, p['coord'])]
            if p['cvar'] is not None:
                cols.append((cname + '_su', [math.sqrt(v) for v in p['cvar']]))
            cols.append((dname, p['vals']))
            if p['var'] is not None:
                cols.append((dname + '_su', [math.sqrt(v) for v in p['var']]))
            x = nxt()
            if not (x and x[0] == 'L' and x[1] == [k for k, _ in cols]):
                return f'powder loop tags {[k for k, _ in cols]} expected, got {x and x[:2]!r}'
            for j, (k, v) in enumerate(cols):
                if not floats_eq(x[2][j::len(cols)], v):
                    return f'powder column {k}: {x[2][j::len(cols)][:4]} ... for {v[:4]} ...'
        elif kind == 'calib':
            cc = c
            x = nxt()
            tags = ['pd_calib_d_to_tof.id', 'pd_calib_d_to_tof.power', 'pd_calib_d_to_tof.coeff'] + (
                ['pd_calib_d_to_tof.coeff_su'] if cc['var'] is not None else [])
            if not (x and x[0] == 'L' and x[1] == tags):
                return f'calibration loop tags expected {tags}, got {x and x[:2]!r}'
            m = len(tags)
            if not floats_eq(x[2][1::m], cc['powers']) or not floats_eq(x[2][2::m], cc['coeffs']):
                return 'calibration powers/coefficients'
            if cc['var'] is not None and not floats_eq(x[2][3::m], [math.sqrt(v) for v in cc['var']]):
                return 'calibration su column is not sqrt(variance)'
            ids = x[2][0::m]
            for i_, pw in zip(ids, cc['powers']):
                want_id = {0: 'ZERO', 1: 'DIFC', 2: 'DIFA', -1: 'DIFB'}.get(pw)
                if want_id is not None and i_ != want_id:
                    return f'calibration id {i_!r} for power {pw}'
            if len(set(ids)) != len(set(cc['powers'])):
                return f'calibration ids {ids} not distinct for powers {cc["powers"]}'
    x = nxt()
    if x is not None:
        return f'extra item {x!r}'
    return None


def builder_strings(st):
    for p in st['authors']:
        yield from (p['name'], p['address'] or '', p['role'] or '')
    yield from st['reducers']
    for kind, c in st['content']:
        if kind == 'beamline':
            yield c[2]
            if c[3] is not None:
                yield c[3]


def oracle_program(ctx, ops, consts):
    outs, eff, _ = run_program_impl(ops, consts)
    now = datetime.now(UTC)
    sts = builder_state_sim(eff)
    if len(sts) != len(outs):
        _report(ctx, 'C14:builder-outputs', f'{len(outs)} outputs for {len(sts)} expected', {'kind': 'prog', 'ops': ops})
        return
    for text, st in zip(outs, sts):
        if st is None:
            if not text.startswith('err:'):
                _report(ctx, 'C14:builder-accepts-invalid', 'invalid input accepted', {'kind': 'prog', 'ops': ops})
            continue
        if text.startswith('err:'):
            _report(ctx, 'C14:writer-raises', f'builder raised {text}', {'kind': 'prog', 'ops': ops})
            continue
        d = check_builder_text(text, st, consts, now)
        if d is None:
            ctx.count('oracle:builder-ok')
            continue
        if st['name'] == '' and 'empty block name' in d:
            _report(ctx, 'C14:empty-block-name', "empty block name gives a bare 'data_' (no block heading in CIF 1.1)",
                          {'kind': 'prog', 'ops': [('new', '', ''), ('save', 0)]})
            continue
        bad = False
        for v in dict.fromkeys(builder_strings(st)):
            f = value_failure(v, consts)
            if f:
                bad = True
                _report(ctx, value_class(backslashreplace(v)), f'string value does not survive ({f[0]}): {f[1]}',
                              {'kind': 'value', 'value': v, 'context': f[0]})
        if bad:
            ctx.count('oracle:builder-with-bad-values')
            continue
        _report(ctx, 'C14:builder-document', d, {'kind': 'prog', 'ops': ops})


# =================================================================================================
# correspondence
# =================================================================================================

# The model variant compared with the implementation: "11" = the code as it stands (quoting decision of
# commit 667eecd, escaped file comment of 0de43de).  It is fixed, not probed: a regression of either
# repair makes the correspondence disagree and the oracle report the defect class again.
VARIANT = '11'


def canon_py_blocks(text):
    try:
        return py_parse(text)
    except CifSyntaxError:
        return None


def load_corpus():
    import json
    import os

    path = os.path.join(os.path.dirname(os.path.dirname(os.path.dirname(os.path.abspath(__file__)))), 'corpus', 'C14', 'corpus.json')
    if not os.path.exists(path):
        return {'values': [], 'docs': [], 'progs': []}
    with open(path, encoding='utf-8') as f:
        c = json.load(f)
    return c


def correspond(ctx):
    consts = get_consts()
    variant = VARIANT
    rng = ctx.rng

    # (a) single values: _format_value vs formatValue
    _, cif, _ = _mods()
    corpus = load_corpus()
    vals = list(dict.fromkeys(corpus['values'] + G.KNOWN_BAD + G.KNOWN_GOOD + G.KEYWORDS + G.SPECIAL + G.NONASCII + ['\udc80', 'a\udfffb']
                              + [G.gen_value(rng) for _ in range(ctx.n(8000, 150000))]))
    outs = ctx.driver([f'c14.fmt {variant[0]} {enc(v)}' for v in vals])
    for v, o in zip(vals, outs):
        impl = cif._format_value(v)
        ctx.case(('fmt', v), True, sample={'op': 'fmt', 'value': v, 'impl': impl})
        ctx.count('fmt:' + ('text-field' if impl.startswith(';') and '\n' in impl else 'single' if impl[:1] == "'" else
                            'double' if impl[:1] == '"' else 'bare'))
        if G.dec(o) != impl:
            ctx.disagree({'op': 'fmt', 'value': v}, impl, G.dec(o))

    # (b) documents: text equality, and the two independent readers on the produced text
    docs = [d['doc'] for d in corpus['docs']] + [gen_doc(rng, hostile=(i % 3 != 0)) for i in range(ctx.n(2000, 40000))]
    texts = [doc_impl_text(d, consts) for d in docs]
    lines = []
    for d, t in zip(docs, texts):
        perms = perms_for(t, [canonical_schema_set(b, consts) for b in d['blocks']])
        lines.append(w_doc(d, perms, variant, consts))
    outs = ctx.driver(lines)
    parse_in = []
    for d, t, o in zip(docs, texts, outs):
        model = o if o.startswith('err:') else G.dec(o)
        ctx.case(('doc', repr(d)), True, sample={'op': 'save', 'doc': d, 'impl': t[:300]} if len(repr(d)) < 1500 else None)
        ctx.count('doc:' + ('rejected' if t.startswith('err:') else f'{d["mode"]}:{len(d["blocks"])}blocks'))
        for b in d['blocks']:
            for it in b['items']:
                ctx.count('item:' + ('chunk' if it['k'] == 'C' else 'loop'))
        if model != t:
            ctx.disagree({'op': 'save', 'doc': d}, t, model, 'text of the model differs from the text of the implementation')
        if not t.startswith('err:'):
            parse_in.append(t)
        # the same document goes through the property oracle, so that on one and the same text
        # Lean reader == Python reader (below) and Python reader == supplied structure (here)
        oracle_doc(ctx, d, consts, 'corr')
    _correspond_parsers(ctx, parse_in)

    # (c) builder programs
    progs = [p['ops'] for p in corpus['progs']] + [gen_program(rng) for _ in range(ctx.n(1200, 25000))]
    lines, impl_outs = [], []
    for ops in progs:
        outs_i, eff, outcome = run_program_impl(ops, consts)
        impl_outs.append((outs_i, eff))
        lines.append(w_program(eff, outs_i, outcome, variant, consts))
    outs = ctx.driver(lines)
    parse_in = []
    for ops, (outs_i, eff), o in zip(progs, impl_outs, outs):
        model = [x if x.startswith('err:') else G.dec(x) for x in o.split(' ')] if o else []
        ctx.case(('prog', repr(eff)), True, sample={'op': 'prog', 'ops': [op[0] for op in eff], 'n_outputs': len(outs_i)})
        for op in eff:
            ctx.count('op:' + op[0])
        if model != outs_i:
            k = next((j for j, (a, b) in enumerate(zip(model, outs_i)) if a != b), min(len(model), len(outs_i)))
            ctx.disagree({'op': 'prog', 'ops': eff, 'output': k}, outs_i[k] if k < len(outs_i) else None,
                         model[k] if k < len(model) else None, 'builder program outputs differ')
        parse_in += [t for t in outs_i if not t.startswith('err:')]
        oracle_program(ctx, ops, consts)
    _correspond_parsers(ctx, parse_in[:ctx.n(1000, 10000)])

    # (d) tokenizer on hostile raw text (not produced by the writer): Lean reader vs Python reader
    raw = []
    for _ in range(ctx.n(4000, 100000)):
        n = rng.randrange(1, 7)
        raw.append(''.join(rng.choice(['data_b', ' ', '\n', '\t', '_t', "'", '"', ';', '#', 'loop_', 'v', "a'b", '\n;', ';\n',
                                       ' x ', '$f', '[', 'global_', 'stop_', 'save_', 'DATA_Q', "' ", '" ', '\r', '\r\n', 'µ',
                                       '_', 'data_', '_t v', '\n_t v\n', 'loop_ _a _b 1 2', ' 3 ']) for _ in range(n * 2)))
    _correspond_parsers(ctx, raw, kind='raw')


def _correspond_parsers(ctx, texts, kind='written'):
    if not texts:
        return
    outs = ctx.driver([f'c14.parse {enc(t)}' for t in texts])
    for t, o in zip(texts, outs):
        lean = G.parse_driver_blocks(o)
        py = canon_py_blocks(t)
        ctx.case(('parse', t), True)
        ctx.count(f'parse:{kind}:' + ('invalid' if py is None else 'valid'))
        if lean != py:
            ctx.disagree({'op': 'parse', 'text': t[:2000]}, py, lean, 'the Lean reader and the Python reader disagree')


# =================================================================================================
# oracle
# =================================================================================================

def oracle(ctx, deep):
    consts = get_consts()
    rng = ctx.rng
    corpus = load_corpus()
    for d in corpus['docs']:
        ctx.case(('oracle-corpus-doc', repr(d['doc'])), True)
        oracle_doc(ctx, d['doc'], consts, 'corpus')
    for p in corpus['progs']:
        ctx.case(('oracle-corpus-prog', repr(p['ops'])), True)
        oracle_program(ctx, p['ops'], consts)
    # single values, every context
    vals = list(dict.fromkeys(corpus['values'] + G.KNOWN_BAD + G.KNOWN_GOOD + G.KEYWORDS + G.SPECIAL + G.NONASCII
                              + [G.gen_value(rng) for _ in range(20000 if deep else ctx.n(4000, 60000))]))
    for v in vals:
        f = value_failure(v, consts)
        ctx.case(('oracle-value', v), True)
        if f:
            _report(ctx, value_class(backslashreplace(v)), f'string value does not survive ({f[0]}): {f[1]}',
                          {'kind': 'value', 'value': v, 'context': f[0]})
    # numbers
    for _ in range(5000 if deep else ctx.n(1500, 30000)):
        v = gen_scalar(rng)
        if v[0] in ('s', 'vs'):
            continue
        d = value_doc('x', 'pair')
        d['blocks'][0]['items'][0]['pairs'][0][1] = v
        ctx.case(('oracle-number', repr(v)), True)
        r = check_doc_text(doc_impl_text(d, consts), d, consts)
        if r:
            _report(ctx, 'C14:number', f'number does not survive: {r[1]}', {'kind': 'doc', 'doc': d})
    # documents
    for i in range(4000 if deep else ctx.n(1200, 20000)):
        doc = gen_doc(rng, hostile=(i % 2 == 0))
        ctx.case(('oracle-doc', repr(doc)), True)
        oracle_doc(ctx, doc, consts, 'doc')
    # builder programs
    for _ in range(3000 if deep else ctx.n(1000, 15000)):
        ops = gen_program(rng)
        ctx.case(('oracle-prog', repr(ops)), True)
        oracle_program(ctx, ops, consts)


def _tuplify(x):
    if isinstance(x, list):
        return tuple(_tuplify(i) for i in x)
    if isinstance(x, dict):
        return {k: _tuplify(v) for k, v in x.items()}
    return x


def _doc_from_json(d):
    """JSON turns tuples into lists; value specs are used positionally so lists are fine, but pairs/cols
    must stay mutable lists"""
    return d


class _Collect:
    def __init__(self):
        self.v = []

    def violation(self, key, what, witness):
        self.v.append((key, what))

    def count(self, *a, **k):
        pass

    def case(self, *a, **k):
        pass


def replay(ctx, payload):
    consts = get_consts()
    w = payload.get('witness', {})
    kind = w.get('kind')
    c = _Collect()
    if kind == 'value':
        _value_cache.clear()
        f = value_failure(w['value'], consts)
        print('value', repr(w['value']), '->', f)
        return f is not None
    if kind == 'doc':
        oracle_doc(c, w['doc'], consts, 'replay')
    elif kind == 'prog':
        oracle_program(c, w['ops'], consts)
    else:
        print('no replay for this payload')
        return False
    for k, what in c.v:
        print(k, what)
    return bool(c.v)
