"""C12 — every SQW file written is a structurally complete, self-consistent container."""
from __future__ import annotations

import os
import tempfile

from .. import sqwlib as L
from ..translate import sqw as tr_sqw

PROP = 'C12'
LEAN_TARGETS = ['ScnVerif.Props.C12']
PROPS_FILE = 'ScnVerif/Props/C12.lean'
TRANSLATORS = [tr_sqw.translate]
RULE = (
    'builder programs: every subset of the five calls (quick: one order each; thorough: all 326 ordered subsets), '
    'random programs with repeated calls, byte order native/little/big, BytesIO and real files (nested directories, output-target histories: a path that already holds a larger / smaller / equally long file, a file written before by another builder program, a replaced directory entry; a BytesIO already holding data, positioned at 0 or at its end, '
    'file names up to 200 chars), titles/paths/labels of length 0..300, 0..1e5 pixels, add_pixel_data with the nine default rows or a custom selection of 1..12 rows (reordered, repeated, custom stored units) and coordinates of dtype float64/float32/int64/int32, chunk sizes from '
    '{1,2,3,8,9,10,npix-1,npix,npix+1,8192,1e5}, 1..20 runs. Every case is built with the real SqwBuilder; files up to '
    '160 kB are decoded by the Lean decoder and re-encoded by the Lean builder model (the whole file must be identical byte for byte), all '
    'files are checked by the independent Python decoder. A case is distinct by (call sequence, byte order, target, '
    'chunk, pixel count/seed/units, run count, string lengths).'
)
ASSUMPTIONS = [
    'every length/size/extent fits its on-disk field (u8 rank, u32 sizes, u64 positions); beyond that Python raises OverflowError',
    'time stamps are inputs of the model (read from their decoded fields of the real file before the byte comparison)',
    'that open(path, "wb") truncates an existing path is modelled (openWb) and validated by the output-target '
    'histories of the correspondence run (existing larger/smaller/equal files, files of other programs, replaced '
    'entries, prefilled BytesIO), not proved; files above 160 kB are judged by the Python decoder only',
]
TRUSTED = [
    'translator harness/translate/sqw.py (ast walk of _build.py/_models.py/_sqw.py)',
    'modelled, not verified: SqwBuilder, write_object_array and the model classes (Model/Sqw/*.lean), compared byte for '
    'byte with the implementation on every run',
    'independent Python decoder in harness/sqwlib.py (used for the largest files and as the direct oracle)',
]


def _tier(ctx, deep=False):
    if ctx.quick and not deep:
        return dict(n_random=110, all_orders=False, sweep_npix=[9, 10, 27, 100], big=[(100000, 8192), (20000, 99)], n_non_ascii=12)
    return dict(n_random=5000 if not deep else 400, all_orders=True,
                sweep_npix=[0, 1, 2, 8, 9, 10, 11, 17, 18, 19, 27, 100, 1000, 8191, 8192, 8193],
                big=[(100000, 8192), (100000, 100000), (100000, 99999), (100000, 100001), (100000, 1000), (100000, 9),
                     (100000, 10), (30000, 1)], n_non_ascii=150)


def _order_crosscheck(ctx):
    from scippneutron.io.sqw import _build

    names = [('pix', 'data_wrap'), ('pix', 'metadata'), ('experiment_info', 'expdata'), ('experiment_info', 'samples'),
             ('experiment_info', 'instruments'), ('data', 'nd_data'), ('data', 'metadata'), ('', 'detpar'), ('', 'main_header')]
    real = list(_build._to_canonical_block_order({n: 1 for n in names}))
    gen = ctx.driver(['c12.order'])[0]
    gen = [tuple(bytes.fromhex(x).decode() if x != '-' else '' for x in e.split(':')) for e in gen.split(';')]
    ctx.case(('order-table',), True)
    if [n for n in real if n in gen] != gen or set(real) != set(gen):
        ctx.disagree('canonical block order table', real, gen, 'translator output differs from _to_canonical_block_order')


def correspond(ctx):
    try:
        _order_crosscheck(ctx)
    except Exception as e:  # noqa: BLE001
        ctx.disagree('canonical block order table', f'raises {type(e).__name__}', 'order', '_to_canonical_block_order failed')
    with tempfile.TemporaryDirectory(prefix='scn_c12_') as td:
        batch = []
        for case in L.case_stream(ctx, **_tier(ctx)):
            data, target, exc = L.try_build(case, td)
            if exc is not None:
                ctx.disagree({'calls': [op['k'] for op in case['ops']], 'id': case['id']}, f'raises {type(exc).__name__}',
                             'a file', 'the real builder raises on a valid program; the model writes a file')
                continue
            L.count_case(ctx, case, len(data))
            ctx.case(L.case_ident(case), True, sample=L.sample_of(case, len(data)))
            batch.append((case, data))
            if case['target'] == 'file':
                os.remove(target)
            if sum(len(d) for _, d in batch) > 8_000_000 or len(batch) >= 400:
                L.correspond_model(ctx, batch, td, 'bytes')
                batch = []
        L.correspond_model(ctx, batch, td, 'bytes')


def _check_case(ctx, case, td, classify=True):
    data, target, exc = L.try_build(case, td)
    if exc is not None:
        _report(ctx, 'C12:builder-raises', f'SqwBuilder raises {type(exc).__name__} on a valid program: {str(exc)[:100]}', {'case': case})
        return
    v = L.structure_violations(case, data) + L.reader_structure_violations(case, data, target)
    if v and L.has_non_ascii(case) and not classify:
        pass
    elif v and L.has_non_ascii(case):
        # is the failure due to the characters outside ASCII? rebuild the same program with them replaced
        plain = L.asciified(case)
        d2, t2, e2 = L.try_build(plain, td)
        if e2 is None and not (L.structure_violations(plain, d2) + L.reader_structure_violations(plain, d2, t2)):
            v = [('C12:non-ascii-string-length',
                  'a string with characters outside ASCII makes its block undecodable: the char array is declared with '
                  'len(str) characters but holds the UTF-8 bytes (' + v[0][1][:80] + ')')]
    ctx.case(('oracle',) + L.case_ident(case), True)
    ctx.count('oracle:files')
    for key, what in v:
        _report(ctx, key, what, {'case': case})
    if case['target'] == 'file' and os.path.exists(target):
        os.remove(target)


def _report(ctx, key, what, witness, cap=3):
    """the framework keeps at most 200 violations: report each class a few times only (all are counted),
    so that a frequent known finding cannot crowd out a new one"""
    seen = ctx.__dict__.setdefault('_per_key', {})
    seen[key] = seen.get(key, 0) + 1
    if seen[key] <= cap:
        ctx.violation(key, what, witness)
    else:
        ctx.count('violation:' + key)


def oracle(ctx, deep):
    """The property statement on the bytes of real files, with the independent Python decoder."""
    with tempfile.TemporaryDirectory(prefix='scn_c12_') as td:
        for case in L.case_stream(ctx, **_tier(ctx, deep)):
            _check_case(ctx, case, td)
            if deep and len(ctx.violations) >= 5:
                break


def replay(ctx, payload):
    case = payload['witness']['case']
    key = payload['key']
    with tempfile.TemporaryDirectory(prefix='scn_c12_') as td:
        _check_case(ctx, case, td)
    for v in ctx.violations:
        print(v['key'], '-', v['what'])
    return any(v['key'] == key for v in ctx.violations)


LEVEL_TEXT = (
    'Lean 4 theorems about an executable model of SqwBuilder.create (header, block allocation table with placeholder pass '
    'and position patching, canonical block order from the translator-regenerated table, regular/pixel/histogram blocks '
    'with the chunk loop as coded) and an independent strict decoder: header prefix; byte order deduced; declared size = '
    'bytes written for every block type and every chunk size >= 1 (incl. a proved counterexample for the earlier '
    'row-bounded loop); extents tile the file; the table lists exactly the blocks the calls require, each once, in an order '
    'that is a function of the SET of calls; stronger, every byte of the file depends on the program only through the last '
    'call of each kind (calls commute, last repeated call wins); every regular block decodes within its extent (nested '
    'codec round trip, any strings); the whole file is accepted by the strict decoder for every builder program whose '
    'arguments fit the on-disk fields. The model is tied to the Python code by a byte-for-byte comparison on random '
    'builder programs on every run.'
)
LEVEL_NOTE = (
    'Trusted: Lean kernel, propext/Classical.choice/Quot.sound, the ast translator, the hand transcription of the builder '
    '(validated byte for byte against the implementation on every run), the independent Python decoder used for files '
    'above 160 kB. Sizes are assumed to fit their on-disk fields (file below 4 GiB).'
)
TECHNIQUE = 'Lean 4 proof about an executable byte-level model + byte-for-byte model/implementation correspondence + independent decoders'
