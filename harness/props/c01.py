"""C01 — elastic TOF kinematics reproduce the de Broglie / Bragg definitions."""
from __future__ import annotations

import inspect
import math
from decimal import Decimal

import numpy as np

from .. import tofkernels as tk
from ..translate import tofgraph as tr_graph

PROP = 'C01'
LEAN_TARGETS = ['ScnVerif.Props.C01']
PROPS_FILE = 'ScnVerif/Props/C01.lean'
TRANSLATORS = [tr_graph.translate]
RULE = (
    'per kernel (9 elastic kernels of conversion/tof.py; quick 6000 correspondence + 5000 oracle cases per kernel, thorough 150000 + 100000): operand values log-uniform over 1e-9..1e9 SI in double '
    'precision (1e-6..1e6 and results inside the float32 range as soon as one operand is float32), element types: 40 % all float64, '
    '20 % all float32, 40 % an independent type per argument from float64/float32/int64/int32 (float32 geometry with float64 data and '
    'vice versa, integer data; integer operands over the whole range the code supports: int32 to 2^31-1, int64 to 1e15, '
    'capped at sqrt(max) only for the operand energy_from_wavelength squares in integer arithmetic); tolerance by the dtype of the RESULT (float64: 1e-11, float32: 1e-5); scattering angles in (0, pi] '
    'with pi itself, 1e-12..1e-3 neighbourhoods of pi and 1e-12..1e-2 neighbourhoods of 0 over-weighted; units drawn '
    'per argument from ps/ns/us/ms/s, fm/pm/angstrom/nm/um/mm/cm/m/km (flight paths AND wavelengths), neV/ueV/meV/eV/keV/J, '
    'deg/rad, 1/pm,1/angstrom,1/nm,1/um,1/mm,1/m; operand '
    'shapes scalar, 1-d, 2-d broadcast with per-pixel geometry, 1-d data with scalar geometry, and binned (event) '
    'data. One case = one array element; a case is non-trivial when the kernel returns a finite value that is '
    'compared against the Lean model (correspondence) or the exact formula (oracle); distinct = distinct '
    '(kernel, units, dtypes, operand bit patterns).'
)
ASSUMPTIONS = [
    'standard model of floating-point rounding (fl(x op y) = (x op y)(1+d), |d| <= u, no overflow/underflow) for '
    '* / sqrt and casts: hypothesis of the *_rounding / *_within_* theorems (structure Fp.Rounding in Lemmas/FlModel.lean); the theorems '
    'cover float operands and integer literals, every mix of float64/float32',
    'the computed sin(two_theta/2) (libm sin, deg->rad conversion) is within the stated number of roundings of the '
    'exact value: hypothesis of the rounding theorems for the angle-dependent kernels; validated by the oracle '
    'against a 60-digit decimal sine on every case',
    'single precision: operands restricted to 1e-6..1e6 SI and results to 1e-30..1e30 so that no float32 '
    'intermediate overflows or underflows',
    'scipp.to_unit multiplies by the ratio of the unit scales; unit scales as in harness/tofkernels.SCALE '
    '(checked against scipp on every run)',
]
TRUSTED = [
    'translator harness/translate/tofgraph.py (imports conversion/graph/tof.py, reads _GRAPH_DYNAMICS_BY_ORIGIN and '
    'inspect.signature of each kernel)',
    'modelled, not verified: the 9 elastic kernels of conversion/tof.py, _utils.as_float_type/float_dtype, scipp '
    'dtype promotion of + - * / ** sin sqrt (Model/TofKernels.lean)',
    'exact reference: 60-digit decimal arithmetic, Taylor sine, Machin pi (harness/tofkernels.py)',
]

SHAPES = ['scalar', '1d', '2d', 'mixed', 'binned']
C01_UNITS = tk.UNITS  # the same SI-prefixed grid as C07: fm..km, ps..s, neV..J (keV), 1/pm..1/m, deg/rad


# ---- building operands and calling the real kernel ------------------------------------------------

def build_operands(kernel, units, dtypes, shape, values):
    """values: dict arg -> list of n element values (already in the arg's unit / dtype).
    Returns (kwargs for the kernel, list of per-element operand dicts in result order, post)"""
    import scipp as sc

    names = [a for a, _ in kernel.args]
    data = names[0]
    if shape == 'scalar':
        kw = {a: tk.make_var([values[a][0]], units[a], dtypes[a], [], []) for a in names}
        elems = [{a: values[a][0] for a in names}]
        return kw, elems, lambda r: np.asarray(r.values).reshape(-1)
    if shape == '1d':
        n = len(values[data])
        kw = {a: tk.make_var(values[a][:n], units[a], dtypes[a], ['x'], [n]) for a in names}
        elems = [{a: values[a][i] for a in names} for i in range(n)]
        return kw, elems, lambda r: np.asarray(r.values).reshape(-1)
    if shape == 'mixed':
        n = len(values[data])
        kw = {data: tk.make_var(values[data][:n], units[data], dtypes[data], ['x'], [n])}
        for a in names[1:]:
            kw[a] = tk.make_var([values[a][0]], units[a], dtypes[a], [], [])
        elems = [{data: values[data][i], **{a: values[a][0] for a in names[1:]}} for i in range(n)]
        return kw, elems, lambda r: np.asarray(r.values).reshape(-1)
    if shape == '2d':
        n = len(values[data])
        p = 3 if n >= 6 else 1
        m = n // p
        kw = {data: tk.make_var(values[data][: p * m], units[data], dtypes[data], ['spectrum', 'x'], [p, m])}
        for a in names[1:]:
            kw[a] = tk.make_var(values[a][:p], units[a], dtypes[a], ['spectrum'], [p])
        elems = [{data: values[data][i * m + j], **{a: values[a][i] for a in names[1:]}} for i in range(p) for j in range(m)]

        def post(r):
            if r.ndim == 2:
                r = r.transpose(['spectrum', 'x'])
            return np.asarray(r.values).reshape(-1)

        return kw, elems, post
    if shape == 'binned':
        n = len(values[data])
        p = 2 if n >= 4 else 1
        m = n // p
        ev = tk.make_var(values[data][: p * m], units[data], dtypes[data], ['event'], [p * m])
        begin = sc.array(dims=['spectrum'], values=[i * m for i in range(p)], unit=None, dtype='int64')
        kw = {data: sc.bins(begin=begin, dim='event', data=ev)}
        for a in names[1:]:
            kw[a] = tk.make_var(values[a][:p], units[a], dtypes[a], ['spectrum'], [p])
        elems = [{data: values[data][i * m + j], **{a: values[a][i] for a in names[1:]}} for i in range(p) for j in range(m)]
        return kw, elems, lambda r: np.asarray(r.bins.constituents['data'].values).reshape(-1)
    raise KeyError(shape)


def call_kernel(kernel, units, dtypes, shape, values):
    """-> dict(ok, err, unit, dtype, elems, out)"""
    kw, elems, post = build_operands(kernel, units, dtypes, shape, values)
    try:
        r = kernel.func()(**kw)
    except Exception as e:  # noqa: BLE001
        return {'ok': False, 'err': tk.err_kind(e), 'elems': elems}
    if shape == 'binned':
        unit, dtype = r.bins.unit, str(r.bins.constituents['data'].dtype)
    else:
        unit, dtype = r.unit, str(r.dtype)
    return {'ok': True, 'unit': unit, 'dtype': dtype, 'elems': elems, 'out': post(r)}


def _physical(kernel, units, elem):
    out = {}
    for a, kind in kernel.args:
        # SCALE['1/angstrom'] = 1e10: a Q unit's scale is in 1/m per unit, like every other scale
        out[a] = tk.exact(elem[a]) * tk.SCALE[units[a]]
    return out


def exact_value(kernel, units, elem, h, mn) -> Decimal:
    """the property's formula, in the documented output unit, exact to ~55 digits"""
    phys = _physical(kernel, units, elem)
    return kernel.ref(tk.exact(h), tk.exact(mn), phys) / tk.out_scale(kernel, units)


MODES = ['float64', 'float32', 'mixed']


def draw_mode(rng) -> str:
    r = rng.random()
    return 'float64' if r < 0.4 else 'float32' if r < 0.6 else 'mixed'


def gen_cases(rng, kernel, mode, shape, n, ranges=None):
    """mode 'float64' / 'float32': every operand of that type; 'mixed': an independent element type per argument
    (float32 geometry with float64 data and vice versa, integer data or geometry).  Any float32 operand narrows the
    value ranges to those in which no float32 intermediate overflows or underflows."""
    units = {a: rng.choice(C01_UNITS[kind]) for a, kind in kernel.args}
    if mode == 'mixed':
        dtypes = {a: rng.choice(['float64', 'float64', 'float32', 'float32', 'int64', 'int32']) for a, _ in kernel.args}
    else:
        dtypes = {a: mode for a, _ in kernel.args}
    ranges = tk.WIDE32 if 'float32' in dtypes.values() else tk.WIDE
    single = all(dtypes[a] == 'float32' for a in kernel.data)  # float32 result: huge integers would overflow float32
    values = {a: [tk.draw_value(rng, kind, units[a], dtypes[a], ranges, tk.int_cap(kernel.name, a, dtypes[a], single))
                  for _ in range(n)] for a, kind in kernel.args}
    return units, dtypes, values


def _f32_ok(x: Decimal) -> bool:
    return Decimal('1e-30') <= abs(x) <= Decimal('1e30')


def witness(kernel, units, dtypes, elem, got=None, want=None):
    return {
        'kernel': kernel.name, 'units': units, 'dtypes': dtypes,
        'operands': {a: tk.tok(elem[a], dtypes[a]) for a, _ in kernel.args},
        'operands_repr': {a: repr(elem[a]) for a, _ in kernel.args},
        'got': None if got is None else repr(float(got)), 'expected': None if want is None else f'{want:.20E}',
    }


def _viol(ctx, key, what, wit):
    """at most 3 witnesses per key go to the framework (it keeps 200 in all and writes one replay per key); the
    rest are counted"""
    if not hasattr(ctx, 'hist'):  # replay helper contexts
        ctx.violation(key, what, wit)
        return
    seen = ctx.__dict__.setdefault('_c01_seen', {})
    seen[key] = seen.get(key, 0) + 1
    if seen[key] <= 3:
        ctx.violation(key, what, wit)
    else:
        ctx.count('violation(further witnesses):' + key)


# ---- correspondence --------------------------------------------------------------------------------

def correspond(ctx):
    bad = tk.check_scales_against_scipp()
    for b in bad:
        ctx.disagree('unit scale table', b, '', 'scipp unit scale differs from the exact table of the harness')
    h, mn = tk.constants()
    rng = ctx.rng
    per_kernel = ctx.n(6000, 150000)
    batch = 24
    jobs = []
    for name in tk.ELASTIC:
        kernel = tk.KERNELS[name]
        done = 0
        while done < per_kernel:
            shape = rng.choice(SHAPES)
            units, dtypes, values = gen_cases(rng, kernel, draw_mode(rng), shape, batch)
            res = call_kernel(kernel, units, dtypes, shape, values)
            jobs.append((kernel, units, dtypes, shape, res))
            done += len(res['elems'])
    lines = []
    for kernel, units, dtypes, shape, res in jobs:
        for elem in res['elems']:
            toks = {a: tk.tok(elem[a], dtypes[a]) for a, _ in kernel.args}
            lines.append(tk.lean_line('c01', kernel, units, toks, h, mn))
    outs = ctx.driver(lines)
    k = 0
    maxdev = {'double': 0.0, 'single': 0.0}
    for kernel, units, dtypes, shape, res in jobs:
        cls = tk.result_class(res.get('dtype', 'float64'))  # tolerance of the RESULT dtype
        for i, elem in enumerate(res['elems']):
            tag, mval = tk.untok(outs[k])
            k += 1
            ident = (kernel.name, tuple(sorted(units.items())), tuple(sorted(dtypes.items())),
                     tuple(tk.tok(elem[a], dtypes[a]) for a, _ in kernel.args))
            ctx.count(f'corr:{kernel.name}:{tk.SHORT[dtypes[kernel.args[0][0]]]}:{shape}')
            ctx.count('corr:dtypes:' + ('uniform' if len(set(dtypes.values())) == 1 else 'mixed'))
            if not res['ok']:
                ctx.case(ident, True)
                ctx.count(f'corr:impl-{res["err"]}')
                if tag != 'err' or res['err'] != 'err:dtype':
                    ctx.disagree(witness(kernel, units, dtypes, elem), res['err'], outs[k - 1], 'implementation raised, model did not')
                continue
            ival = float(res['out'][i])
            model_finite = tag in ('f64', 'f32') and math.isfinite(mval) and mval != 0.0
            ctx.case(ident, model_finite, sample={'kernel': kernel.name, 'units': units, 'shape': shape,
                                                  'operands': {a: repr(elem[a]) for a in elem}, 'impl': repr(ival), 'model': outs[k - 1]})
            if tk.LONG.get(tag) != res['dtype']:
                ctx.disagree(witness(kernel, units, dtypes, elem), res['dtype'], tag, 'result dtype')
                continue
            if not model_finite:
                # overflow / underflow in the model: the implementation must then also be non-finite or zero
                if math.isfinite(ival) and ival != 0.0 and not (math.isnan(mval)):
                    ctx.count('corr:model-nonfinite')
                continue
            dev = abs(ival - mval) / abs(mval) if math.isfinite(ival) else math.inf
            maxdev[cls] = max(maxdev[cls], dev)
            if ival == mval:
                ctx.count('corr:bit-identical')
            if not dev <= 0.9 * tk.TOL[cls]:
                ctx.disagree(witness(kernel, units, dtypes, elem, ival), repr(ival), repr(mval),
                             f'relative difference {dev:.3e} above 0.9*{tk.TOL[cls]}')
    ctx.note(f'largest relative deviation implementation vs Lean model: double {maxdev["double"]:.3e}, single {maxdev["single"]:.3e}')
    _correspond_graph(ctx)


def _graph_rows(repo=None):
    from scippneutron.conversion.graph import tof as g

    rows = []
    for origin, graph in g._GRAPH_DYNAMICS_BY_ORIGIN.items():
        for target, fn in graph.items():
            outs = list(target) if isinstance(target, tuple) else [target]
            rows.append((origin, outs, fn.__name__, list(inspect.signature(fn).parameters)))
    return rows


def _correspond_graph(ctx):
    """the generated Lean table (translator output, as compiled into the driver) against the live module"""
    rows = _graph_rows()
    out = ctx.driver(['c01.graph'])[0]
    model_rows = sorted(out.split(';')) if out else []
    impl_rows = sorted(f'{o}|{",".join(t)}|{k}|{",".join(i)}' for o, t, k, i in rows)
    ctx.case(('graph-table', tuple(impl_rows)), True)
    ctx.count('corr:graph-rows', len(impl_rows))
    if model_rows != impl_rows:
        ctx.disagree('graph table', impl_rows, model_rows, 'Gen/TofGraph.lean differs from _GRAPH_DYNAMICS_BY_ORIGIN of the running module')


# ---- oracle ----------------------------------------------------------------------------------------

def _check_elements(ctx, kernel, units, dtypes, shape, res, h, mn, tag):
    if not res['ok']:
        if res['err'] == 'err:dtype' and tk.unsupported_by_scipp(kernel.name, dtypes):
            ctx.count(f'skipped:scipp-has-no-int32-pow:{kernel.name}')
            return
        for elem in res['elems'][:1]:
            ctx.case((tag, kernel.name, 'raise', tuple(sorted(units.items()))), True)
            _viol(ctx, f'C01:raises:{kernel.name}', f'{kernel.name} raised {res["err"]} on valid positive input',
                          {**witness(kernel, units, dtypes, elem), 'shape': shape})
        return
    cls = tk.result_class(res['dtype'])  # float64 result: 1e-11, float32 result: 1e-5, whatever the operand types
    want_unit = kernel.out_unit(units)
    if not tk.unit_is(res['unit'], want_unit):
        _viol(ctx, f'C01:unit:{kernel.name}', f'{kernel.name} returned unit {res["unit"]}, documented {want_unit}',
                      {**witness(kernel, units, dtypes, res['elems'][0]), 'shape': shape})
        return
    for i, elem in enumerate(res['elems']):
        want = exact_value(kernel, units, elem, h, mn)
        ident = (tag, kernel.name, tuple(sorted(units.items())), tuple(tk.tok(elem[a], dtypes[a]) for a, _ in kernel.args))
        if 'float32' in dtypes.values() and not _f32_ok(want):
            ctx.count('oracle:f32-range-skipped')
            ctx.case(ident, False)
            continue
        got = float(res['out'][i])
        ctx.case(ident, True)
        ctx.count(f'oracle:{kernel.name}:{cls}')
        ctx.count('oracle:dtypes:' + ('uniform' if len(set(dtypes.values())) == 1 else 'mixed'))
        err = tk.rel_err(got, want)
        if not err < tk.TOL[cls]:
            mixed = tk.mixed_precision_key('C01', kernel.name, dtypes, res['dtype'], err)
            _viol(ctx, mixed or f'C01:formula:{kernel.name}',
                          f'{kernel.name} is off its defining formula by {err:.3e} relative ({res["dtype"]} result, allowed {tk.TOL[cls]})'
                          + (f'; the float32 operand(s) {tk.f32_operands(dtypes)} are combined in single precision before the promotion to float64'
                             if mixed else ''),
                          {**witness(kernel, units, dtypes, elem, got, want), 'shape': shape, 'rel_err': err})


def oracle(ctx, deep):
    h, mn = tk.constants()
    rng = ctx.rng
    per_kernel = 6000 if deep else ctx.n(5000, 100000)
    batch = 24
    for name in tk.ELASTIC:
        kernel = tk.KERNELS[name]
        done = 0
        while done < per_kernel:
            shape = rng.choice(SHAPES)
            units, dtypes, values = gen_cases(rng, kernel, draw_mode(rng), shape, batch)
            res = call_kernel(kernel, units, dtypes, shape, values)
            _check_elements(ctx, kernel, units, dtypes, shape, res, h, mn, 'oracle')
            done += len(res['elems'])
    _oracle_graph(ctx, h, mn, 400 if deep else ctx.n(400, 5000))
    _oracle_routes(ctx, h, mn, 300 if deep else ctx.n(300, 3000))
    _oracle_roundtrips(ctx, h, mn, 400 if deep else ctx.n(600, 10000))


# truth of one neutron: physical SI values of every scalar coordinate of the elastic graph
def _truth(h, mn, t, L, th):
    hD, mD = tk.exact(h), tk.exact(mn)
    lam = hD * t / (mD * L)
    s = tk.dsin(th / 2)
    return {
        'tof': t, 'Ltotal': L, 'two_theta': th,
        'wavelength': lam, 'energy': mD * L ** 2 / (2 * t ** 2), 'dspacing': lam / (2 * s), 'Q': 4 * tk.PI * s / lam,
    }


CANON_UNIT = {'tof': 'us', 'Ltotal': 'm', 'two_theta': 'rad', 'wavelength': 'angstrom', 'energy': 'meV',
              'dspacing': 'angstrom', 'Q': '1/angstrom'}


def _to_unit_value(name, phys: Decimal) -> float:
    u = CANON_UNIT[name]
    return float(phys / tk.SCALE[u]) if name != 'Q' else float(phys / tk.SCALE[u])


def _draw_neutron(rng):
    t = tk.exact(tk.log_uniform(rng, 1e-6, 1.0))
    L = tk.exact(tk.log_uniform(rng, 1e-2, 1e3))
    th = tk.exact(tk.draw_value(rng, 'angle', 'rad', 'float64', tk.WIDE))
    return t, L, th


def _as_truth_var(name, truth):
    """a float64 variable holding the truth of `name` in its canonical unit; returns (variable, exact physical value
    of what was actually stored)"""
    import scipp as sc

    v = _to_unit_value(name, truth[name])
    return sc.array(dims=['x'], values=[v], unit=CANON_UNIT[name], dtype='float64'), tk.exact(v) * tk.SCALE[CANON_UNIT[name]]


def _oracle_graph(ctx, h, mn, n):
    """every entry of _GRAPH_DYNAMICS_BY_ORIGIN whose inputs and output are scalar coordinates of the elastic
    graph: fed with the truth of its inputs it must return the truth of its output"""
    import scipp as sc

    rows = _graph_rows()
    scalar = set(CANON_UNIT)
    for _ in range(n):
        t, L, th = _draw_neutron(ctx.rng)
        truth = _truth(h, mn, t, L, th)
        for origin, outs, kname, ins in rows:
            if len(outs) != 1 or outs[0] not in scalar or not set(ins) <= scalar:
                continue
            from scippneutron.conversion.graph import tof as g

            fn = g._GRAPH_DYNAMICS_BY_ORIGIN[origin][outs[0]]
            kw, stored = {}, {}
            for a in ins:
                kw[a], stored[a] = _as_truth_var(a, truth)
            # the truth of the output for the inputs as actually stored (after rounding to double)
            if 'tof' in stored:
                tr = _truth(h, mn, stored['tof'], stored['Ltotal'], stored.get('two_theta', th))
            else:
                tr = None
            ctx.case(('graph', origin, outs[0], str(t), str(L), str(th)), True)
            ctx.count(f'oracle:graph:{origin}->{outs[0]}')
            try:
                r = fn(**kw)
            except Exception as e:  # noqa: BLE001
                _viol(ctx, f'C01:graph:{origin}->{outs[0]}', f'graph entry {origin}->{outs[0]} ({kname}) raised {tk.err_kind(e)} on the truth of its inputs',
                              {'origin': origin, 'target': outs[0], 't': str(t), 'L': str(L), 'two_theta': str(th)})
                continue
            want = (tr or truth)[outs[0]] if tr else truth[outs[0]]
            try:
                got = float(sc.to_unit(r, CANON_UNIT[outs[0]]).values[0])
            except Exception:  # noqa: BLE001
                _viol(ctx, f'C01:graph:{origin}->{outs[0]}', f'graph entry {origin}->{outs[0]} ({kname}) returned unit {r.unit}',
                              {'origin': origin, 'target': outs[0], 't': str(t), 'L': str(L), 'two_theta': str(th)})
                continue
            wantv = want / tk.SCALE[CANON_UNIT[outs[0]]]
            err = tk.rel_err(got, wantv)
            # inputs other than tof/Ltotal/two_theta were rounded to double once: allow 4 roundings of slack
            if not err < 1e-11:
                _viol(ctx, f'C01:graph:{origin}->{outs[0]}',
                              f'graph entry {origin}->{outs[0]} ({kname}) does not map the truth of its inputs to the truth of its output (rel. error {err:.3e})',
                              {'origin': origin, 'target': outs[0], 'kernel': kname, 't': str(t), 'L': str(L), 'two_theta': str(th),
                               'got': repr(got), 'expected': f'{wantv:.20E}'})


def _routes(da, start, targets):
    from scippneutron.conversion.graph import tof as g

    graph = g.elastic(start)
    out = {}
    for tgt in targets:
        if tgt in graph:
            out[tgt] = da.transform_coords(tgt, graph=graph, keep_intermediate=False, keep_inputs=True, rename_dims=False).coords[tgt]
    return out


def _oracle_routes(ctx, h, mn, n):
    """all routes through the conversion graphs (sc.transform_coords with the graphs of graph/tof.py) from one
    neutron's tof to wavelength / energy / dspacing / Q: each route's result against the truth, hence pairwise.
    The coordinates tof / Ltotal / two_theta carry independent element types (float64 or float32) in 60 % of the
    cases; each route's tolerance is that of its result dtype."""
    import numpy as np

    for _ in range(n):
        t, L, th = _draw_neutron(ctx.rng)
        if ctx.rng.random() < 0.4:
            dts = ('float64', 'float64', 'float64')
        else:
            dts = tuple(ctx.rng.choice(['float64', 'float32']) for _ in range(3))
        vals = [float(t / tk.SCALE['us']), float(L), float(th)]
        vals = [float(np.float32(v)) if d == 'float32' else v for v, d in zip(vals, dts)]
        if dts[2] == 'float32':  # keep inside (0, pi] after rounding to single precision
            vals[2] = min(vals[2], float(np.nextafter(np.float32(math.pi), np.float32(0))))
        _route_one(ctx, h, mn, vals[0], vals[1], vals[2], dts)


def _route_one(ctx, h, mn, tv, Lv, thv, dts):
    import scipp as sc

    t2, L2, th2 = tk.exact(tv) * tk.SCALE['us'], tk.exact(Lv), tk.exact(thv)
    truth = _truth(h, mn, t2, L2, th2)
    wit0 = {'t_us': tk.bits64(tv), 'L_m': tk.bits64(Lv), 'two_theta_rad': tk.bits64(thv), 'dtypes': list(dts)}
    base = {'Ltotal': sc.array(dims=['x'], values=[Lv], unit='m', dtype=dts[1]),
            'two_theta': sc.array(dims=['x'], values=[thv], unit='rad', dtype=dts[2])}
    da0 = sc.DataArray(sc.ones(dims=['x'], shape=[1]),
                       coords={'tof': sc.array(dims=['x'], values=[tv], unit='us', dtype=dts[0]), **base})
    results = []  # (route description, target, variable)
    try:
        first = _routes(da0, 'tof', ['wavelength', 'energy', 'dspacing', 'Q'])
        for tgt, v in first.items():
            results.append((f'tof->{tgt}', tgt, v))
        for mid in ('wavelength', 'energy', 'Q'):
            if mid not in first:
                continue
            da1 = sc.DataArray(sc.ones(dims=['x'], shape=[1]), coords={mid: first[mid], **base})
            second = _routes(da1, mid, ['wavelength', 'energy', 'dspacing', 'Q'])
            for tgt, v in second.items():
                results.append((f'tof->{mid}->{tgt}', tgt, v))
                if tgt in ('wavelength', 'energy') and tgt != mid:
                    da2 = sc.DataArray(sc.ones(dims=['x'], shape=[1]), coords={tgt: v, **base})
                    for tgt3, v3 in _routes(da2, tgt, ['wavelength', 'energy', 'dspacing', 'Q']).items():
                        results.append((f'tof->{mid}->{tgt}->{tgt3}', tgt3, v3))
    except Exception as e:  # noqa: BLE001
        _viol(ctx, 'C01:route-raises', f'transform_coords over the elastic graphs raised {tk.err_kind(e)}: {e!s:.120}', wit0)
        return
    for route, tgt, v in results:
        ctx.case(('route', route, tk.bits64(tv), tk.bits64(Lv), tk.bits64(thv), dts), True)
        ctx.count(f'oracle:route:{route}')
        ctx.count('oracle:route-dtypes:' + ('uniform' if len(set(dts)) == 1 else 'mixed'))
        want = truth[tgt] / tk.SCALE[CANON_UNIT[tgt]]
        if not tk.unit_is(v.unit, CANON_UNIT[tgt]):
            _viol(ctx, f'C01:route-unit:{tgt}', f'route {route} yields unit {v.unit}', {'route': route, **wit0})
            continue
        err = tk.rel_err(float(v.values[0]), want)
        tol = tk.TOL[tk.result_class(str(v.dtype))]
        if not err < tol:
            names = dict(zip(('tof', 'Ltotal', 'two_theta'), dts))
            mixed = tk.mixed_precision_key('C01', 'route', names, str(v.dtype), err)
            _viol(ctx, (mixed + f'->{tgt}') if mixed else f'C01:routes-disagree:{tgt}',
                          f'route {route} yields {tgt} ({v.dtype}) off the definition by {err:.3e}, allowed {tol} (so two routes to {tgt} disagree)',
                          {'route': route, 'target': tgt, **wit0, 'got': repr(float(v.values[0])), 'expected': f'{want:.20E}'})


def _roundtrip_values(w, th, unit_w, dtype_w, dtype_th):
    """(lambda->E->lambda, lambda->Q->lambda, Q*d) evaluated on the real kernels"""
    import scipp as sc
    from scippneutron.conversion import tof as K

    wv = sc.array(dims=['x'], values=[w], unit=unit_w, dtype=dtype_w)
    tv = sc.array(dims=['x'], values=[th], unit='rad', dtype=dtype_th)
    e = K.energy_from_wavelength(wavelength=wv)
    w1 = K.wavelength_from_energy(energy=e)
    q = K.Q_from_wavelength(wavelength=wv, two_theta=tv)
    w2 = K.wavelength_from_Q(Q=q, two_theta=tv)
    d = K.dspacing_from_wavelength(wavelength=wv, two_theta=tv)
    qd = q * sc.to_unit(d, unit_w, copy=False)
    return w1, w2, qd


def _oracle_roundtrips(ctx, h, mn, n):
    for _ in range(n):
        r = ctx.rng.random()
        if r < 0.4:
            dtype_w = dtype_th = 'float64'
        elif r < 0.6:
            dtype_w = dtype_th = 'float32'
        else:
            dtype_w, dtype_th = ctx.rng.choice(['float64', 'float32']), ctx.rng.choice(['float64', 'float32'])
        unit_w = ctx.rng.choice(C01_UNITS['wavelength'])
        w = tk.draw_value(ctx.rng, 'wavelength', unit_w, dtype_w, tk.WIDE if dtype_w == 'float64' else tk.WIDE32)
        th = tk.draw_value(ctx.rng, 'angle', 'rad', dtype_th, tk.WIDE)
        wit = {'wavelength': tk.tok(w, dtype_w), 'two_theta_rad': tk.tok(th, dtype_th), 'unit': unit_w,
               'dtype': dtype_w, 'dtype_two_theta': dtype_th}
        _check_roundtrip(ctx, w, th, unit_w, dtype_w, dtype_th, wit, report=True)


def _check_roundtrip(ctx, w, th, unit_w, dtype_w, dtype_th, wit, report):
    try:
        w1, w2, qd = _roundtrip_values(w, th, unit_w, dtype_w, dtype_th)
    except Exception as e:  # noqa: BLE001
        if report:
            _viol(ctx, 'C01:roundtrip-raises', f'round trip raised {tk.err_kind(e)}', wit)
        return True
    lam = tk.exact(w) * tk.SCALE[unit_w] / tk.SCALE['angstrom']
    bad = False
    for key, var, want in (('lambda-E-lambda', w1, lam), ('lambda-Q-lambda', w2, lam), ('Q-times-d', qd, 2 * tk.PI)):
        got = float(var.values[0])
        cls = tk.result_class(str(var.dtype))
        if report:
            ctx.case(('roundtrip', key, tuple(sorted(wit.items()))), True)
            ctx.count(f'oracle:roundtrip:{key}:{cls}')
        err = tk.rel_err(got, want)
        if not err < tk.TOL[cls]:
            bad = True
            if report:
                _viol(ctx, f'C01:roundtrip:{key}', f'round trip {key} is off by {err:.3e} relative ({var.dtype} result)',
                              {**wit, 'which': key, 'got': repr(got), 'expected': f'{want:.20E}'})
    return bad


# ---- replay ----------------------------------------------------------------------------------------

def replay(ctx, payload):
    w = payload.get('witness', {})
    key = payload.get('key', '')
    h, mn = tk.constants()
    if key.startswith(('C01:formula:', 'C01:unit:', 'C01:raises:', 'C01:mixed-precision:')) and 'kernel' in w:
        kernel = tk.KERNELS[w['kernel']]
        units, dtypes = w['units'], w['dtypes']
        elem = {a: tk.untok(t)[1] for a, t in w['operands'].items()}
        shape = w.get('shape', '1d')
        n = {'scalar': 1, '1d': 1, 'mixed': 1, '2d': 1, 'binned': 1}[shape]
        res = call_kernel(kernel, units, dtypes, shape, {a: [elem[a]] * max(n, 1) for a in elem})
        if not res['ok']:
            return True
        if not tk.unit_is(res['unit'], kernel.out_unit(units)):
            return True
        want = exact_value(kernel, units, elem, h, mn)
        err = tk.rel_err(float(res['out'][0]), want)
        print(f'{kernel.name}: got {float(res["out"][0])!r} expected {want:.17E} rel.err {err:.3e}')
        return not err < tk.TOL[tk.result_class(res['dtype'])]
    if key.startswith('C01:roundtrip'):
        return _check_roundtrip(ctx, tk.untok(w['wavelength'])[1], tk.untok(w['two_theta_rad'])[1], w['unit'], w['dtype'],
                                w.get('dtype_two_theta', w['dtype']), w, report=False)
    if key.startswith(('C01:routes-disagree', 'C01:route', 'C01:mixed-precision:route')):
        import struct

        class _C:  # minimal ctx collecting violations
            def __init__(self):
                self.v = []
                self.rng = None

            def case(self, *a, **k):
                pass

            def count(self, *a, **k):
                pass

            def violation(self, key, what, wit):
                self.v.append((key, what))

        c = _C()
        vals = [struct.unpack('>d', bytes.fromhex(w[k]))[0] for k in ('t_us', 'L_m', 'two_theta_rad')]

        class _R:
            pass

        # re-run the route oracle on exactly this neutron
        import random

        c.rng = random.Random(0)
        _replay_routes(c, h, mn, *vals, w.get('dtypes', ['float64'] * 3))
        for k, what in c.v:
            print(k, what)
        return bool(c.v)
    if key.startswith('C01:graph:'):
        import random

        class _C2:
            def __init__(self):
                self.v = []

            def case(self, *a, **k):
                pass

            def count(self, *a, **k):
                pass

            def violation(self, key, what, wit):
                self.v.append((key, what))

        c = _C2()
        _replay_graph(c, h, mn, Decimal(w['t']), Decimal(w['L']), Decimal(w['two_theta']))
        for k, what in c.v:
            print(k, what)
        return bool(c.v)
    print('no specific replay for key', key)
    return False


def _replay_routes(c, h, mn, tv, Lv, thv, dts=('float64', 'float64', 'float64')):
    _route_one(c, h, mn, tv, Lv, thv, tuple(dts))


def _replay_graph(c, h, mn, t, L, th):
    global _draw_neutron
    saved = _draw_neutron
    try:
        _draw_neutron = lambda rng: (t, L, th)  # noqa: E731
        c.rng = None
        _oracle_graph(c, h, mn, 1)
    finally:
        _draw_neutron = saved


LEVEL_TEXT = (
    'Lean 4 theorems over the reals, for all positive inputs, constants and unit scales: each of the 9 elastic kernels of '
    'conversion/tof.py (the same generic definitions the driver executes against the Python code) equals its de Broglie / '
    'Bragg formula in the documented output unit; the three round trips and Q*d = 2*pi; explicit two-route agreements and a '
    'table-driven routes_agree theorem over _GRAPH_DYNAMICS_BY_ORIGIN as regenerated from the source on every run; rounding '
    'theorems under the standard model (relative error < 1e-11 double / < 1e-5 single) for every kernel, with the accuracy of the '
    'computed sine as a hypothesis. The model is tied to the code by a seeded correspondence over all kernels, units, shapes and '
    'both precisions; an independent 60-digit decimal oracle evaluates the formulas, graph entries, routes and round trips on the real code.'
)
LEVEL_NOTE = (
    'Trusted: Lean kernel, propext/Classical.choice/Quot.sound, the graph translator, the hand transcription of the kernels and of '
    "scipp's dtype promotion (compared with the implementation on every run). Validated rather than proved: libm sin / deg->rad "
    'accuracy, absence of overflow/underflow, scipp broadcasting over shapes and bins.'
)
TECHNIQUE = 'Lean 4 proof over the reals + standard-model rounding lemmas + translator-regenerated graph table + model/implementation correspondence + exact decimal oracle'
