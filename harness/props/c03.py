"""C03 — straight-beamline geometry equals its Euclidean definition; 2theta is stable."""
from __future__ import annotations

import math
from fractions import Fraction

import numpy as np

from . import _geom_hp as hp

PROP = 'C03'
LEAN_TARGETS = ['ScnVerif.Props.C03']
PROPS_FILE = 'ScnVerif/Props/C03.lean'
TRANSLATORS = []
RULE = (
    'positions/beams are drawn with log-uniform norms 1e-6..1e6 in random directions and a random length unit; '
    'a third of the cases are near-degenerate (scattered beam = ±c·incident beam + a perpendicular offset of relative '
    'size 0, 1e-16 … 1e-3, or perpendicular ± such an offset), a few are degenerate (zero beam → NaN on both sides). '
    'Every case goes through the kernels (per-pixel arrays and scalars) and through scippneutron.L1/L2/Ltotal/'
    'two_theta/incident_beam/scattered_beam on a data array, through every graph factory of conversion.graph.beamline with transform_coords, and through the Lean model (Float instance). '
    'Oracle cases: exact dyadic families (b2 = s·P(2τ,0,±(1−τ²)), τ=k/2^j, P signed permutation or 3-4-5 rotation) '
    'and random floats; the true angle of the exact binary inputs is computed with 70-digit decimals. '
    '0-d (scalar) incident/scattered beams, half of them along a coordinate axis with transverse components of 1e-16…1e-9 '
    'in the beam\'s unit (units m/mm/km/cm), go through the correspondence, the accuracy oracle and a rescaling oracle '
    '(×1e±6, 1e±12). Data arrays carrying any subset of precomputed incident_beam/scattered_beam/L1/L2/two_theta coordinates '
    'are passed to every accessor of beamline_components twice (identical results, Euclidean values, bit-identical input). '
    'Beams whose norm is 1 ± {0, 1e-16 … 1e-4} in their unit (incident, scattered, both; 0-d and arrays in which every element '
    'qualifies) are paired with nearly parallel / antiparallel / perpendicular partners in the correspondence, the accuracy oracle and '
    'a power-of-two rescaling oracle. Every entry point taking a `scatter` flag (graph.beamline.beamline / Ltotal, scn.Ltotal, keyword and positional; scn.convert) is '
    'called with the flag as bool, numpy.bool_, int, numpy.int64, sc.scalar(..).value, sc.array(..).values[i], np.any(..), '
    'sc.any(..).value of both truth values (and origin/target as str subclass / numpy.str_) and compared with the graph model and the '
    'Euclidean definition for the truth value; the stand-alone graphs L1()/L2()/two_theta()/Ltotal() run on data that already '
    'carries incident_beam/scattered_beam coordinates. '
    'A case is non-trivial when both beams are non-zero; distinct = distinct input bit patterns.'
)
ASSUMPTIONS = [
    'the 1e-15 rad accuracy clause is validated (oracle, exact-input reference, tolerance 4e-15 rad), not proved',
    'scipp applies the scalar kernel to every element of per-pixel arrays (exercised, not proved)',
    'scipp vector3 is float64 only: the float32 clause of the quantifier has no instance for these kernels',
    'libm atan2 of Lean (C runtime) and of scipp agree within 2 ulp (compared on every case)',
]
TRUSTED = [
    'modelled, not verified: straight_incident_beam, straight_scattered_beam, L1, L2, total_beam_length, '
    'total_straight_beam_length_no_scatter, two_theta (Model/Beamline.lean, operation order transcribed)',
    'decimal reference arithmetic of the oracle (harness/props/_geom_hp.py)',
]

UNITS = ['m', 'mm', 'cm', 'angstrom', 'um']
EPS = 2.0 ** -52
ACC = 4e-15  # rad, absolute (property: "accurate to about 1e-15 rad absolute")
LEN_RTOL = 1e-15  # relative, lengths (a handful of correctly rounded + × √)


# ---------------------------------------------------------------------------------------------
# generators

def _lu(rng, lo, hi):
    return math.exp(rng.uniform(math.log(lo), math.log(hi)))


def _dir(rng):
    while True:
        v = [rng.gauss(0, 1) for _ in range(3)]
        n = math.sqrt(sum(c * c for c in v))
        if n > 1e-3:
            return [c / n for c in v]


def _vec(rng, lo=1e-6, hi=1e6):
    d = _dir(rng)
    n = _lu(rng, lo, hi)
    if rng.random() < 0.1:  # axis-aligned / with exact zeros
        k = rng.randrange(3)
        d = [0.0, 0.0, 0.0]
        d[k] = rng.choice([-1.0, 1.0])
    return [c * n for c in d]


def _perp(rng, b):
    while True:
        d = _dir(rng)
        c = [b[1] * d[2] - b[2] * d[1], b[2] * d[0] - b[0] * d[2], b[0] * d[1] - b[1] * d[0]]
        n = math.sqrt(sum(x * x for x in c))
        if n > 1e-3 * math.sqrt(sum(x * x for x in b)):
            return [x / n for x in c]


OFFSETS = [0.0, 1e-16, 1e-15, 1e-14, 1e-13, 1e-12, 1e-11, 1e-10, 1e-9, 1e-8, 1e-7, 1e-6, 1e-5, 1e-4, 1e-3]


TINY = [1e-16, 1e-15, 1e-14, 1e-13, 1e-12, 1e-11, 3e-11, 9e-11, 1.1e-10, 1e-9]


def near_axis_vec(rng, axis=None, sign=None, lo=1e-6, hi=1e6):
    """a vector along a coordinate axis whose transverse components are tiny in ABSOLUTE terms (1e-16 … 1e-9 in the
    beam's unit): short beams / large units / near-axis tilts.  Norm log-uniform in [lo, hi], weighted to short."""
    axis = rng.randrange(3) if axis is None else axis
    sign = rng.choice([1.0, -1.0]) if sign is None else sign
    n = _lu(rng, lo, min(hi, 1e-3)) if rng.random() < 0.5 else _lu(rng, lo, hi)
    v = [0.0, 0.0, 0.0]
    v[axis] = sign * n
    others = [k for k in range(3) if k != axis]
    for k in others:
        if rng.random() < 0.75:
            v[k] = rng.choice([1.0, -1.0]) * rng.choice(TINY) * rng.choice([1.0, rng.uniform(0.5, 2.0)])
    if v[others[0]] == 0.0 and v[others[1]] == 0.0 and rng.random() < 0.7:
        v[rng.choice(others)] = rng.choice(TINY)
    return v


NORM_EPS = [0.0, 1e-16, 2.2e-16, 1e-15, 1e-14, 1e-13, 1e-12, 1e-11, 1e-10, 1e-9, 1e-8, 1e-7, 1e-6, 5e-6, 9e-6, 1.1e-5, 1e-4]


def unit_norm_vec(rng):
    """a beam whose norm is 1 ± {0, 1e-16 … 1e-4} in its unit (a 'direction' that is not exactly normalised)"""
    r = rng.random()
    if r < 0.35:
        # (a, 0, 1)-like: norm sqrt(1 + a²)
        a = rng.choice([1e-8, 1e-7, 1e-6, 1e-5, 1e-4, 1e-3, 3e-3, 1e-2]) * rng.choice([1.0, -1.0])
        k, j = rng.sample(range(3), 2)
        v = [0.0, 0.0, 0.0]
        v[k] = rng.choice([1.0, -1.0])
        v[j] = a
        return v
    d = _dir(rng)
    e = rng.choice(NORM_EPS) * rng.choice([1.0, -1.0])
    return [c * (1.0 + e) for c in d]


def near_degenerate_partner(rng, b1, unit_norm=False):
    """a beam nearly parallel / antiparallel / perpendicular to b1 (offsets 0, 1e-16 … 1e-3), optionally of norm ≈ 1 itself"""
    n1 = math.sqrt(sum(c * c for c in b1))
    off = rng.choice(OFFSETS) * rng.choice([1.0, rng.uniform(0.5, 2.0)])
    p = _perp(rng, b1)
    which = rng.choice(['par', 'anti', 'perp', 'par', 'anti'])
    if which == 'perp':
        q = _perp(rng, b1)
        v = [n1 * q[i] + rng.choice([-1, 1]) * off * b1[i] for i in range(3)]
    else:
        sg = 1.0 if which == 'par' else -1.0
        v = [sg * b1[i] + off * n1 * p[i] for i in range(3)]
    nv = math.sqrt(sum(c * c for c in v))
    c = (1.0 + rng.choice(NORM_EPS) * rng.choice([1.0, -1.0])) / nv if unit_norm else _lu(rng, 1e-3, 1e3)
    return [c * x for x in v]


def gen_unit_norm_pair(rng, mode):
    """mode: 'b1' (incident ≈ unit), 'b2' (scattered ≈ unit), 'both'"""
    u = unit_norm_vec(rng)
    partner = near_degenerate_partner(rng, u, unit_norm=(mode == 'both')) if rng.random() < 0.8 else _vec(rng)
    if mode == 'b2':
        return partner, u
    return u, partner


def gen_beams(rng):
    """(kind, b1, b2) with float components"""
    if rng.random() < 0.06:
        b1, b2 = gen_unit_norm_pair(rng, rng.choice(['b1', 'b2', 'both']))
        return 'unit-norm', b1, b2
    if rng.random() < 0.1:
        b1 = near_axis_vec(rng, axis=2 if rng.random() < 0.6 else None, sign=1.0 if rng.random() < 0.7 else None)
        b2 = near_axis_vec(rng) if rng.random() < 0.3 else _vec(rng)
        return 'near-axis', b1, b2
    r = rng.random()
    b1 = _vec(rng)
    n1 = math.sqrt(sum(c * c for c in b1))
    if r < 0.55:
        return 'random', b1, _vec(rng)
    if r < 0.97:
        off = rng.choice(OFFSETS) * rng.choice([1.0, rng.uniform(0.5, 2.0)])
        p = _perp(rng, b1)
        c = _lu(rng, 1e-3, 1e3) if rng.random() < 0.7 else 1.0
        which = rng.choice(['par', 'anti', 'perp'])
        if which == 'perp':
            q = _perp(rng, b1)
            b2 = [c * (n1 * q[i] + rng.choice([-1, 1]) * off * b1[i]) for i in range(3)]
        else:
            s = 1.0 if which == 'par' else -1.0
            b2 = [c * (s * b1[i] + off * n1 * p[i]) for i in range(3)]
        return 'near-' + which, b1, b2
    if rng.random() < 0.5:
        return 'zero', [0.0, 0.0, 0.0], _vec(rng)
    return 'zero', b1, [0.0, 0.0, 0.0]


def gen_positions(rng):
    """(kind, source, sample, position): beams from gen_beams placed around a sample position"""
    kind, b1, b2 = gen_beams(rng)
    r = rng.random()
    if r < 0.3:
        smp = [0.0, 0.0, 0.0]
    else:
        scale = min(math.sqrt(sum(c * c for c in b1)) or 1.0, math.sqrt(sum(c * c for c in b2)) or 1.0)
        smp = [c * scale * _lu(rng, 1e-3, 10) for c in _dir(rng)]
    src = [smp[i] - b1[i] for i in range(3)]
    pos = [smp[i] + b2[i] for i in range(3)]
    return kind, src, smp, pos


# ---------------------------------------------------------------------------------------------
# implementation wrappers

def _vectors(arr, unit):
    import scipp as sc

    return sc.vectors(dims=['pixel'], values=np.asarray(arr, dtype=np.float64).reshape(-1, 3), unit=unit)


def _vector(v, unit):
    import scipp as sc

    return sc.vector(value=np.asarray(v, dtype=np.float64), unit=unit)


class ImplRaised(Exception):
    """the code under test raised on valid input; carries a single-row witness"""

    def __init__(self, where, exc, witness):
        super().__init__(f'{where}: {type(exc).__name__}: {exc}')
        self.where, self.exc, self.witness = where, exc, witness


def _single_row(fn, rows, extra):
    """first row of a batch on which fn raises when called with that row alone (else the first row)"""
    for r in rows:
        try:
            fn(*[[x] for x in r], *extra)
        except Exception:  # noqa: BLE001
            return r
    return rows[0]


def impl_kernels(srcs, smps, poss, unit):
    try:
        return _impl_kernels(srcs, smps, poss, unit)
    except Exception as e:  # noqa: BLE001
        r = _single_row(_impl_kernels, list(zip(srcs, smps, poss)), (unit,))
        raise ImplRaised('kernels', e, {'source': [hp.bits(x) for x in r[0]], 'sample': [hp.bits(x) for x in r[1]],
                                        'position': [hp.bits(x) for x in r[2]], 'unit': unit, 'via': 'kernels'}) from e


def impl_dataarray(srcs, smps, poss, unit, scalar_source_sample):
    try:
        return _impl_dataarray(srcs, smps, poss, unit, scalar_source_sample)
    except Exception as e:  # noqa: BLE001
        raise ImplRaised('dataarray', e, {'source': [hp.bits(x) for x in srcs[0]], 'sample': [hp.bits(x) for x in smps[0]],
                                          'position': [hp.bits(x) for x in poss[0]], 'unit': unit, 'via': 'dataarray'}) from e


def impl_two_theta(b1s, b2s, unit1='m', unit2='m'):
    try:
        return _impl_two_theta(b1s, b2s, unit1, unit2)
    except Exception as e:  # noqa: BLE001
        r = _single_row(_impl_two_theta, list(zip(b1s, b2s)), (unit1, unit2))
        raise ImplRaised('two_theta', e, {'b1': [hp.bits(x) for x in r[0]], 'b2': [hp.bits(x) for x in r[1]],
                                          'units': [unit1, unit2], 'via': 'two_theta'}) from e


def _impl_kernels(srcs, smps, poss, unit):
    """kernel functions on per-pixel arrays → dict of numpy arrays"""
    from scippneutron.conversion import beamline as bl

    src, smp, pos = _vectors(srcs, unit), _vectors(smps, unit), _vectors(poss, unit)
    ib = bl.straight_incident_beam(source_position=src, sample_position=smp)
    sb = bl.straight_scattered_beam(position=pos, sample_position=smp)
    l1 = bl.L1(incident_beam=ib)
    l2 = bl.L2(scattered_beam=sb)
    tt = bl.two_theta(incident_beam=ib, scattered_beam=sb)
    lt = bl.total_beam_length(L1=l1, L2=l2)
    ltn = bl.total_straight_beam_length_no_scatter(source_position=src, position=pos)
    units = {'ib': str(ib.unit), 'sb': str(sb.unit), 'L1': str(l1.unit), 'L2': str(l2.unit), 'tt': str(tt.unit),
             'Lt': str(lt.unit), 'Ltn': str(ltn.unit)}
    return {'ib': ib.values, 'sb': sb.values, 'L1': l1.values, 'L2': l2.values, 'tt': tt.values, 'Lt': lt.values,
            'Ltn': ltn.values, 'units': units}


def _impl_dataarray(srcs, smps, poss, unit, scalar_source_sample):
    """public scippneutron.* accessors on a data array"""
    import scipp as sc
    import scippneutron as scn

    n = len(poss)
    coords = {'position': _vectors(poss, unit)}
    if scalar_source_sample:
        coords['source_position'] = _vector(srcs[0], unit)
        coords['sample_position'] = _vector(smps[0], unit)
    else:
        coords['source_position'] = _vectors(srcs, unit)
        coords['sample_position'] = _vectors(smps, unit)
    da = sc.DataArray(sc.ones(dims=['pixel'], shape=[n]), coords=coords)
    out = {
        'ib': scn.incident_beam(da), 'sb': scn.scattered_beam(da), 'L1': scn.L1(da), 'L2': scn.L2(da),
        'tt': scn.two_theta(da), 'Lt': scn.Ltotal(da, scatter=True), 'Ltn': scn.Ltotal(da, scatter=False),
    }
    res = {}
    for k, v in out.items():
        vals = v.values
        if v.ndim == 0:
            vals = np.broadcast_to(vals, (n,) + np.shape(vals))
        res[k] = vals
    res['units'] = {k: str(v.unit) for k, v in out.items()}
    return res


def impl_graph_factories(srcs, smps, poss, unit):
    """each public graph factory of scippneutron.conversion.graph.beamline, through transform_coords"""
    try:
        return _impl_graph_factories(srcs, smps, poss, unit)
    except Exception as e:  # noqa: BLE001
        raise ImplRaised('graph factories', e, {'source': [hp.bits(x) for x in srcs[0]], 'sample': [hp.bits(x) for x in smps[0]],
                                                'position': [hp.bits(x) for x in poss[0]], 'unit': unit, 'via': 'graphs'}) from e


def _impl_graph_factories(srcs, smps, poss, unit):
    import scipp as sc
    from scippneutron.conversion.graph import beamline as gb

    n = len(poss)
    da = sc.DataArray(sc.ones(dims=['pixel'], shape=[n]), coords={
        'position': _vectors(poss, unit), 'source_position': _vectors(srcs, unit), 'sample_position': _vectors(smps, unit)})
    plan = {'ib': ('incident_beam', gb.incident_beam()), 'sb': ('scattered_beam', gb.scattered_beam()), 'L1': ('L1', gb.L1()),
            'L2': ('L2', gb.L2()), 'tt': ('two_theta', gb.two_theta()), 'Lt': ('Ltotal', gb.Ltotal(scatter=True)),
            'Ltn': ('Ltotal', gb.Ltotal(scatter=False))}
    res, units = {}, {}
    for k, (name, graph) in plan.items():
        v = da.transform_coords(name, graph=graph, rename_dims=False).coords[name]
        res[k] = v.values
        units[k] = str(v.unit)
    # the factories hand out fresh dicts with exactly the documented nodes
    keys = {k: sorted(g) for k, (_, g) in plan.items()}
    want = {'ib': ['incident_beam'], 'sb': ['scattered_beam'], 'L1': ['L1', 'incident_beam'], 'L2': ['L2', 'scattered_beam'],
            'tt': ['incident_beam', 'scattered_beam', 'two_theta'],
            'Lt': ['L1', 'L2', 'Ltotal', 'incident_beam', 'scattered_beam'], 'Ltn': ['Ltotal']}
    res['keys_ok'] = keys == want
    res['keys'] = keys
    res['units'] = units
    return res


def impl_two_theta_0d(b1, b2s, unit1='m', unit2='m', scalar_b2=False):
    """two_theta with a 0-d (scalar) incident beam against a per-pixel scattered beam, or (scalar_b2) 0-d against 0-d
    one pair at a time"""
    from scippneutron.conversion import beamline as bl

    try:
        ib = _vector(b1, unit1)
        if scalar_b2:
            return np.array([float(bl.two_theta(incident_beam=ib, scattered_beam=_vector(b2, unit2)).value) for b2 in b2s])
        return np.array(bl.two_theta(incident_beam=ib, scattered_beam=_vectors(b2s, unit2)).values, dtype=np.float64)
    except Exception as e:  # noqa: BLE001
        raise ImplRaised('two_theta(0-d incident beam)', e, {'b1': [hp.bits(x) for x in b1], 'b2': [hp.bits(x) for x in b2s[0]],
                                                             'units': [unit1, unit2], 'via': 'two_theta-0d'}) from e


def impl_two_theta_0d_b2(b1s, b2, unit1='m', unit2='m'):
    """per-pixel incident beams against a 0-d scattered beam"""
    from scippneutron.conversion import beamline as bl

    try:
        return np.array(bl.two_theta(incident_beam=_vectors(b1s, unit1), scattered_beam=_vector(b2, unit2)).values, dtype=np.float64)
    except Exception as e:  # noqa: BLE001
        raise ImplRaised('two_theta(0-d scattered beam)', e, {'b1': [hp.bits(x) for x in b1s[0]], 'b2': [hp.bits(x) for x in b2],
                                                              'units': [unit1, unit2], 'via': 'two_theta-0d-b2'}) from e


def _impl_two_theta(b1s, b2s, unit1='m', unit2='m'):
    from scippneutron.conversion import beamline as bl

    return bl.two_theta(incident_beam=_vectors(b1s, unit1), scattered_beam=_vectors(b2s, unit2)).values


# ---------------------------------------------------------------------------------------------
# correspondence

def _b(x):
    x = float(x)
    return 'nan' if x != x else hp.bits(x)


CORR_ABS = 2e-15  # property budget 4e-15 rad minus the model's own rounding error (≤ 1e-15) minus margin


def _close_ulps(a: float, b: float, ulps: int) -> bool:
    """two_theta of implementation and model: within `ulps` ulp (libm) or within the property's absolute budget"""
    if a != a or b != b:
        return (a != a) and (b != b)
    return abs(a - b) <= max(ulps * max(math.ulp(a), math.ulp(b)), CORR_ABS)


def _cmp_case(ctx, tag, case, impl, i, out):
    """compare implementation row i with the model's output line"""
    toks = out.split()
    if len(toks) != 11:
        ctx.disagree(case, None, out, 'bad driver output')
        return
    exact = [('ib', 0), ('ib', 1), ('ib', 2), ('sb', 0), ('sb', 1), ('sb', 2)]
    got = [_b(impl[k][i][j]) for k, j in exact] + [_b(impl['L1'][i]), _b(impl['L2'][i])]
    if got != toks[:8]:
        ctx.disagree(case, got, toks[:8], f'{tag}: beams/L1/L2 differ bit-wise')
        return
    if _b(impl['Lt'][i]) != toks[9] or _b(impl['Ltn'][i]) != toks[10]:
        ctx.disagree(case, [_b(impl['Lt'][i]), _b(impl['Ltn'][i])], toks[9:], f'{tag}: Ltotal differs bit-wise')
        return
    if not _close_ulps(float(impl['tt'][i]), hp.unbits(toks[8]), 2):
        ctx.disagree(case, _b(impl['tt'][i]), toks[8], f'{tag}: two_theta differs by more than 2 ulp and 2e-15 rad')


def correspond(ctx):
    try:
        _correspond(ctx)
    except ImplRaised as e:
        ctx.disagree(e.witness, f'raised {type(e.exc).__name__}', 'a value', f'{e.where}: the implementation raised on valid input: {e.exc}')


def _correspond(ctx):
    rng = ctx.rng
    n = ctx.n(6000, 400000)
    batch = 500
    cases = []
    for _ in range(n):
        cases.append(gen_positions(rng))
    # corpus-like fixed cases first
    fixed = [
        ('fixed', [0.0, 0.0, -10.0], [0.0, 0.0, 0.0], [0.0, 0.0, 1.0]),
        ('fixed', [0.0, 0.0, -10.0], [0.0, 0.0, 0.0], [0.0, 0.0, -1.0]),
        ('fixed', [0.0, 0.0, -10.0], [0.0, 0.0, 0.0], [1.0, 0.0, 0.0]),
        ('fixed', [0.0, 0.0, -10.0], [0.0, 0.0, 0.0], [1e-300, 0.0, 1.0]),
        ('fixed', [1.0, 2.0, 3.0], [1.0, 2.0, 3.0], [0.0, 1.0, 0.0]),
    ]
    cases = fixed + cases
    lines = ['c03.graph ' + ' '.join(hp.bits(x) for x in (*s, *m, *p)) for _, s, m, p in cases]
    outs = ctx.driver(lines)
    for start in range(0, len(cases), batch):
        chunk = cases[start:start + batch]
        unit = rng.choice(UNITS)
        srcs, smps, poss = [c[1] for c in chunk], [c[2] for c in chunk], [c[3] for c in chunk]
        impl = impl_kernels(srcs, smps, poss, unit)
        for k, u in impl['units'].items():
            want = 'rad' if k == 'tt' else unit
            if u not in (want, {'angstrom': 'Å', 'um': 'µm'}.get(want, want)):
                ctx.disagree({'unit': unit, 'quantity': k}, u, want, 'unit of result')
        for i, c in enumerate(chunk):
            ident = tuple(hp.bits(x) for x in (*c[1], *c[2], *c[3]))
            case = {'kind': c[0], 'source': c[1], 'sample': c[2], 'position': c[3], 'unit': unit, 'via': 'kernels'}
            ctx.case(('k',) + ident, c[0] != 'zero', sample=case)
            ctx.count('kernels:' + c[0])
            _cmp_case(ctx, 'kernels', case, impl, i, outs[start + i])
        # every public graph factory through transform_coords (first chunks only: same kernels underneath)
        if start < 4 * batch:
            impl3 = impl_graph_factories(srcs, smps, poss, unit)
            if not impl3['keys_ok']:
                ctx.disagree({'via': 'graphs'}, impl3['keys'], 'documented node sets', 'graph factories expose unexpected nodes')
            for i, c in enumerate(chunk):
                case = {'kind': c[0], 'source': c[1], 'sample': c[2], 'position': c[3], 'unit': unit, 'via': 'graphs'}
                ctx.case(('g',) + tuple(hp.bits(x) for x in (*c[1], *c[2], *c[3])), c[0] != 'zero')
                ctx.count('graphs:' + c[0])
                _cmp_case(ctx, 'graphs', case, impl3, i, outs[start + i])
        # data-array route: per-pixel source/sample
        impl2 = impl_dataarray(srcs, smps, poss, unit, scalar_source_sample=False)
        for i, c in enumerate(chunk):
            case = {'kind': c[0], 'source': c[1], 'sample': c[2], 'position': c[3], 'unit': unit, 'via': 'dataarray'}
            ctx.case(('d',) + tuple(hp.bits(x) for x in (*c[1], *c[2], *c[3])), c[0] != 'zero')
            ctx.count('dataarray:' + c[0])
            _cmp_case(ctx, 'dataarray', case, impl2, i, outs[start + i])
    # scalar source & sample broadcast against a per-pixel position; and fully scalar kernel calls
    nb = ctx.n(40, 2000)
    lines, meta = [], []
    for _ in range(nb):
        _, src, smp, _ = gen_positions(rng)
        poss = [gen_positions(rng)[3] for _ in range(rng.randrange(1, 12))]
        unit = rng.choice(UNITS)
        meta.append((src, smp, poss, unit))
        lines += ['c03.graph ' + ' '.join(hp.bits(x) for x in (*src, *smp, *p)) for p in poss]
    outs = ctx.driver(lines)
    k = 0
    for src, smp, poss, unit in meta:
        impl = impl_dataarray([src], [smp], poss, unit, scalar_source_sample=True)
        for i, p in enumerate(poss):
            case = {'kind': 'broadcast', 'source': src, 'sample': smp, 'position': p, 'unit': unit, 'via': 'dataarray-scalar'}
            ctx.case(('b',) + tuple(hp.bits(x) for x in (*src, *smp, *p)), True)
            ctx.count('dataarray-scalar-source')
            _cmp_case(ctx, 'dataarray-scalar', case, impl, i, outs[k])
            k += 1
    _correspond_scalar(ctx)
    _correspond_beams(ctx)
    _correspond_beams_0d(ctx)
    _correspond_unit_norm(ctx)
    _correspond_scatter_flag(ctx)


def _correspond_scalar(ctx):
    """0-d (scalar) variables through the kernels"""
    from scippneutron.conversion import beamline as bl

    rng = ctx.rng
    cases = [gen_positions(rng) for _ in range(ctx.n(150, 6000))]
    outs = ctx.driver(['c03.graph ' + ' '.join(hp.bits(x) for x in (*s, *m, *p)) for _, s, m, p in cases])
    for (kind, s, m, p), out in zip(cases, outs):
        unit = rng.choice(UNITS)
        case = {'kind': kind, 'source': s, 'sample': m, 'position': p, 'unit': unit, 'via': 'scalar'}
        try:
            src, smp, pos = _vector(s, unit), _vector(m, unit), _vector(p, unit)
            ib = bl.straight_incident_beam(source_position=src, sample_position=smp)
            sb = bl.straight_scattered_beam(position=pos, sample_position=smp)
            l1, l2 = bl.L1(incident_beam=ib), bl.L2(scattered_beam=sb)
            impl = {'ib': [ib.value], 'sb': [sb.value], 'L1': [l1.value], 'L2': [l2.value],
                    'tt': [bl.two_theta(incident_beam=ib, scattered_beam=sb).value],
                    'Lt': [bl.total_beam_length(L1=l1, L2=l2).value],
                    'Ltn': [bl.total_straight_beam_length_no_scatter(source_position=src, position=pos).value]}
        except Exception as e:  # noqa: BLE001
            ctx.disagree(case, f'raised {type(e).__name__}', out, 'scalar kernels raised on valid input')
            continue
        ctx.case(('s',) + tuple(hp.bits(x) for x in (*s, *m, *p)), kind != 'zero')
        ctx.count('scalar:' + kind)
        _cmp_case(ctx, 'scalar', case, impl, 0, out)
        # the kernel must not have modified its inputs (b2 += b1 is on a temporary)
        if [hp.bits(x) for x in ib.value] != [hp.bits(m[i] - s[i]) for i in range(3)] or \
                [hp.bits(x) for x in sb.value] != [hp.bits(p[i] - m[i]) for i in range(3)]:
            ctx.disagree(case, 'inputs modified', 'inputs unchanged', 'two_theta changed its arguments')


def _correspond_beams(ctx):
    """two_theta directly on beams (no position arithmetic), different units for the two beams"""
    rng = ctx.rng
    cases = [gen_beams(rng) for _ in range(ctx.n(6000, 500000))]
    outs = ctx.driver(['c03.tt ' + ' '.join(hp.bits(x) for x in (*b1, *b2)) for _, b1, b2 in cases])
    batch = 1000
    for start in range(0, len(cases), batch):
        chunk = cases[start:start + batch]
        u1, u2 = rng.choice(UNITS), rng.choice(UNITS)
        tt = impl_two_theta([c[1] for c in chunk], [c[2] for c in chunk], u1, u2)
        for i, (kind, b1, b2) in enumerate(chunk):
            case = {'kind': kind, 'b1': b1, 'b2': b2, 'units': [u1, u2], 'via': 'two_theta'}
            ctx.case(('t',) + tuple(hp.bits(x) for x in (*b1, *b2)), kind != 'zero', sample=case if i < 2 else None)
            ctx.count('two_theta:' + kind)
            if not _close_ulps(float(tt[i]), hp.unbits(outs[start + i]), 2):
                ctx.disagree(case, _b(tt[i]), outs[start + i], 'two_theta differs by more than 2 ulp and 2e-15 rad')


# ---------------------------------------------------------------------------------------------
# direct oracle

BIG_UNITS = ['m', 'mm', 'km', 'cm']


def gen_0d_group(rng):
    """(b1, [b2…]): one incident beam (half of them near an axis with tiny absolute transverse components) and a handful of
    scattered beams (random, near-degenerate w.r.t. b1, near-axis)"""
    r = rng.random()
    if r < 0.5:
        b1 = near_axis_vec(rng, axis=2 if rng.random() < 0.6 else None, sign=1.0 if rng.random() < 0.7 else None,
                           hi=1e6 if rng.random() < 0.3 else 1e2)
    elif r < 0.75:
        b1 = unit_norm_vec(rng)
    else:
        b1 = _vec(rng)
    n1 = math.sqrt(sum(c * c for c in b1))
    b2s = []
    for _ in range(rng.randrange(1, 7)):
        q = rng.random()
        if q < 0.3:
            b2s.append(_vec(rng))
        elif q < 0.4:
            b2s.append(near_degenerate_partner(rng, b1, unit_norm=True) if n1 > 0 else _vec(rng))
        elif q < 0.6:
            b2s.append(near_axis_vec(rng))
        else:
            off = rng.choice(OFFSETS)
            p = _perp(rng, b1) if n1 > 0 else [1.0, 0.0, 0.0]
            c = _lu(rng, 1e-3, 1e3) * rng.choice([1.0, -1.0])
            b2s.append([c * (b1[i] + off * n1 * p[i]) for i in range(3)])
    return b1, b2s


def _correspond_beams_0d(ctx):
    """two_theta with 0-d operands (scalar incident beam × per-pixel scattered beam, both scalar, per-pixel × scalar)"""
    rng = ctx.rng
    groups = [gen_0d_group(rng) for _ in range(ctx.n(500, 20000))]
    lines = ['c03.tt ' + ' '.join(hp.bits(x) for x in (*b1, *b2)) for b1, b2s in groups for b2 in b2s]
    outs = iter(ctx.driver(lines))
    for b1, b2s in groups:
        u1, u2 = rng.choice(BIG_UNITS), rng.choice(BIG_UNITS)
        mode = rng.choice(['0d-b1', '0d-b1', 'both-0d', '0d-b2'])
        if mode == '0d-b2':
            try:
                tt = [float(impl_two_theta_0d_b2([b1], b2, u1, u2)[0]) for b2 in b2s]
            except ImplRaised as e:
                if type(e.exc).__name__ != 'DimensionError':
                    raise
                # the scalar model has no notion of array shapes; a shape-dependent refusal is judged by the oracle
                # (key C03:two-theta-raises:incident-dims-not-in-scattered), not by the correspondence
                ctx.count('two_theta:0d-b2:raised-DimensionError')
                for _ in b2s:
                    next(outs)
                continue
        else:
            tt = impl_two_theta_0d(b1, b2s, u1, u2, scalar_b2=(mode == 'both-0d'))
        for b2, t in zip(b2s, tt):
            o = next(outs)
            case = {'kind': mode, 'b1': b1, 'b2': b2, 'units': [u1, u2], 'via': 'two_theta-' + mode}
            ctx.case(('t0', mode) + tuple(hp.bits(x) for x in (*b1, *b2)), True)
            ctx.count('two_theta:' + mode)
            if not _close_ulps(float(t), hp.unbits(o), 2):
                ctx.disagree(case, _b(t), o, 'two_theta (0-d operand) differs by more than 2 ulp and 2e-15 rad')


def _correspond_scatter_flag(ctx):
    """the `scatter` flag with different Python types: every entry point against the Lean graph model (`c03.graph` gives both
    Ltotal = L1+L2 and the straight no-scatter Ltotal; the flag's truth value selects which one is documented)"""
    rng = ctx.rng

    class Quiet:
        """value mismatches against the Euclidean definition are the oracle's business; here only model disagreements count"""
        def __init__(self, ctx_):
            self.c = ctx_

        def case(self, *a, **k):
            self.c.case(*a, **k)

        def count(self, *a, **k):
            self.c.count(*a, **k)

        def disagree(self, *a, **k):
            self.c.disagree(*a, **k)

        def violation(self, key, what, witness):
            self.c.disagree(witness, what, 'the graph model for the truth value of the flag', 'scatter flag type')
    with hp.precision():
        for _ in range(ctx.n(6, 60)):
            while True:
                kind, src, smp, _ = gen_positions(rng)
                if kind != 'zero' and src != smp:
                    break
            scale = max(math.sqrt(sum((smp[i] - src[i]) ** 2 for i in range(3))), 1e-6)
            poss = [[smp[i] + c * scale * _lu(rng, 1e-2, 1e2) for i, c in enumerate(_dir(rng))] for _ in range(rng.randrange(1, 4))]
            unit = rng.choice(UNITS)
            outs = ctx.driver(['c03.graph ' + ' '.join(hp.bits(x) for x in (*src, *smp, *p_)) for p_ in poss])
            check_scatter_flag(Quiet(ctx), src, smp, poss, unit, model_lines=outs)


def _exact(fr: Fraction):
    """float equal to the fraction, or None"""
    try:
        f = float(fr)
    except OverflowError:
        return None
    return f if Fraction(f) == fr else None


PERMS = [(0, 1, 2), (0, 2, 1), (1, 0, 2), (1, 2, 0), (2, 0, 1), (2, 1, 0)]
# integer matrices R with R Rᵀ = 25·1 (5 × a rotation of the 3-4-5 family)
ROT345 = [
    ((3, -4, 0), (4, 3, 0), (0, 0, 5)),
    ((3, 0, 4), (0, 5, 0), (-4, 0, 3)),
    ((5, 0, 0), (0, 3, -4), (0, 4, 3)),
    ((0, 3, 4), (5, 0, 0), (0, 4, -3)),
]


def _apply_int(R, v):
    return [sum(R[i][j] * v[j] for j in range(3)) for i in range(3)]


def dyadic_pair(rng):
    """exactly representable beam pair with true angle 2·atan τ or π − 2·atan τ; returns
    (b1, b2, tau Fraction, sign) or None"""
    j = rng.choice([1, 2, 3, 5, 8, 12, 16, 20, 24, 26])
    k = rng.randrange(1, 2 ** min(j, 26)) if rng.random() < 0.5 else rng.choice([1, 2, 3, 2 ** j - 1, 2 ** j])
    k = max(1, min(k, 2 ** j))
    tau = Fraction(k, 2 ** j)
    sign = rng.choice([1, -1])
    v1 = [Fraction(0), Fraction(0), Fraction(1)]
    v2 = [2 * tau, Fraction(0), sign * (1 - tau * tau)]
    if rng.random() < 0.5:
        perm = rng.choice(PERMS)
        sg = [rng.choice([1, -1]) for _ in range(3)]
        v1 = [sg[i] * v1[perm[i]] for i in range(3)]
        v2 = [sg[i] * v2[perm[i]] for i in range(3)]
    else:
        R = rng.choice(ROT345)
        v1, v2 = _apply_int(R, v1), _apply_int(R, v2)
    s1 = Fraction(2) ** rng.randrange(-20, 21)
    s2 = Fraction(2) ** rng.randrange(-20, 21)
    b1 = [_exact(s1 * c) for c in v1]
    b2 = [_exact(s2 * c) for c in v2]
    if None in b1 or None in b2:
        return None
    return b1, b2, tau, sign


def _true_angle(b1, b2):
    return hp.angle(hp.V.of(b1), hp.V.of(b2))


def _check_accuracy(ctx, key, b1s, b2s, kinds, extra=None):
    tt = impl_two_theta(b1s, b2s)
    for i in range(len(b1s)):
        truth = _true_angle(b1s[i], b2s[i])
        got = float(tt[i])
        ctx.case(('acc',) + tuple(hp.bits(x) for x in (*b1s[i], *b2s[i])), True)
        ctx.count('oracle:accuracy:' + kinds[i])
        if not (got == got) or abs(hp.D(got) - truth) > hp.D(ACC):
            w = {'b1': [hp.bits(x) for x in b1s[i]], 'b2': [hp.bits(x) for x in b2s[i]], 'b1_values': b1s[i],
                 'b2_values': b2s[i], 'got': got, 'true_angle': hp.fmt(truth, 30), 'kind': kinds[i]}
            if extra:
                w.update(extra[i])
            ctx.violation(key, f'two_theta = {got!r} but the Euclidean angle of the exact inputs is {hp.fmt(truth)} '
                               f'(error {float(abs(hp.D(got) - truth)):.3g} rad > {ACC} rad)', w)


def _pow2(rng, lo=-20, hi=20):
    return 2.0 ** rng.randrange(lo, hi + 1)


def oracle(ctx, deep):
    mult = 4 if deep else 1
    with hp.precision():
        # every stage runs even if the code under test raised in an earlier one
        for stage in (lambda c, m: _oracle(c, deep), _oracle_unit_norm, _oracle_general_rotation, _oracle_0d_beams, _oracle_beam_dims, _oracle_pipeline,
                      _oracle_accessors_repeatable, _oracle_configuration):
            try:
                stage(ctx, mult)
            except ImplRaised as e:
                ctx.violation('C03:unexpected-exception', f'{e.where} raised {type(e.exc).__name__} on valid input: {str(e.exc)[:200]}', e.witness)


def _oracle(ctx, deep):
    rng = ctx.rng
    mult = 4 if deep else 1
    # ---- O0: corpus first ------------------------------------------------------------------
    import json
    import os

    cdir = os.path.join(os.path.dirname(os.path.dirname(os.path.dirname(os.path.abspath(__file__)))), 'corpus', 'C03')
    if os.path.isdir(cdir):
        for fn in sorted(os.listdir(cdir)):
            if fn.endswith('.json'):
                with open(os.path.join(cdir, fn)) as f:
                    doc = json.load(f)
                for q in doc.get('pairs0d', []):
                    b1, b2 = [hp.unbits(h) for h in q['b1']], [hp.unbits(h) for h in q['b2']]
                    for mode in ('0d-b1', 'both-0d'):
                        t = float(impl_two_theta_0d(b1, [b2], q['unit'], q['unit'], scalar_b2=(mode == 'both-0d'))[0])
                        truth = _true_angle(b1, b2)
                        ctx.case(('corpus0d', mode) + tuple(q['b1'] + q['b2']), True)
                        ctx.count('oracle:corpus')
                        if abs(hp.D(t) - truth) > hp.D(ACC):
                            ctx.violation('C03:two-theta-accuracy', f'two_theta ({mode}: scalar operand) = {t!r} but the Euclidean angle of the '
                                          f'exact inputs is {hp.fmt(truth)} (error {float(abs(hp.D(t) - truth)):.3g} rad > {ACC} rad)',
                                          {'b1': q['b1'], 'b2': q['b2'], 'units': [q['unit'], q['unit']], 'mode': mode})
                ps = doc.get('pairs', [])
                if not ps:
                    continue
                _check_accuracy(ctx, 'C03:two-theta-accuracy', [[hp.unbits(h) for h in q['b1']] for q in ps],
                                [[hp.unbits(h) for h in q['b2']] for q in ps], ['corpus'] * len(ps))
    # ---- O1: accuracy on the exact dyadic family (true angle also known in closed form: 2·atan τ) ----
    b1s, b2s, kinds, extra = [], [], [], []
    want = ctx.n(400, 24000) * mult
    tries = 0
    while len(b1s) < want and tries < 20 * want:
        tries += 1
        r = dyadic_pair(rng)
        if r is None:
            continue
        b1, b2, tau, sign = r
        b1s.append(b1)
        b2s.append(b2)
        kinds.append('dyadic-near-0' if sign > 0 else 'dyadic-near-pi')
        extra.append({'tau': str(tau), 'sign': sign})
    # closed form cross-check of the reference itself
    for i in range(0, len(b1s), 7):
        tau = Fraction(extra[i]['tau'])
        closed = 2 * hp.atan(hp.D(tau))
        if extra[i]['sign'] < 0:
            closed = hp.PI - closed
        if abs(closed - _true_angle(b1s[i], b2s[i])) > hp.D('1e-60'):
            raise RuntimeError('internal: decimal reference disagrees with the closed form 2·atan τ')
    _check_accuracy(ctx, 'C03:two-theta-accuracy', b1s, b2s, kinds, extra)
    # ---- O2: accuracy on arbitrary floats (incl. near-degenerate) ----
    cs = [gen_beams(rng) for _ in range(ctx.n(1500, 100000) * mult)]
    cs = [c for c in cs if c[0] != 'zero']
    _check_accuracy(ctx, 'C03:two-theta-accuracy', [c[1] for c in cs], [c[2] for c in cs], [c[0] for c in cs])
    # ---- O3: range, symmetry, scale, rotation (exact transformations of the inputs) ----
    tt = impl_two_theta([c[1] for c in cs], [c[2] for c in cs])
    tts = impl_two_theta([c[2] for c in cs], [c[1] for c in cs])
    sc1 = [_pow2(rng, -30, 30) for _ in cs]
    sc2 = [_pow2(rng, -30, 30) for _ in cs]
    ttsc = impl_two_theta([[x * sc1[i] for x in c[1]] for i, c in enumerate(cs)],
                          [[x * sc2[i] for x in c[2]] for i, c in enumerate(cs)])
    perms = [(rng.choice(PERMS), [rng.choice([1.0, -1.0]) for _ in range(3)]) for _ in cs]
    ttp = impl_two_theta([[sg[k] * c[1][pm[k]] for k in range(3)] for c, (pm, sg) in zip(cs, perms)],
                         [[sg[k] * c[2][pm[k]] for k in range(3)] for c, (pm, sg) in zip(cs, perms)])
    for i, c in enumerate(cs):
        w = {'b1': [hp.bits(x) for x in c[1]], 'b2': [hp.bits(x) for x in c[2]], 'b1_values': c[1], 'b2_values': c[2]}
        ctx.case(('inv',) + tuple(w['b1'] + w['b2']), True)
        t = float(tt[i])
        if not (0.0 <= t <= math.pi):
            ctx.violation('C03:two-theta-range', f'two_theta = {t!r} outside [0, pi]', w)
        # exact transformations: the true angle is unchanged, so the results may differ by at most 2·ACC
        if not abs(float(tts[i]) - t) <= 2 * ACC:
            ctx.violation('C03:two-theta-symmetry', f'two_theta(b1,b2) = {t!r}, two_theta(b2,b1) = {float(tts[i])!r}', w)
        if not abs(float(ttsc[i]) - t) <= 2 * ACC:
            ctx.violation('C03:two-theta-scale', f'two_theta changes from {t!r} to {float(ttsc[i])!r} when the beams are '
                          f'rescaled by {sc1[i]} and {sc2[i]}', {**w, 'scales': [sc1[i], sc2[i]]})
        if not abs(float(ttp[i]) - t) <= 2 * ACC:
            ctx.violation('C03:two-theta-rotation', f'two_theta changes from {t!r} to {float(ttp[i])!r} under a signed '
                          'permutation of the axes', {**w, 'perm': list(perms[i][0]), 'signs': perms[i][1]})


def _rand_rotation(rng):
    # orthonormal frame by Gram-Schmidt (floating point; its defect from orthogonality is ~1e-16 and is
    # accounted for in the tolerance)
    a = _dir(rng)
    b = _perp(rng, a)
    c = [a[1] * b[2] - a[2] * b[1], a[2] * b[0] - a[0] * b[2], a[0] * b[1] - a[1] * b[0]]
    if rng.random() < 0.3:
        c = [-x for x in c]  # reflection
    return [a, b, c]


def _oracle_general_rotation(ctx, mult):
    """arbitrary rotations/reflections, non-power-of-two scales: inputs of the second evaluation are rounded, so the
    true angle of the transformed inputs is recomputed exactly and BOTH evaluations are held to ACC (done in
    _check_accuracy); here the two true angles are compared to bound what the rotation itself changed."""
    rng = ctx.rng
    n = ctx.n(300, 20000) * mult
    b1s, b2s, kinds = [], [], []
    for _ in range(n):
        kind, b1, b2 = gen_beams(rng)
        if kind == 'zero':
            continue
        R = _rand_rotation(rng)
        s1, s2 = _lu(rng, 1e-3, 1e3), _lu(rng, 1e-3, 1e3)
        rb1 = [s1 * sum(R[i][j] * b1[j] for j in range(3)) for i in range(3)]
        rb2 = [s2 * sum(R[i][j] * b2[j] for j in range(3)) for i in range(3)]
        t0, t1 = _true_angle(b1, b2), _true_angle(rb1, rb2)
        # the rounded rotation perturbs each vector by at most ~8 eps relative → angle by at most 32 eps
        if abs(t0 - t1) > hp.D(64 * EPS):
            raise RuntimeError('internal: generated rotation is not orthogonal enough')
        b1s += [b1, rb1]
        b2s += [b2, rb2]
        kinds += ['general', 'general-rotated-scaled']
    tt = impl_two_theta(b1s, b2s)
    for i in range(0, len(b1s), 2):
        ctx.case(('rot',) + tuple(hp.bits(x) for x in (*b1s[i], *b2s[i], *b1s[i + 1], *b2s[i + 1])), True)
        ctx.count('oracle:general-rotation')
        if not abs(float(tt[i]) - float(tt[i + 1])) <= 2 * ACC + 64 * EPS:
            ctx.violation('C03:two-theta-rotation',
                          f'two_theta changes from {float(tt[i])!r} to {float(tt[i + 1])!r} under a rotation and rescaling',
                          {'b1': [hp.bits(x) for x in b1s[i]], 'b2': [hp.bits(x) for x in b2s[i]],
                           'rb1': [hp.bits(x) for x in b1s[i + 1]], 'rb2': [hp.bits(x) for x in b2s[i + 1]]})


def gen_unit_norm_batch(rng):
    mode = rng.choice(['b1', 'b2', 'both'])
    n = rng.randrange(1, 7)
    pairs = [gen_unit_norm_pair(rng, mode) for _ in range(n)]
    return mode, [p_[0] for p_ in pairs], [p_[1] for p_ in pairs]


def _correspond_unit_norm(ctx):
    """per-pixel arrays in which EVERY incident (or scattered, or both) beam has norm 1 ± {0, 1e-16 … 1e-4}: a reduction over the
    whole array (sc.all / sc.any) cannot be diluted by other pixels"""
    rng = ctx.rng
    batches = [gen_unit_norm_batch(rng) for _ in range(ctx.n(300, 15000))]
    outs = iter(ctx.driver(['c03.tt ' + ' '.join(hp.bits(x) for x in (*b1, *b2)) for _, b1s, b2s in batches for b1, b2 in zip(b1s, b2s)]))
    for mode, b1s, b2s in batches:
        u1, u2 = rng.choice(BIG_UNITS), rng.choice(BIG_UNITS)
        tt = impl_two_theta(b1s, b2s, u1, u2)
        for b1, b2, t in zip(b1s, b2s, tt):
            o = next(outs)
            case = {'kind': 'unit-norm:' + mode, 'b1': b1, 'b2': b2, 'units': [u1, u2], 'via': 'two_theta-unit-norm-array'}
            ctx.case(('un', mode) + tuple(hp.bits(x) for x in (*b1, *b2)), True)
            ctx.count('two_theta:unit-norm:' + mode)
            if not _close_ulps(float(t), hp.unbits(o), 2):
                ctx.disagree(case, _b(t), o, 'two_theta (all beams of norm ≈ 1) differs by more than 2 ulp and 2e-15 rad')


def _oracle_unit_norm(ctx, mult):
    """accuracy and scale invariance when all incident / scattered / both beams of an array have norm 1 ± {0, 1e-16 … 1e-4} in
    their unit, combined with nearly parallel / antiparallel / perpendicular partners; rescaling by an exact power of two leaves
    the true angle unchanged"""
    rng = ctx.rng
    for _ in range(ctx.n(250, 8000) * mult):
        mode, b1s, b2s = gen_unit_norm_batch(rng)
        u1, u2 = rng.choice(BIG_UNITS), rng.choice(BIG_UNITS)
        tt = impl_two_theta(b1s, b2s, u1, u2)
        k1, k2 = 2.0 ** rng.choice([-20, -3, 1, 7, 20]), 2.0 ** rng.choice([-20, -3, 1, 7, 20])
        tts = impl_two_theta([[c * k1 for c in b] for b in b1s], [[c * k2 for c in b] for b in b2s], u1, u2)
        for i, (b1, b2) in enumerate(zip(b1s, b2s)):
            truth = _true_angle(b1, b2)
            w = {'b1': [hp.bits(x) for x in b1], 'b2': [hp.bits(x) for x in b2], 'b1_values': b1, 'b2_values': b2, 'units': [u1, u2],
                 'batch': {'b1': [[hp.bits(x) for x in b] for b in b1s], 'b2': [[hp.bits(x) for x in b] for b in b2s], 'index': i,
                           'scales': [k1, k2]}, 'kind': 'unit-norm:' + mode}
            ctx.case(('unit-norm', mode) + tuple(w['b1'] + w['b2']), True)
            ctx.count('oracle:unit-norm:' + mode)
            t, ts = float(tt[i]), float(tts[i])
            if abs(hp.D(t) - truth) > hp.D(ACC):
                ctx.violation('C03:two-theta-accuracy', f'two_theta = {t!r} for beams of norm {_norm(b1)!r} and {_norm(b2)!r} (all {mode} beams of the '
                              f'array have norm ≈ 1 {u1}/{u2}), but the Euclidean angle of the exact inputs is {hp.fmt(truth)} '
                              f'(error {float(abs(hp.D(t) - truth)):.3g} rad > {ACC} rad)', w)
                break
            if abs(ts - t) > 2 * ACC:
                ctx.violation('C03:two-theta-scale', f'two_theta changes from {t!r} to {ts!r} when the beams (norms {_norm(b1)!r}, {_norm(b2)!r}) are '
                              f'rescaled by {k1} and {k2}', w)
                break


SCALES_0D = [1e6, 1e-6, 1e12, 1e-12]


def _norm(v):
    return math.sqrt(sum(c * c for c in v))


def _oracle_0d_beams(ctx, mult):
    """0-d (scalar) incident / scattered beams, half of them with transverse components that are tiny in absolute terms
    (1e-16 … 1e-9 in the beam's unit; norms 1e-6 … 1e6; units mm/m/km/cm): accuracy against the 70-digit angle of the exact
    inputs, and invariance under rescaling the incident beam by 1e±6, 1e±12 (true angle recomputed for the rounded rescaled
    beam, so both evaluations are held to ACC and to each other)."""
    rng = ctx.rng
    n = ctx.n(500, 15000) * mult
    for _ in range(n):
        b1, b2s = gen_0d_group(rng)
        if _norm(b1) == 0.0:
            continue
        b2s = [b for b in b2s if _norm(b) > 0.0]
        if not b2s:
            continue
        u1, u2 = rng.choice(BIG_UNITS), rng.choice(BIG_UNITS)
        mode = rng.choice(['0d-b1', '0d-b1', 'both-0d', '0d-b2'])

        def run(bb1):
            if mode == '0d-b2':
                return [float(impl_two_theta_0d_b2([bb1], b2, u1, u2)[0]) for b2 in b2s]
            return [float(x) for x in impl_two_theta_0d(bb1, b2s, u1, u2, scalar_b2=(mode == 'both-0d'))]
        try:
            tt = run(b1)
        except ImplRaised as e:
            if mode != '0d-b2' or type(e.exc).__name__ != 'DimensionError':
                raise
            sym = [float(x) for x in impl_two_theta_0d(b2s[0], [b1], u2, u1)]
            ctx.case(('0d-raise',) + tuple(hp.bits(x) for x in (*b1, *b2s[0])), True)
            ctx.violation('C03:two-theta-raises:incident-dims-not-in-scattered',
                          f'two_theta(incident_beam=<per-pixel>, scattered_beam=<0-d>) raises DimensionError ({str(e.exc)[:80]}) although '
                          f'two_theta with the two beams exchanged returns {sym[0]!r}: the angle is not symmetric in its beams for '
                          'every valid combination of scalar and per-pixel operands',
                          {'b1': [hp.bits(x) for x in b1], 'b2': [hp.bits(x) for x in b2s[0]], 'units': [u1, u2], 'mode': mode,
                           'kind': 'raises'})
            continue
        n1 = _norm(b1)
        ok_scales = [sc_ for sc_ in SCALES_0D if 0.999e-6 <= sc_ * n1 <= 1.001e6] or [1e6 if n1 < 1 else 1e-6]
        sc_ = rng.choice(ok_scales)
        sb1 = [c * sc_ for c in b1]
        tts = run(sb1)
        for k, b2 in enumerate(b2s):
            truth, truth_s = _true_angle(b1, b2), _true_angle(sb1, b2)
            w = {'b1': [hp.bits(x) for x in b1], 'b2': [hp.bits(x) for x in b2], 'b1_values': b1, 'b2_values': b2,
                 'units': [u1, u2], 'mode': mode}
            ctx.case(('0d', mode) + tuple(w['b1'] + w['b2']), True)
            ctx.count('oracle:0d:' + mode)
            if abs(hp.D(tt[k]) - truth) > hp.D(ACC):
                ctx.violation('C03:two-theta-accuracy', f'two_theta ({mode}: scalar operand) = {tt[k]!r} but the Euclidean angle of the exact '
                              f'inputs is {hp.fmt(truth)} (error {float(abs(hp.D(tt[k]) - truth)):.3g} rad > {ACC} rad)', w)
            elif abs(hp.D(tts[k]) - truth_s) > hp.D(ACC) or abs(hp.D(tts[k]) - hp.D(tt[k])) > abs(truth_s - truth) + hp.D(2 * ACC):
                ctx.violation('C03:two-theta-scale', f'two_theta ({mode}) changes from {tt[k]!r} to {tts[k]!r} when the incident beam is '
                              f'rescaled by {sc_} (Euclidean angle {hp.fmt(truth)} → {hp.fmt(truth_s)})',
                              {**w, 'scale_b1': sc_, 'sb1': [hp.bits(x) for x in sb1]})


DIM_LAYOUTS = [
    # (dims of the incident beams, dims of the scattered beams): every combination in which each beam has a dim the other
    # lacks, or one has strictly more; the result must carry the union of the dims and hold the angle of each pair
    (('run',), ('pixel',)), (('run',), ('bank', 'pixel')), (('bank', 'pixel'), ('run',)), (('run', 'pixel'), ('pixel',)),
    (('pixel',), ('run', 'pixel')), (('run', 'pixel'), ('pixel', 'run')), (('run',), ('run', 'pixel')), (('run', 'bank'), ('bank', 'pixel')),
]
DIM_SIZES = {'run': 2, 'bank': 2, 'pixel': 3}


def impl_two_theta_dims(b1, dims1, b2, dims2, u1='m', u2='m'):
    """b1 / b2: nested lists of 3-vectors laid out along dims1 / dims2; returns (dims, ndarray) of the real result"""
    import scipp as sc
    from scippneutron.conversion import beamline as bl

    v1 = sc.vectors(dims=list(dims1), values=np.asarray(b1, dtype=np.float64), unit=u1)
    v2 = sc.vectors(dims=list(dims2), values=np.asarray(b2, dtype=np.float64), unit=u2)
    s1, s2 = v1.values.tobytes(), v2.values.tobytes()
    r = bl.two_theta(incident_beam=v1, scattered_beam=v2)
    if v1.values.tobytes() != s1 or v2.values.tobytes() != s2:
        raise AssertionError('input modified')
    return tuple(r.dims), np.array(r.values, dtype=np.float64)


def _dims_case_violation(b1, dims1, b2, dims2, u1, u2):
    """None if two_theta of the two laid-out beam arrays is, pair by pair, the Euclidean angle; else (key, text)"""
    try:
        dims, val = impl_two_theta_dims(b1, dims1, b2, dims2, u1, u2)
    except AssertionError:
        return 'C03:input-modified:two_theta', f'two_theta modified a beam it was given (dims {dims1} / {dims2})'
    except Exception as e:  # noqa: BLE001
        return ('C03:two-theta-raises:incident-dims-not-in-scattered',
                f'two_theta(incident_beam=<dims {dims1}>, scattered_beam=<dims {dims2}>) raised {type(e).__name__} ({str(e)[:80]}) on beams '
                'that broadcast against each other; every such pair of beams has an angle')
    want = set(dims1) | set(dims2)
    if set(dims) != want:
        return 'C03:two-theta-dims', f'two_theta of beams with dims {dims1} / {dims2} has dims {dims}, not the union {sorted(want)}'
    a1, a2 = np.asarray(b1, dtype=np.float64), np.asarray(b2, dtype=np.float64)
    import itertools
    for idx in itertools.product(*[range(DIM_SIZES[d]) for d in dims]):
        at = dict(zip(dims, idx))
        p1 = a1[tuple(at[d] for d in dims1)]
        p2 = a2[tuple(at[d] for d in dims2)]
        truth = _true_angle([float(x) for x in p1], [float(x) for x in p2])
        got = float(val[idx])
        if not abs(hp.D(got) - truth) <= hp.D(ACC):
            return ('C03:two-theta-accuracy', f'two_theta at {at} of beams with dims {dims1} / {dims2} = {got!r} but the Euclidean angle of '
                    f'that pair is {hp.fmt(truth)}')
    return None


def _oracle_beam_dims(ctx, mult):
    """Beams whose dims differ in every way broadcasting allows (per-run incident beam with per-pixel scattered beam, banks,
    transposed layouts): the angle of every pair, on the union of the dims."""
    rng = ctx.rng
    for _ in range(ctx.n(120, 3000) * mult):
        dims1, dims2 = rng.choice(DIM_LAYOUTS)
        u1, u2 = rng.choice(BIG_UNITS), rng.choice(BIG_UNITS)

        def fill(dims):
            shape = [DIM_SIZES[d] for d in dims]
            flat = []
            for _ in range(int(np.prod(shape))):
                v = _vec(rng) if rng.random() < 0.7 else near_axis_vec(rng)
                while _norm(v) == 0.0:
                    v = _vec(rng)
                flat.append(v)
            return np.asarray(flat, dtype=np.float64).reshape(*shape, 3).tolist()
        b1, b2 = fill(dims1), fill(dims2)
        ctx.case(('beam-dims', dims1, dims2, hp.bits(b1[0][0] if len(dims1) == 1 else b1[0][0][0])), True)
        ctx.count('oracle:beam-dims:' + ','.join(dims1) + '|' + ','.join(dims2))
        bad = _dims_case_violation(b1, dims1, b2, dims2, u1, u2)
        if bad is not None:
            ctx.violation(bad[0], bad[1], {'kind': 'beam-dims', 'b1_values': b1, 'b2_values': b2, 'dims1': list(dims1), 'dims2': list(dims2),
                                           'units': [u1, u2]})


# ---- accessors of beamline_components: repeatable, no input modification, precomputed coordinates honoured ----

ACCESSORS = ['position', 'source_position', 'sample_position', 'incident_beam', 'scattered_beam', 'L1', 'L2', 'two_theta',
             'Ltotal:scatter', 'Ltotal:noscatter']
PRECOMPUTABLE = ['incident_beam', 'scattered_beam', 'L1', 'L2', 'two_theta']


def _snap(da):
    """bit-level snapshot of all coordinates and the data of a data array"""
    out = {'data': (str(da.data.dtype), str(da.data.unit), tuple(da.data.dims), np.array(da.data.values).tobytes())}
    for k in sorted(da.coords.keys()):
        v = da.coords[k]
        out[k] = (str(v.dtype), str(v.unit), tuple(v.dims), np.array(v.values).tobytes())
    return out


def build_da(cfg):
    """data array from a JSON-able configuration: positions (bit patterns) + any subset of precomputed coordinates"""
    import scipp as sc

    unit = cfg['unit']
    pos = [[hp.unbits(h) for h in v] for v in cfg['position']]
    n = len(pos)
    coords = {'position': _vectors(pos, unit)}
    for k in ('source_position', 'sample_position'):
        v = [hp.unbits(h) for h in cfg[k]]
        coords[k] = _vector(v, unit)
    for k, spec_ in cfg['pre'].items():
        vals = spec_['values']
        if k in ('incident_beam', 'scattered_beam'):
            arr = [[hp.unbits(h) for h in v] for v in vals]
            coords[k] = _vector(arr[0], unit) if spec_['scalar'] else _vectors(arr, unit)
        else:
            arr = [hp.unbits(h) for h in vals]
            u = 'rad' if k == 'two_theta' else unit
            coords[k] = sc.scalar(arr[0], unit=u) if spec_['scalar'] else sc.array(dims=['pixel'], values=np.array(arr), unit=u)
    return sc.DataArray(sc.ones(dims=['pixel'], shape=[n]), coords=coords)


def call_accessor(da, name):
    import scippneutron as scn

    if name.startswith('Ltotal'):
        return scn.Ltotal(da, scatter=name.endswith(':scatter'))
    return getattr(scn, name)(da)


def gen_da_cfg(rng):
    n = rng.randrange(1, 6)
    unit = rng.choice(UNITS)
    while True:
        kind, src, smp, _ = gen_positions(rng)
        if kind != 'zero' and src != smp:
            break
    scale = max(_norm([smp[i] - src[i] for i in range(3)]), 1e-6)
    pos = [[smp[i] + c * scale * _lu(rng, 1e-2, 1e2) for i, c in enumerate(_dir(rng))] for _ in range(n)]
    pre = {}
    if rng.random() < 0.25:
        subset = []
    else:
        subset = [k for k in PRECOMPUTABLE if rng.random() < 0.4] or [rng.choice(PRECOMPUTABLE)]
    for k in subset:
        scalar = (k in ('incident_beam', 'L1') and rng.random() < 0.6) or (n == 1 and rng.random() < 0.3)
        m = 1 if scalar else n
        if k in ('incident_beam', 'scattered_beam'):
            vals = [[hp.bits(c * scale * _lu(rng, 1e-2, 1e2)) for c in _dir(rng)] for _ in range(m)]
        elif k == 'two_theta':
            vals = [hp.bits(rng.uniform(0.0, math.pi)) for _ in range(m)]
        else:
            vals = [hp.bits(scale * _lu(rng, 1e-2, 1e2)) for _ in range(m)]
        pre[k] = {'scalar': scalar, 'values': vals}
    return {'unit': unit, 'position': [[hp.bits(x) for x in p] for p in pos], 'source_position': [hp.bits(x) for x in src],
            'sample_position': [hp.bits(x) for x in smp], 'pre': pre}


def expected_accessor(cfg, name, i):
    """what the accessor must return for pixel i: a supplied coordinate is used as is, anything else is derived from the
    (supplied or derived) quantities by its Euclidean definition.  Returns ('exact', floats) or ('len'|'angle', Decimal)."""
    pos = [hp.unbits(h) for h in cfg['position'][i]]
    src = [hp.unbits(h) for h in cfg['source_position']]
    smp = [hp.unbits(h) for h in cfg['sample_position']]
    pre = cfg['pre']

    def sup(k):
        sp_ = pre[k]
        v = sp_['values'][0 if sp_['scalar'] else i]
        return [hp.unbits(h) for h in v] if isinstance(v, list) else hp.unbits(v)
    if name == 'position':
        return 'exact', pos
    if name == 'source_position':
        return 'exact', src
    if name == 'sample_position':
        return 'exact', smp
    ib = sup('incident_beam') if 'incident_beam' in pre else [float(Fraction(smp[k]) - Fraction(src[k])) for k in range(3)]
    sb = sup('scattered_beam') if 'scattered_beam' in pre else [float(Fraction(pos[k]) - Fraction(smp[k])) for k in range(3)]
    if name == 'incident_beam':
        return 'exact', ib
    if name == 'scattered_beam':
        return 'exact', sb
    l1 = ('exact', [sup('L1')]) if 'L1' in pre else ('len', hp.V.of(ib).norm())
    l2 = ('exact', [sup('L2')]) if 'L2' in pre else ('len', hp.V.of(sb).norm())
    if name == 'L1':
        return l1
    if name == 'L2':
        return l2
    if name == 'two_theta':
        if 'two_theta' in pre:
            return 'exact', [sup('two_theta')]
        return 'angle', _true_angle(ib, sb)
    if name == 'Ltotal:scatter':
        a = hp.D(l1[1][0]) if l1[0] == 'exact' else l1[1]
        b = hp.D(l2[1][0]) if l2[0] == 'exact' else l2[1]
        return 'len', a + b
    if name == 'Ltotal:noscatter':
        return 'len', (hp.V.of(pos) - hp.V.of(src)).norm()
    raise KeyError(name)


def check_accessors(ctx, cfg, count=True):
    """every accessor twice on the same data array: identical results, Euclidean values, bit-identical input afterwards"""
    nviol = 0
    da = build_da(cfg)
    n = len(cfg['position'])
    before = _snap(da)
    for name in ACCESSORS:
        fn = name.replace(':scatter', '(scatter=True)').replace(':noscatter', '(scatter=False)')
        try:
            r1 = call_accessor(da, name)
            v1 = np.array(np.broadcast_to(r1.values, (n,) + np.shape(r1.values)[(1 if r1.ndim else 0):]) if r1.ndim == 0 else r1.values,
                          dtype=np.float64).copy()
            r2 = call_accessor(da, name)
            v2 = np.array(np.broadcast_to(r2.values, (n,) + np.shape(r2.values)[(1 if r2.ndim else 0):]) if r2.ndim == 0 else r2.values,
                          dtype=np.float64).copy()
        except Exception as e:  # noqa: BLE001
            pre = cfg['pre']
            ib_per_pixel = 'incident_beam' in pre and not pre['incident_beam']['scalar']
            sb_scalar = 'scattered_beam' in pre and pre['scattered_beam']['scalar']
            key = 'C03:unexpected-exception'
            if name == 'two_theta' and type(e).__name__ == 'DimensionError' and ib_per_pixel and sb_scalar:
                # same class as the kernel-level finding: the incident beam has a dim the scattered beam lacks
                key = 'C03:two-theta-raises:incident-dims-not-in-scattered'
            ctx.violation(key, f'scippneutron.{fn} raised {type(e).__name__}: {str(e)[:160]} (precomputed coordinates: '
                          f'{ {k: ("0-d" if v["scalar"] else "per-pixel") for k, v in pre.items()} })', {'cfg': cfg, 'accessor': name})
            nviol += 1
            continue
        if count:
            ctx.case(('acc2', name, repr(sorted(cfg['pre'])), tuple(cfg['position'][0])), True)
            ctx.count('oracle:accessor:' + name + (':pre' if cfg['pre'] else ''))
        after = _snap(da)
        if after != before:
            changed = sorted(k for k in set(before) | set(after) if before.get(k) != after.get(k))
            ctx.violation(f'C03:input-modified:{name.split(":")[0]}', f'scippneutron.{fn} changed the coordinates {changed} of the data array '
                          'it was given', {'cfg': cfg, 'accessor': name, 'changed': changed})
            return nviol + 1
        if v1.tobytes() != v2.tobytes():
            ctx.violation(f'C03:second-call-differs:{name.split(":")[0]}', f'scippneutron.{fn} called twice on the same data array returned '
                          f'{v1.ravel()[:3].tolist()} and then {v2.ravel()[:3].tolist()}', {'cfg': cfg, 'accessor': name})
            return nviol + 1
        for i in range(n):
            kind, want = expected_accessor(cfg, name, i)
            got = v1[i]
            if kind == 'exact':
                g = [float(x) for x in np.ravel(got)]
                bad = [hp.bits(x) for x in g] != [hp.bits(x) for x in want]
                desc = f'{want}'
            elif kind == 'len':
                slack = hp.D(0)
                if name == 'Ltotal:noscatter' or (name in ('L1', 'L2', 'Ltotal:scatter')):
                    # differences of positions are rounded once: condition-aware slack as in the pipeline oracle
                    pos = [hp.unbits(h) for h in cfg['position'][i]]
                    src = [hp.unbits(h) for h in cfg['source_position']]
                    smp = [hp.unbits(h) for h in cfg['sample_position']]
                    slack = hp.D(EPS) * (hp.V.of(pos).norm() + hp.V.of(src).norm() + 2 * hp.V.of(smp).norm())
                bad = not abs(hp.D(float(got)) - want) <= hp.D(2 * LEN_RTOL) * want + slack
                desc = hp.fmt(want)
            else:
                bad = not abs(hp.D(float(got)) - want) <= hp.D(ACC)
                desc = hp.fmt(want)
            if bad:
                key = 'C03:two-theta-accuracy' if kind == 'angle' else ('C03:length-definition' if kind == 'len' else 'C03:precomputed-coordinate-ignored')
                ctx.violation(key, f'scippneutron.{fn} = {np.ravel(got).tolist()} for pixel {i}; from the supplied/derived quantities the Euclidean '
                              f'definition gives {desc} (precomputed coordinates: {sorted(cfg["pre"])})',
                              {'cfg': cfg, 'accessor': name, 'pixel': i})
                nviol += 1
                break
    return nviol


def _oracle_accessors_repeatable(ctx, mult):
    rng = ctx.rng
    for _ in range(ctx.n(120, 3000) * mult):
        check_accessors(ctx, gen_da_cfg(rng))


# ---- configuration arguments: the `scatter` flag given with different Python types of the same truthiness ----

def flag_variants():
    """(label, value, truth) — values a caller may reasonably hold for a boolean flag"""
    import scipp as sc

    arr = sc.array(dims=['x'], values=[True, False])
    out = []
    for t in (True, False):
        out += [
            ('bool', t, t), ('numpy.bool_', np.bool_(t), t), ('int', 1 if t else 0, t), ('numpy.int64', np.int64(1 if t else 0), t),
            ('sc.scalar(..).value', sc.scalar(t).value, t), ('sc.array(..).values[i]', arr.values[0 if t else 1], t),
            ('np.any(..)', np.any(np.array([t])), t), ('sc.any(..).value', sc.any(sc.array(dims=['x'], values=[t, False])).value, t),
        ]
    return out


SCATTER_NODES = ['L1', 'L2', 'Ltotal', 'incident_beam', 'scattered_beam', 'two_theta']


def impl_scatter_flag(src, smp, poss, unit, flag, how):
    """one entry point taking a `scatter` flag → (per-pixel Ltotal values, sorted node names or None)"""
    import scipp as sc
    import scippneutron as scn
    from scippneutron.conversion.graph import beamline as gb

    n = len(poss)
    da = sc.DataArray(sc.ones(dims=['pixel'], shape=[n]), coords={
        'position': _vectors(poss, unit), 'source_position': _vector(src, unit), 'sample_position': _vector(smp, unit)})
    nodes = None
    if how == 'graph.beamline(scatter=)':
        g = gb.beamline(scatter=flag)
        nodes = sorted(g)
        v = da.transform_coords('Ltotal', graph=g, rename_dims=False).coords['Ltotal']
    elif how == 'graph.beamline(positional)':
        g = gb.beamline(flag)
        nodes = sorted(g)
        v = da.transform_coords('Ltotal', graph=g, rename_dims=False).coords['Ltotal']
    elif how == 'graph.Ltotal(scatter=)':
        g = gb.Ltotal(scatter=flag)
        nodes = sorted(g)
        v = da.transform_coords('Ltotal', graph=g, rename_dims=False).coords['Ltotal']
    elif how == 'graph.Ltotal(positional)':
        g = gb.Ltotal(flag)
        nodes = sorted(g)
        v = da.transform_coords('Ltotal', graph=g, rename_dims=False).coords['Ltotal']
    elif how == 'scn.Ltotal(da, scatter=)':
        v = scn.Ltotal(da, scatter=flag)
    elif how == 'scn.Ltotal(da, positional)':
        v = scn.Ltotal(da, flag)
    else:
        raise KeyError(how)
    vals = np.array(np.broadcast_to(v.values, (n,)) if v.ndim == 0 else v.values, dtype=np.float64)
    return vals, nodes, str(v.unit)


FLAG_ENTRY_POINTS = ['scn.Ltotal(da, scatter=)', 'scn.Ltotal(da, positional)', 'graph.beamline(scatter=)', 'graph.beamline(positional)',
                     'graph.Ltotal(scatter=)', 'graph.Ltotal(positional)']


def expected_nodes(how, truth):
    if how.startswith('scn.'):
        return None
    if not truth:
        return ['Ltotal']
    return SCATTER_NODES if 'beamline' in how else [k for k in SCATTER_NODES if k != 'two_theta']


def check_scatter_flag(ctx, src, smp, poss, unit, model_lines=None, count=True):
    """every entry point × every flag variant: the documented quantity for the flag's truth value.  With model_lines (outputs of
    `c03.graph` for the same positions) the values are also compared with the Lean graph model (correspondence)."""
    nviol = 0
    want = {True: [], False: []}
    for p_ in poss:
        want[True].append((hp.V.of(smp) - hp.V.of(src)).norm() + (hp.V.of(p_) - hp.V.of(smp)).norm())
        want[False].append((hp.V.of(p_) - hp.V.of(src)).norm())
    slack = [hp.D(EPS) * (hp.V.of(p_).norm() + hp.V.of(src).norm() + 2 * hp.V.of(smp).norm()) for p_ in poss]
    for how in FLAG_ENTRY_POINTS:
        for label, flag, truth in flag_variants():
            w = {'source': [hp.bits(x) for x in src], 'sample': [hp.bits(x) for x in smp], 'positions': [[hp.bits(x) for x in p_] for p_ in poss],
                 'unit': unit, 'entry_point': how, 'flag_type': label, 'flag_truth': truth, 'kind': 'scatter-flag'}
            if count:
                ctx.case(('flag', how, label, truth) + tuple(w['source'] + w['sample'] + w['positions'][0]), True)
                ctx.count('scatter-flag:' + label)
            try:
                vals, nodes, u = impl_scatter_flag(src, smp, poss, unit, flag, how)
            except Exception as e:  # noqa: BLE001
                ctx.violation('C03:scatter-flag-type', f'{how} with scatter given as {label} ({flag!r}) raised {type(e).__name__}: {str(e)[:120]}', w)
                nviol += 1
                continue
            en = expected_nodes(how, truth)
            if en is not None and nodes != en:
                ctx.violation('C03:scatter-flag-type', f'{how} with scatter = {flag!r} ({label}, truth value {truth}) returned a graph with nodes '
                              f'{nodes}; documented for scatter={truth}: {en}', w)
                nviol += 1
                continue
            for i in range(len(poss)):
                if not abs(hp.D(float(vals[i])) - want[truth][i]) <= hp.D(2 * LEN_RTOL) * want[truth][i] + slack[i]:
                    other = want[not truth][i]
                    ctx.violation('C03:scatter-flag-type', f'{how} with scatter = {flag!r} ({label}, truth value {truth}): Ltotal = {float(vals[i])!r}, '
                                  f'but {"L1+L2" if truth else "the straight source-to-pixel distance"} is {hp.fmt(want[truth][i])} '
                                  f'({"the straight distance" if truth else "L1+L2"} would be {hp.fmt(other)})', {**w, 'pixel': i})
                    nviol += 1
                    break
                if model_lines is not None:
                    toks = model_lines[i].split()
                    model = toks[9] if truth else toks[10]
                    if _b(vals[i]) != model:
                        ctx.disagree(w, _b(vals[i]), model, f'{how} with scatter={flag!r} ({label}): Ltotal differs bit-wise from the graph model '
                                                            f'for scatter={truth}')
                        break
    return nviol


def check_convert_flag(ctx, src, smp, poss, unit, count=True):
    """scn.convert(tof → wavelength) with the flag / origin / target given as other types: bit-identical to the plain call"""
    import scipp as sc
    import scippneutron as scn

    class Str(str):
        pass
    n = len(poss)
    us = 1.0
    da = sc.DataArray(sc.ones(dims=['pixel', 'tof'], shape=[n, 2]), coords={
        'tof': sc.array(dims=['tof'], values=[1000.0, 2000.0, 3500.0], unit='us'),
        'position': _vectors(poss, unit), 'source_position': _vector(src, unit), 'sample_position': _vector(smp, unit)})
    nviol = 0
    ref = {}
    for t in (True, False):
        r = scn.convert(da, origin='tof', target='wavelength', scatter=t)
        ref[t] = (np.array(r.coords['wavelength'].values).tobytes(), sorted(r.coords.keys()))
    w0 = {'source': [hp.bits(x) for x in src], 'sample': [hp.bits(x) for x in smp], 'positions': [[hp.bits(x) for x in p_] for p_ in poss],
          'unit': unit, 'kind': 'convert-flag'}
    calls = [(label, dict(origin='tof', target='wavelength', scatter=flag), (), truth) for label, flag, truth in flag_variants()]
    for t in (True, False):
        calls += [('origin/target as str subclass', dict(origin=Str('tof'), target=Str('wavelength'), scatter=t), (), t),
                  ('origin/target as numpy.str_', dict(origin=np.str_('tof'), target=np.str_('wavelength'), scatter=t), (), t),
                  ('positional arguments', {}, ('tof', 'wavelength', t), t)]
    for label, kw, pos_, truth in calls:
        if count:
            ctx.case(('convert-flag', label, truth) + tuple(w0['source'] + w0['positions'][0]), True)
            ctx.count('convert-flag:' + label)
        try:
            r = scn.convert(da, *pos_, **kw)
            got = (np.array(r.coords['wavelength'].values).tobytes(), sorted(r.coords.keys()))
        except Exception as e:  # noqa: BLE001
            got = f'raised {type(e).__name__}: {str(e)[:100]}'
        if got != ref[truth]:
            ctx.violation('C03:scatter-flag-type', f'scn.convert(tof→wavelength) with {label} (truth value {truth}) '
                          + (got if isinstance(got, str) else f'returned coordinates {got[1]} / other values than the plain call with scatter={truth} '
                             f'({ref[truth][1]})'), {**w0, 'variant': label, 'flag_truth': truth})
            nviol += 1
    return nviol


def check_standalone_graphs(ctx, cfg, count=True):
    """the stand-alone graphs L1(), L2(), two_theta(), Ltotal(scatter), incident_beam(), scattered_beam() on a data array that
    ALREADY carries (some of) incident_beam / scattered_beam / L1 / L2: each node must be computed from the documented inputs"""
    from scippneutron.conversion.graph import beamline as gb

    plan = {'incident_beam': gb.incident_beam, 'scattered_beam': gb.scattered_beam, 'L1': gb.L1, 'L2': gb.L2, 'two_theta': gb.two_theta,
            'Ltotal:scatter': lambda: gb.Ltotal(scatter=True), 'Ltotal:noscatter': lambda: gb.Ltotal(scatter=False)}
    n = len(cfg['position'])
    nviol = 0
    for name, factory in plan.items():
        da = build_da(cfg)
        node = name.split(':')[0]
        if count:
            ctx.case(('sgraph', name, repr(sorted(cfg['pre'])), tuple(cfg['position'][0])), True)
            ctx.count('oracle:standalone-graph:' + name)
        try:
            v = da.transform_coords(node, graph=factory(), rename_dims=False).coords[node]
            vals = np.array(np.broadcast_to(v.values, (n,) + np.shape(v.values)[(1 if v.ndim else 0):]) if v.ndim == 0 else v.values,
                            dtype=np.float64)
        except Exception as e:  # noqa: BLE001
            ctx.violation('C03:unexpected-exception', f'graph.beamline.{name}() through transform_coords raised {type(e).__name__}: {str(e)[:140]} '
                          f'(coordinates present: positions + {sorted(cfg["pre"])})', {'cfg': cfg, 'graph': name, 'kind': 'standalone-graph'})
            nviol += 1
            continue
        for i in range(n):
            kind, want = expected_accessor(cfg, name, i)
            got = vals[i]
            if kind == 'exact':
                bad = [hp.bits(float(x)) for x in np.ravel(got)] != [hp.bits(x) for x in want]
                desc = f'{want}'
            elif kind == 'len':
                pos = [hp.unbits(h) for h in cfg['position'][i]]
                src = [hp.unbits(h) for h in cfg['source_position']]
                smp = [hp.unbits(h) for h in cfg['sample_position']]
                slack = hp.D(EPS) * (hp.V.of(pos).norm() + hp.V.of(src).norm() + 2 * hp.V.of(smp).norm())
                bad = not abs(hp.D(float(got)) - want) <= hp.D(2 * LEN_RTOL) * want + slack
                desc = hp.fmt(want)
            else:
                bad = not abs(hp.D(float(got)) - want) <= hp.D(ACC)
                desc = hp.fmt(want)
            if bad:
                key = 'C03:two-theta-accuracy' if kind == 'angle' else ('C03:length-definition' if kind == 'len' else 'C03:beam-definition')
                ctx.violation(key, f'graph.beamline.{name}() gives {node} = {np.ravel(got).tolist()} for pixel {i}; the Euclidean definition from '
                              f'the supplied/derived quantities gives {desc} (coordinates present: positions + {sorted(cfg["pre"])})',
                              {'cfg': cfg, 'graph': name, 'pixel': i, 'kind': 'standalone-graph'})
                nviol += 1
                break
    return nviol


def _oracle_configuration(ctx, mult):
    rng = ctx.rng
    for _ in range(ctx.n(12, 150) * mult):
        while True:
            kind, src, smp, _ = gen_positions(rng)
            if kind != 'zero' and src != smp:
                break
        scale = max(_norm([smp[i] - src[i] for i in range(3)]), 1e-6)
        poss = [[smp[i] + c * scale * _lu(rng, 1e-2, 1e2) for i, c in enumerate(_dir(rng))] for _ in range(rng.randrange(1, 4))]
        unit = rng.choice(UNITS)
        check_scatter_flag(ctx, src, smp, poss, unit)
        check_convert_flag(ctx, src, smp, poss, 'm')
    for _ in range(ctx.n(80, 2000) * mult):
        cfg = gen_da_cfg(rng)
        if rng.random() < 0.6:
            # both beams supplied (with values that differ from the positions' differences): a node wired to the wrong kernel or
            # the wrong input then shows up as a wrong length instead of a missing-input error
            n = len(cfg['position'])
            for k in ('incident_beam', 'scattered_beam'):
                if k not in cfg['pre']:
                    cfg['pre'][k] = {'scalar': False, 'values': [[hp.bits(c * _lu(rng, 1e-2, 1e2)) for c in _dir(rng)] for _ in range(n)]}
            if cfg['pre']['incident_beam']['scalar'] is False and cfg['pre']['scattered_beam']['scalar'] is True:
                cfg['pre']['scattered_beam'] = {'scalar': False, 'values': [cfg['pre']['scattered_beam']['values'][0]] * n}
            for k in ('L1', 'L2', 'two_theta'):
                if rng.random() < 0.7:
                    cfg['pre'].pop(k, None)
        check_standalone_graphs(ctx, cfg)


def _dyadic_point(rng, bits_=20, e=None):
    e = rng.randrange(-10, 11) if e is None else e
    return [rng.randrange(-2 ** bits_, 2 ** bits_ + 1) * 2.0 ** (e - bits_) for _ in range(3)], e


def _oracle_pipeline(ctx, mult):
    """positions → beams, L1, L2, Ltotal, two_theta against the Euclidean definitions (exact rationals / decimals),
    through the kernels and through the public data-array accessors; translation and rotation of the whole beamline
    with exactly representable transformations."""
    rng = ctx.rng
    n = ctx.n(600, 40000) * mult
    cases = [gen_positions(rng) for _ in range(n)]
    cases = [c for c in cases if c[0] != 'zero']
    unit = rng.choice(UNITS)
    srcs, smps, poss = [c[1] for c in cases], [c[2] for c in cases], [c[3] for c in cases]
    for via, impl in (('kernels', impl_kernels(srcs, smps, poss, unit)),
                      ('dataarray', impl_dataarray(srcs, smps, poss, unit, False)),
                      ('graphs', impl_graph_factories(srcs, smps, poss, unit))):
        for i, (kind, s, m, p) in enumerate(cases):
            w = {'source': [hp.bits(x) for x in s], 'sample': [hp.bits(x) for x in m], 'position': [hp.bits(x) for x in p],
                 'values': [s, m, p], 'unit': unit, 'via': via}
            ctx.case(('pipe', via) + tuple(w['source'] + w['sample'] + w['position']), True)
            ctx.count('oracle:pipeline:' + via)
            # beams: correctly rounded differences
            eib = [float(Fraction(m[k]) - Fraction(s[k])) for k in range(3)]
            esb = [float(Fraction(p[k]) - Fraction(m[k])) for k in range(3)]
            gib, gsb = [float(x) for x in impl['ib'][i]], [float(x) for x in impl['sb'][i]]
            if [hp.bits(x) for x in gib] != [hp.bits(x) for x in eib] or [hp.bits(x) for x in gsb] != [hp.bits(x) for x in esb]:
                ctx.violation('C03:beam-definition', f'incident/scattered beam {gib}/{gsb} is not sample−source / position−sample '
                              f'= {eib}/{esb}', w)
                continue
            # lengths against the Euclidean norm of the exact differences of the positions
            d1 = (hp.V.of(m) - hp.V.of(s)).norm()
            d2 = (hp.V.of(p) - hp.V.of(m)).norm()
            dn = (hp.V.of(p) - hp.V.of(s)).norm()
            # the rounded difference has relative error ≤ eps/2 per component *of the beam* unless the subtraction
            # cancels; cancellation error is bounded by eps/2·(|a|+|b|) per component: condition-aware slack
            def slack(a, b):
                return hp.D(EPS) * (hp.V.of(a).norm() + hp.V.of(b).norm())
            for name, got, want, sl in (('L1', impl['L1'][i], d1, slack(m, s)), ('L2', impl['L2'][i], d2, slack(p, m)),
                                        ('Ltotal', impl['Lt'][i], d1 + d2, slack(m, s) + slack(p, m)),
                                        ('Ltotal(no scatter)', impl['Ltn'][i], dn, slack(p, s))):
                if not abs(hp.D(float(got)) - want) <= hp.D(LEN_RTOL) * want + sl:
                    ctx.violation('C03:length-definition', f'{name} = {float(got)!r}, Euclidean definition gives {hp.fmt(want)}',
                                  {**w, 'quantity': name})
            # angle between the (exactly known) beams
            truth = _true_angle(eib, esb)
            if not abs(hp.D(float(impl['tt'][i])) - truth) <= hp.D(ACC):
                ctx.violation('C03:two-theta-accuracy', f'two_theta = {float(impl["tt"][i])!r} from positions, Euclidean angle '
                              f'of the beams is {hp.fmt(truth)}', {**w, 'b1': [hp.bits(x) for x in eib], 'b2': [hp.bits(x) for x in esb]})
    # translation / rotation / unit change of the whole beamline with exact arithmetic (dyadic points)
    m_ = ctx.n(400, 24000) * mult
    base, moved, info = [], [], []
    for _ in range(m_):
        s, e = _dyadic_point(rng)
        m, _ = _dyadic_point(rng, e=e)
        p, _ = _dyadic_point(rng, e=e)
        if s == m or p == m:
            continue
        t, _ = _dyadic_point(rng, e=e + rng.randrange(0, 8))
        R = rng.choice(ROT345)
        c = _pow2(rng, -10, 10)

        def tr(v):
            r = _apply_int(R, v)  # exact: 20-bit mantissas × small integers
            return [c * (r[k] + 5 * t[k]) for k in range(3)]
        base.append((s, m, p))
        moved.append((tr(s), tr(m), tr(p)))
        info.append({'R': R, 't': t, 'c': c})
    a = impl_kernels([b[0] for b in base], [b[1] for b in base], [b[2] for b in base], 'm')
    b = impl_kernels([b[0] for b in moved], [b[1] for b in moved], [b[2] for b in moved], 'mm')
    for i in range(len(base)):
        f = 5 * info[i]['c']
        w = {'positions': [[hp.bits(x) for x in v] for v in base[i]], 'moved': [[hp.bits(x) for x in v] for v in moved[i]],
             'transform': {'R_over_5': info[i]['R'], 't': info[i]['t'], 'scale': f}}
        ctx.case(('move',) + tuple(sum(w['positions'], [])) + tuple(sum(w['moved'], [])), True)
        ctx.count('oracle:translation-rotation-scale')
        if not abs(float(a['tt'][i]) - float(b['tt'][i])) <= 2 * ACC:
            ctx.violation('C03:translation', f'two_theta changes from {float(a["tt"][i])!r} to {float(b["tt"][i])!r} when the whole '
                          'beamline is rotated, translated and its length unit rescaled', w)
        for q in ('L1', 'L2', 'Lt', 'Ltn'):
            if not abs(float(b[q][i]) - f * float(a[q][i])) <= 4 * LEN_RTOL * f * float(a[q][i]):
                ctx.violation('C03:translation', f'{q} changes from {float(a[q][i])!r}·{f} to {float(b[q][i])!r} when the whole '
                              'beamline is rotated, translated and rescaled', {**w, 'quantity': q})


# ---------------------------------------------------------------------------------------------

def replay(ctx, payload):
    try:
        return _replay(ctx, payload)
    except ImplRaised as e:
        print('implementation raised:', e)
        return True


def _replay(ctx, payload):
    w = payload.get('witness', {})
    key = payload.get('key', '')
    if w.get('kind') in ('scatter-flag', 'convert-flag', 'standalone-graph'):
        class Sink2:
            def violation(self, key, what, witness):
                print('  ', key, '—', what)

            def case(self, *a, **k):
                pass

            def count(self, *a, **k):
                pass

            def disagree(self, *a, **k):
                pass
        with hp.precision():
            if w['kind'] == 'standalone-graph':
                return check_standalone_graphs(Sink2(), w['cfg'], count=False) > 0
            src, smp = [hp.unbits(h) for h in w['source']], [hp.unbits(h) for h in w['sample']]
            poss = [[hp.unbits(h) for h in p_] for p_ in w['positions']]
            if w['kind'] == 'scatter-flag':
                return check_scatter_flag(Sink2(), src, smp, poss, w['unit'], count=False) > 0
            return check_convert_flag(Sink2(), src, smp, poss, w['unit'], count=False) > 0
    if 'cfg' in w:
        class Sink:
            def violation(self, key, what, witness):
                print('  ', key, '—', what)

            def case(self, *a, **k):
                pass

            def count(self, *a, **k):
                pass
        with hp.precision():
            return check_accessors(Sink(), w['cfg'], count=False) > 0
    if 'batch' in w:
        with hp.precision():
            bt = w['batch']
            b1s = [[hp.unbits(h) for h in b] for b in bt['b1']]
            b2s = [[hp.unbits(h) for h in b] for b in bt['b2']]
            u1, u2 = w.get('units', ['m', 'm'])
            tt = impl_two_theta(b1s, b2s, u1, u2)
            k1, k2 = bt['scales']
            tts = impl_two_theta([[c * k1 for c in b] for b in b1s], [[c * k2 for c in b] for b in b2s], u1, u2)
            bad = False
            for i in range(len(b1s)):
                truth = _true_angle(b1s[i], b2s[i])
                if abs(hp.D(float(tt[i])) - truth) > hp.D(ACC) or abs(float(tts[i]) - float(tt[i])) > 2 * ACC:
                    print(f'pixel {i}: two_theta = {float(tt[i])!r}, rescaled {float(tts[i])!r}; Euclidean angle {hp.fmt(truth)}')
                    bad = True
            return bad
    if w.get('kind') == 'beam-dims':
        with hp.precision():
            bad = _dims_case_violation(w['b1_values'], tuple(w['dims1']), w['b2_values'], tuple(w['dims2']), *w['units'])
        print(bad)
        return bad is not None
    if w.get('kind') == 'raises':
        b1 = [hp.unbits(h) for h in w['b1']]
        b2 = [hp.unbits(h) for h in w['b2']]
        try:
            impl_two_theta_0d_b2([b1, b1], b2, *w.get('units', ['m', 'm']))
        except ImplRaised as e:
            print('raised:', e)
            return True
        return False
    if 'mode' in w and 'b1' in w:
        with hp.precision():
            b1 = [hp.unbits(h) for h in w['b1']]
            b2 = [hp.unbits(h) for h in w['b2']]
            u1, u2 = w.get('units', ['m', 'm'])

            def run(bb1):
                if w['mode'] == '0d-b2':
                    return float(impl_two_theta_0d_b2([bb1], b2, u1, u2)[0])
                return float(impl_two_theta_0d(bb1, [b2], u1, u2, scalar_b2=(w['mode'] == 'both-0d'))[0])
            t, truth = run(b1), _true_angle(b1, b2)
            print(f'two_theta ({w["mode"]}) = {t!r}; Euclidean angle of the exact inputs = {hp.fmt(truth)}')
            bad = abs(hp.D(t) - truth) > hp.D(ACC)
            if 'sb1' in w:
                sb1 = [hp.unbits(h) for h in w['sb1']]
                ts, truth_s = run(sb1), _true_angle(sb1, b2)
                print(f'rescaled by {w["scale_b1"]}: two_theta = {ts!r}; Euclidean angle = {hp.fmt(truth_s)}')
                bad = bad or abs(hp.D(ts) - truth_s) > hp.D(ACC) or abs(hp.D(ts) - hp.D(t)) > abs(truth_s - truth) + hp.D(2 * ACC)
            return bad
    if key == 'C03:unexpected-exception':
        if 'b1' in w:
            impl_two_theta([[hp.unbits(h) for h in w['b1']]], [[hp.unbits(h) for h in w['b2']]], *w.get('units', ['m', 'm']))
        else:
            s, m, p = ([hp.unbits(h) for h in w[k]] for k in ('source', 'sample', 'position'))
            impl_kernels([s], [m], [p], w.get('unit', 'm'))
            impl_dataarray([s], [m], [p], w.get('unit', 'm'), False)
            impl_graph_factories([s], [m], [p], w.get('unit', 'm'))
        return False
    with hp.precision():
        if 'b1' in w and 'b2' in w and key in ('C03:two-theta-accuracy', 'C03:two-theta-range', 'C03:two-theta-symmetry',
                                                'C03:two-theta-scale', 'C03:two-theta-rotation'):
            b1 = [hp.unbits(h) for h in w['b1']]
            b2 = [hp.unbits(h) for h in w['b2']]
            t = float(impl_two_theta([b1], [b2])[0])
            truth = _true_angle(b1, b2)
            print(f'two_theta = {t!r}; Euclidean angle of the exact inputs = {hp.fmt(truth)}')
            bad = not (0.0 <= t <= math.pi) or abs(hp.D(t) - truth) > hp.D(ACC)
            t2 = float(impl_two_theta([b2], [b1])[0])
            bad = bad or not abs(t2 - t) <= 2 * ACC
            if 'scales' in w:
                t3 = float(impl_two_theta([[x * w['scales'][0] for x in b1]], [[x * w['scales'][1] for x in b2]])[0])
                bad = bad or not abs(t3 - t) <= 2 * ACC
            if 'perm' in w:
                pm, sg = w['perm'], w['signs']
                t4 = float(impl_two_theta([[sg[k] * b1[pm[k]] for k in range(3)]], [[sg[k] * b2[pm[k]] for k in range(3)]])[0])
                bad = bad or not abs(t4 - t) <= 2 * ACC
            if 'rb1' in w:
                t5 = float(impl_two_theta([[hp.unbits(h) for h in w['rb1']]], [[hp.unbits(h) for h in w['rb2']]])[0])
                bad = bad or not abs(t5 - t) <= 2 * ACC + 64 * EPS
            return bad
        if key in ('C03:beam-definition', 'C03:length-definition') or (key == 'C03:two-theta-accuracy' and 'source' in w):
            s, m, p = ([hp.unbits(h) for h in w[k]] for k in ('source', 'sample', 'position'))
            if True:
                for impl in (impl_kernels([s], [m], [p], w.get('unit', 'm')), impl_dataarray([s], [m], [p], w.get('unit', 'm'), False),
                             impl_graph_factories([s], [m], [p], w.get('unit', 'm'))):
                    eib = [float(Fraction(m[k]) - Fraction(s[k])) for k in range(3)]
                    esb = [float(Fraction(p[k]) - Fraction(m[k])) for k in range(3)]
                    if [hp.bits(float(x)) for x in impl['ib'][0]] != [hp.bits(x) for x in eib]:
                        return True
                    if [hp.bits(float(x)) for x in impl['sb'][0]] != [hp.bits(x) for x in esb]:
                        return True
                    d1 = (hp.V.of(m) - hp.V.of(s)).norm()
                    d2 = (hp.V.of(p) - hp.V.of(m)).norm()
                    dn = (hp.V.of(p) - hp.V.of(s)).norm()
                    sl = lambda a, b: hp.D(EPS) * (hp.V.of(a).norm() + hp.V.of(b).norm())  # noqa: E731
                    for got, want, s_ in ((impl['L1'][0], d1, sl(m, s)), (impl['L2'][0], d2, sl(p, m)),
                                          (impl['Lt'][0], d1 + d2, sl(m, s) + sl(p, m)), (impl['Ltn'][0], dn, sl(p, s))):
                        if not abs(hp.D(float(got)) - want) <= hp.D(LEN_RTOL) * want + s_:
                            return True
                    if not abs(hp.D(float(impl['tt'][0])) - _true_angle(eib, esb)) <= hp.D(ACC):
                        return True
            return False
        if key == 'C03:translation':
            a = impl_kernels(*[[[hp.unbits(h) for h in v]] for v in w['positions']], 'm')
            b = impl_kernels(*[[[hp.unbits(h) for h in v]] for v in w['moved']], 'mm')
            f = w['transform']['scale']
            bad = not abs(float(a['tt'][0]) - float(b['tt'][0])) <= 2 * ACC
            for q in ('L1', 'L2', 'Lt', 'Ltn'):
                bad = bad or not abs(float(b[q][0]) - f * float(a[q][0])) <= 4 * LEN_RTOL * f * float(a[q][0])
            return bad
    print('no specific replay for key', key)
    return False


LEVEL_TEXT = (
    'Lean 4 theorems over ℝ about a transcription of the kernels: beams, L1, L2, Ltotal (with and without scatter) are '
    'the Euclidean differences/distances (also stated in Mathlib\'s EuclideanSpace ℝ (Fin 3): norm, dist); two_theta '
    '(Kahan formula, operation order transcribed) equals arccos(<b1,b2>/(|b1||b2|)) = InnerProductGeometry.angle for all '
    'non-zero beams, lies in [0,π] for every input, is symmetric, invariant under positive rescaling of either beam, '
    'under every dot-product-preserving map (all orthogonal 3×3 matrices), and the positions→(L1,L2,Ltotal,2θ) pipeline '
    'is invariant under common translation, rotation/reflection and change of length unit. The model runs bit-for-bit '
    'against the Python kernels (Float instance; atan2 within 2 ulp) on every check run. The 1e-15 rad floating-point '
    'accuracy clause is validated against a 70-digit reference on exact binary inputs (dyadic families and '
    'random/near-degenerate floats), tolerance 4e-15 rad.'
)
LEVEL_NOTE = (
    'Trusted: Lean kernel, propext/Classical.choice/Quot.sound, the hand transcription Model/Beamline.lean (tied by '
    'bit-level correspondence on every run), scipp element-wise broadcasting, the decimal reference of the oracle. '
    'Floating-point accuracy of two_theta is validated, not proved.'
)
TECHNIQUE = 'Lean 4 proof over ℝ of an executable model + bit-level model/implementation correspondence + exact-input accuracy oracle'
