"""Helpers of the C14 check: an independent CIF 1.1 reader written from the grammar (regex/scan
style, deliberately different from the Lean state machine), the protocol encoding, and the
generators.  Nothing here imports scippneutron at module level."""
from __future__ import annotations

import re

WS = ' \t\n\r'
EOL = '\n\r'


class CifSyntaxError(Exception):
    def __init__(self, why, pos=None):
        super().__init__(why)
        self.why = why
        self.pos = pos


def classify_bare(tok: str):
    c = tok[0]
    if c == '_':
        if len(tok) == 1:
            raise CifSyntaxError('lone underscore')
        return ('T', tok[1:])
    if c == '$':
        raise CifSyntaxError('frame code')
    if c in '[]':
        raise CifSyntaxError('bracket')
    low = ''.join(chr(ord(ch) + 32) if 'A' <= ch <= 'Z' else ch for ch in tok)
    if low.startswith('data_'):
        if len(tok) == 5:
            raise CifSyntaxError('empty block name')
        return ('D', tok[5:])
    if low.startswith('save_'):
        raise CifSyntaxError('save frame')
    if low == 'loop_':
        return ('L',)
    if low in ('stop_', 'global_'):
        raise CifSyntaxError('reserved word ' + low)
    return ('V', tok)


def py_tokenize(text: str):
    """CIF 1.1 tokens: ('D', name) ('L',) ('T', name) ('V', string).  Raises CifSyntaxError."""
    toks = []
    n = len(text)
    pos = 0
    while pos < n:
        c = text[pos]
        if c in WS:
            pos += 1
            continue
        line_start = pos == 0 or text[pos - 1] in EOL
        if c == '#':
            while pos < n and text[pos] not in EOL:
                pos += 1
            continue
        if c == ';' and line_start:
            j = pos + 1
            end = None
            while j < n:
                if text[j] == ';' and text[j - 1] in EOL:
                    end = j
                    break
                j += 1
            if end is None:
                raise CifSyntaxError('unterminated text field', pos)
            toks.append(('V', text[pos + 1:end - 1]))
            pos = end + 1
            if pos < n and text[pos] not in WS:
                raise CifSyntaxError('text field terminator not followed by white space', pos)
            continue
        if c in '\'"':
            j = pos + 1
            while True:
                if j >= n:
                    raise CifSyntaxError('unterminated quoted string', pos)
                d = text[j]
                if d == c and (j + 1 == n or text[j + 1] in WS):
                    break
                if d in EOL:
                    raise CifSyntaxError('end of line in quoted string', pos)
                j += 1
            toks.append(('V', text[pos + 1:j]))
            pos = j + 1
            continue
        j = pos
        while j < n and text[j] not in WS:
            j += 1
        toks.append(classify_bare(text[pos:j]))
        pos = j
    return toks


def py_parse(text: str):
    """-> list of (block name, [('P', tag, value) | ('L', [tags], [values])]); raises CifSyntaxError."""
    for ch in text:
        o = ord(ch)
        if not (32 <= o <= 126 or o in (9, 10, 13)):
            raise CifSyntaxError('character outside printable ASCII')
    toks = py_tokenize(text)
    blocks = []
    i = 0
    n = len(toks)
    cur = None
    while i < n:
        t = toks[i]
        if t[0] == 'D':
            cur = (t[1], [])
            blocks.append(cur)
            i += 1
        elif cur is None:
            raise CifSyntaxError('data item outside a data block')
        elif t[0] == 'T':
            if i + 1 >= n or toks[i + 1][0] != 'V':
                raise CifSyntaxError('tag without value')
            cur[1].append(('P', t[1], toks[i + 1][1]))
            i += 2
        elif t[0] == 'L':
            i += 1
            tags = []
            while i < n and toks[i][0] == 'T':
                tags.append(toks[i][1])
                i += 1
            vals = []
            while i < n and toks[i][0] == 'V':
                vals.append(toks[i][1])
                i += 1
            if not tags or not vals or len(vals) % len(tags):
                raise CifSyntaxError('malformed loop')
            cur[1].append(('L', tags, vals))
        else:
            raise CifSyntaxError('value without tag')
    return blocks


# ---- protocol ---------------------------------------------------------------------------------

def enc(s: str) -> str:
    return ''.join('%06x' % ord(c) for c in s) if s else '-'


def dec(w: str) -> str:
    if w == '-':
        return ''
    return ''.join(chr(int(w[i:i + 6], 16)) for i in range(0, len(w), 6))


def parse_driver_blocks(line: str):
    """decode the output of `c14.parse`"""
    if line == 'none':
        return None
    w = line.split(' ')
    assert w[0] == 'ok', line
    nb = int(w[1])
    i = 2
    blocks = []
    for _ in range(nb):
        assert w[i] == 'B'
        name = dec(w[i + 1])
        ni = int(w[i + 2])
        i += 3
        items = []
        for _ in range(ni):
            if w[i] == 'P':
                items.append(('P', dec(w[i + 1]), dec(w[i + 2])))
                i += 3
            else:
                nt, nv = int(w[i + 1]), int(w[i + 2])
                i += 3
                tags = [dec(x) for x in w[i:i + nt]]
                i += nt
                vals = [dec(x) for x in w[i:i + nv]]
                i += nv
                items.append(('L', tags, vals))
        blocks.append((name, items))
    assert i == len(w), line
    return blocks


def backslashreplace(s: str) -> str:
    """independent statement of the escaping rule (not calling the codec)"""
    out = []
    for c in s:
        o = ord(c)
        if o < 128:
            out.append(c)
        elif o < 0x100:
            out.append('\\x%02x' % o)
        elif o < 0x10000:
            out.append('\\u%04x' % o)
        else:
            out.append('\\U%08x' % o)
    return ''.join(out)


def cif_strip(s: str) -> str:
    return s.strip(WS)


# ---- value grammar -----------------------------------------------------------------------------

SPECIAL = ['_', '#', '$', ';', '[', ']', "'", '"', '\t', '\n', ' ']
KEYWORDS = ['loop_', 'data_', 'data_x', 'global_', 'stop_', 'save_', 'save_f', 'LOOP_', 'Data_1', 'GLOBAL_',
            'sToP_', 'SAVE_x', 'loop_x', 'global_1', 'xloop_', 'data', 'loop', '?', '.']
NONASCII = ['\xb5', '\xc5', '\xe9', '\x85', '\xa0', '\u2028', '\u2029', '\u03bb', '\u212b', '\U0001f600', '\xff',
            '\u0100', '\uffff', '\U00010000']
WORDS = ['a', 'x1', 'abc', 'water', 'Fe2O3', '12', '1.5', '-3', 'A-b', 'p.q', 'm/s', 'x@y.z', 'it', 's',
         'C:\\x', '(1)', 'a,b', 'x=y', '%', '^', '~', '`', '{}', '|', '&', '*', '!', '<>', '+1']
KNOWN_BAD = ['_abc', '#abc', '$x', '[a]', ']', 'loop_', 'data_x', 'global_', 'stop_', 'save_x', 'LOOP_', 'Data_1',
             'a\tb', '\tb', 'a\t', ';abc', ';', 'x\n;y', 'a\n;', '\n;', '_', '#', '$', '[', 'a\n;\nb']
KNOWN_GOOD = ['', ' ', 'a b', "it's", 'say "x"', '\'a\' "b"', 'a\nb', '\n', 'a\n', 'a;b', 'a#b', 'a_b', 'a$b', 'a[b]',
              "a' b", 'a" b', "'", '"', "''", '\'"', 'x\ty z', "a'\tb", 'loop', 'data', 'xdata_', '-_', '\xb5m',
              '; x', 'a\n ;b', "a' b\"", '?', '.', '\\', 'a\\nb']


def gen_value(rng) -> str:
    r = rng.random()
    if r < 0.07:
        return rng.choice(KNOWN_BAD)
    if r < 0.14:
        return rng.choice(KNOWN_GOOD)
    if r < 0.20:
        return rng.choice(KEYWORDS) + rng.choice(['', '', 'x', '1', ' ', '_'])
    if r < 0.26:
        return rng.choice(SPECIAL) + rng.choice(WORDS)
    if r < 0.30:
        return rng.choice(WORDS) + rng.choice(SPECIAL)
    if r < 0.34:
        return rng.choice(WORDS) + '\n' + rng.choice([';', ' ;', ';x', '#', '_a', 'loop_', "'", 'data_q', '']) + rng.choice(WORDS + [''])
    if r < 0.40:
        return rng.choice(WORDS)
    n = rng.choice([1, 1, 2, 2, 3, 3, 4, 5, 6, 8, 12])
    parts = []
    for _ in range(n):
        q = rng.random()
        if q < 0.38:
            parts.append(rng.choice(SPECIAL))
        elif q < 0.78:
            parts.append(rng.choice(WORDS))
        elif q < 0.86:
            parts.append(rng.choice(KEYWORDS))
        elif q < 0.94:
            parts.append(rng.choice(NONASCII))
        else:
            parts.append(chr(rng.randrange(33, 127)))
    return ''.join(parts)


def gen_benign_value(rng) -> str:
    """values every variant of the writer handles (used for bulk content of large loops)"""
    r = rng.random()
    if r < 0.5:
        return rng.choice(WORDS)
    if r < 0.7:
        return rng.choice(WORDS) + ' ' + rng.choice(WORDS)
    if r < 0.8:
        return rng.choice(WORDS) + rng.choice(["'", '"', '#', '_', ';', '$', '[', ']']) + rng.choice(WORDS)
    if r < 0.9:
        return rng.choice(KNOWN_GOOD)
    return rng.choice(WORDS) + rng.choice(NONASCII)


TAG_CHARS = 'abcdefghijklmnopqrstuvwxyzABCDEFGHIJKLMNOPQRSTUVWXYZ0123456789_.-[]()/%#;\'"$'


def gen_tag(rng, used) -> str:
    while True:
        r = rng.random()
        if r < 0.6:
            t = rng.choice(['cell', 'pd_meas', 'diffrn', 'audit', 'x', 'A_b']) + '.' + rng.choice(
                ['a', 'id', 'length_a', 'value', 'info', 'T'])
        else:
            t = ''.join(rng.choice(TAG_CHARS) for _ in range(rng.randrange(1, 9)))
        if r < 0.3:
            t += str(rng.randrange(100))
        if t not in used:
            used.add(t)
            return t


def gen_comment(rng) -> str:
    r = rng.random()
    if r < 0.45:
        return ''
    if r < 0.6:
        return rng.choice(['a comment', 'Guessed', 'x', '#', ' ', '_tag value', 'data_x', 'loop_', ';', "it's"])
    n = rng.randrange(1, 5)
    seps = ['\n', '\n', '\n', '\r\n', '\r', '\x0b', '\x0c', '\x1c', '\x1d', '\x1e', '\x85', '\u2028', '\u2029', '\n\n']
    parts = []
    for i in range(n):
        parts.append(rng.choice(['line', '_a b', '; x', '#', "'q", 'data_z', 'loop_', 'µ', '', ' lead', 'tab\there',
                                 gen_value(rng).replace('\n', ' ')]))
        if i < n - 1 or rng.random() < 0.3:
            parts.append(rng.choice(seps))
    return ''.join(parts)


def gen_block_name(rng) -> str:
    r = rng.random()
    if r < 0.05:
        return ''
    if r < 0.5:
        return rng.choice(['a-block-name', 'looped', 'x', 'my/name', 'data_', 'loop_', '#1', "q'", '_b', ';n', 'N1'])
    if r < 0.6:
        return rng.choice(['a b', 'a\tb', 'a\nb', ' ', 'x ', '\xb5 m'])           # rejected by the setter
    s = ''.join(rng.choice(TAG_CHARS + '\xb5\u2028') for _ in range(rng.randrange(1, 10)))
    return s
