"""C05 — inelastic energy transfer conserves energy; NaN exactly for unphysical times; never infinite."""
from __future__ import annotations

import math
import struct
from decimal import Decimal, getcontext
from fractions import Fraction

import numpy as np

PROP = 'C05'
LEAN_TARGETS = ['ScnVerif.Props.C05']
PROPS_FILE = 'ScnVerif/Props/C05.lean'
TRANSLATORS: list = []

EPS64 = Fraction(1, 10**11)   # property tolerance, double precision
EPS32 = Fraction(1, 10**5)    # property tolerance, single precision
TO_UNIT_REL = 1e-12           # scipp.to_unit vs the exact ratio of unit scales (observed <= 1.3e-13)
BAND_ULPS = 8                 # NaN boundary: rounding of the code's own t0 (see ASSUMPTIONS)

RULE = (
    'configurations = (geometry, energy unit, tof unit, L1 unit, L2 unit, energy dtype, tof dtype) drawn from the '
    'grid {meV,eV,J,ueV} x {ns,us,ms,s} x {mm,cm,m,km,angstrom}^2 x {f64,f32,i64,i32}^2 for energy and tof x {f64,f32,i64,i32}^2 for '
    'L1 and L2 (integers where the numeric values are meaningful integers: ueV, ns/us, mm/cm/m; every operand has its own unit) x '
    '{direct,indirect}; per '
    'configuration Ei, Ef log-uniform in 1e-3..1e4 meV and L1, L2 log-uniform in 0.1..1e3 m, expressed in the '
    'configuration units and rounded to the dtype; L1 and L2 are float64 (as the beamline graph produces them) or float32 '
    'operands, independently;  arrival times are (a) the simulated neutron '
    't=L1/v(Ei)+L2/v(Ef) rounded to the tof dtype, (b) the code\'s own fl(t0) and its +-1,2,3,17 neighbours in the '
    'tof dtype, (c) log-uniform 1e-7..1e3 s, (d) zero and negative; (e) array-shaped operands: 1-d time axes ascending / descending / shuffled / with repeated values, pixel x tof with per-pixel (or per-tof) L1, L2, energy and 2-d tof, placed so that none / some / all elements and pixels are unphysical, with exact ties t = fl(t0) inside the array, also through convert(); every element is judged by the scalar oracle for its own operands and compared with the model applied element-wise; result dims = union of the operand dims. (f) call sequences: 2-4 consecutive calls of the kernels (20 % through convert) that reuse the same operand objects with an in-place modification (values, *=, unit preserved) of energy / L1 / L2 / tof between calls, identical repeats and alternating direct / indirect calls sharing objects; every call is judged for the current operand values and must equal the same call on fresh copies bit for bit (key C05:history-dependent). A case is distinct by (configuration, operand '
    'bit patterns). Values are compared under the condition-aware tolerance eps*(max(E_fixed,E_var)+E_var*t0/|t-t0|) '
    'where, in the ORACLE, eps follows the RESULT dtype (1e-11 for a float64 result whatever the operand dtypes, 1e-5 for a float32 result) — except the dtype patterns in which the unchanged code is only single-precision accurate (energy float32 with a non-float32 tof, or a float32 length of the variable leg; key C05:mixed-precision:<kernel>, known), which get the 1e-5 budget; a float32 tof or fixed-leg length with float64 energy is held to 1e-11 and to a NaN-boundary band of 8 double-precision ulps; the model/implementation correspondence uses eps=1e-11 (all double) or 1e-5 (any single-precision operand among energy, tof, L1, L2); NaN-ness, finiteness, unit and dtype exactly. '
    'Conservation against Ei-Ef is demanded when both legs are comparable (t0/(t-t0) <= 100), with the rounding of '
    'the constructed arrival time (2*u*E_var*t/(t-t0)) not charged to the kernel.'
)
ASSUMPTIONS = [
    'standard model of floating-point arithmetic: the never-infinite theorem is proved for any monotone rounding '
    'that fixes the floats (no overflow/underflow of t - t0 itself); finiteness is validated exactly on every case',
    'NaN boundary: the code compares the arrival time with its own rounded t0; the oracle requires NaN for '
    f't <= t0_exact*(1-{BAND_ULPS}u), a finite value for t >= t0_exact*(1+{BAND_ULPS}u), either in between, and a '
    'single NaN->finite switch along each ladder (u = unit roundoff of the least precise of energy and tof)',
    'scipp: to_unit multiplies by the ratio of unit scales to within 1e-12 relative (LLNL-units snaps some compound '
    'factors; observed deviation <= 1.3e-13) and the oracle takes the constant m_n/2 in unit(E)*(unit(t)/unit(L))**2 '
    'as scipp.to_unit delivers it; x**2 equals x*x; binary operations promote f32 to f64; '
    'element-wise broadcasting applies the scalar code to every element',
    'exact reference: scipp.constants.m_n and the unit scales taken as the exact rationals of their float64 values; '
    'square roots in 60-digit decimal arithmetic',
]
TRUSTED = [
    'modelled, not verified: scippneutron.conversion.tof._common_dtype, _energy_constant, _energy_transfer_t0, '
    'energy_transfer_direct_from_tof, energy_transfer_indirect_from_tof (lean/ScnVerif/Model/Inelastic.lean)',
    'lengths: float64, float32 and integer operands are modelled (LenCast: astype(dtype) in t0, L**2 in the length\'s own '
    'precision promoted to float64 in scale); integer operands (energy, tof, lengths) run on the float64 carrier with their '
    'exact integer values (squares below 2^53 are exact); an int32 length of the variable leg cannot be evaluated by scipp (pow is '
    'undefined for int32) and is counted, not tested',
]
LEVEL_TEXT = (
    'Lean 4 theorems over the reals about the executable model of the two inelastic kernels: for every positive '
    'choice of unit scales the t0 of the code is the flight time of the fixed-energy leg, both kernels return '
    'exactly Ei-Ef (in the unit of the supplied energy) for a neutron arriving at L1/v(Ei)+L2/v(Ef), the result '
    'is the documented formula for every later arrival time, it is NaN exactly when t <= t0, and next to the '
    'boundary the variable-leg energy is bounded by E*(L_var/L_fixed)^2*4^p for precision-p floats (below the '
    'overflow threshold for the stated ranges). The same definitions run at Float/Float32 and are compared with '
    'the Python kernels on every run.'
)
LEVEL_NOTE = (
    'Rounding: under the standard model (each + - * / with relative error <= u) the variable leg and the final '
    'subtraction are proved to return Ei-Ef up to u(|Ei|+|Ef|) + (1+u)*5w/(1-5w)*E_var with the condition-aware level '
    'w = (1+u)*(k u/(1-k u))*t0/(t-t0) + u (theorems direct/indirect_rounding_conservation, rounding_level_of_t0); that the '
    'computed t0 and scale carry k <= 5 resp. <= 3 roundings, and the actual Float instances, are validated against an exact '
    'rational/decimal reference; the float-spacing lemma assumes an unbounded exponent range.'
)
TECHNIQUE = 'Lean 4 proof over an executable carrier-generic model + bit-level model/implementation correspondence'

E_UNITS = ['meV', 'eV', 'J', 'ueV']
T_UNITS = ['ns', 'us', 'ms', 's']
L_UNITS = ['mm', 'cm', 'm', 'km', 'angstrom']
NP = {'f64': np.float64, 'f32': np.float32, 'i64': np.int64, 'i32': np.int32}
SC = {'f64': 'float64', 'f32': 'float32', 'i64': 'int64', 'i32': 'int32'}
INTS = ('i64', 'i32')


# ---- small helpers ----------------------------------------------------------------------------

def bits(x) -> str:
    return struct.pack('>d', float(x)).hex()


def unbits(h: str) -> float:
    return struct.unpack('>d', bytes.fromhex(h))[0]


_scale_cache: dict = {}


def scale(unit: str, base: str) -> Fraction:
    import scipp as sc

    key = (unit, base)
    if key not in _scale_cache:
        _scale_cache[key] = Fraction(float(sc.to_unit(sc.scalar(1.0, unit=unit), base).value))
    return _scale_cache[key]


def m_n() -> Fraction:
    import scipp.constants as const

    return Fraction(float(const.m_n.value))


def D(fr) -> Decimal:
    if isinstance(fr, Decimal):
        return fr
    fr = Fraction(fr)
    return Decimal(fr.numerator) / Decimal(fr.denominator)


def speed(E_si: Fraction) -> Decimal:
    return (D(2 * E_si / m_n())).sqrt()


def kernel_const(uE: str, ut: str, uL: str) -> float:
    """what `sc.to_unit(const.m_n / 2, unit(E) * (unit(t)/unit(L))**2)` evaluates to (scipp only)"""
    import scipp as sc
    import scipp.constants as const

    return float(sc.to_unit(const.m_n / 2, sc.Unit(uE) * (sc.Unit(ut) / sc.Unit(uL)) ** 2, copy=False).value)


def mode_of(eD: str, tD: str) -> str:
    if eD == 'f32' and tD == 'f32':
        return 'ss'
    if eD == 'f32':
        return 'sd'
    return 'dd'


def out_dtype(eD: str, tD: str) -> str:
    return 'float32' if (eD == 'f32' and tD == 'f32') else 'float64'


def eps_of(*dtypes: str) -> Fraction:
    """property tolerance: single precision as soon as any operand (energy, tof, L1, L2) is single precision"""
    return EPS32 if 'f32' in dtypes else EPS64


def u_of(d: str) -> Fraction:
    return Fraction(1, 2**24) if d == 'f32' else Fraction(1, 2**53)


def lu(rng, lo, hi):
    return math.exp(rng.uniform(math.log(lo), math.log(hi)))


def cast(x: float, d: str):
    if d in INTS:
        return NP[d](min(max(1, round(x)), 2**31 - 5000 if d == 'i32' else 2**62))
    return NP[d](x)


def neighbours(x, d: str, k: int):
    """k-th neighbour of x in dtype d (k may be negative)"""
    if d in INTS:
        return NP[d](int(x) + k)
    t = NP[d]
    y = t(x)
    for _ in range(abs(k)):
        y = np.nextafter(y, t(np.inf if k > 0 else -np.inf))
    return y


# ---- configurations and cases ----------------------------------------------------------------

class Cfg:
    __slots__ = ('geom', 'uE', 'ut', 'u1', 'u2', 'eD', 'tD', 'l1D', 'l2D')

    def __init__(self, geom, uE, ut, u1, u2, eD, tD, l1D='f64', l2D='f64'):
        self.geom, self.uE, self.ut, self.u1, self.u2, self.eD, self.tD = geom, uE, ut, u1, u2, eD, tD
        self.l1D, self.l2D = l1D, l2D   # dtypes of the lengths L1, L2 (float64 or float32)

    def key(self):
        return (self.geom, self.uE, self.ut, self.u1, self.u2, self.eD, self.tD, self.l1D, self.l2D)

    def as_dict(self):
        return dict(geom=self.geom, uE=self.uE, ut=self.ut, u1=self.u1, u2=self.u2, eD=self.eD, tD=self.tD,
                    l1D=self.l1D, l2D=self.l2D)

    @staticmethod
    def from_dict(d):
        return Cfg(d['geom'], d['uE'], d['ut'], d['u1'], d['u2'], d['eD'], d['tD'], d.get('l1D', 'f64'), d.get('l2D', 'f64'))

    def with_geom(self, geom):
        # scipp cannot square an int32 length: keep an int32 length only on the fixed-energy leg
        l1D, l2D = self.l1D, self.l2D
        if geom == 'direct' and l2D == 'i32':
            l2D = 'i64'
        if geom == 'indirect' and l1D == 'i32':
            l1D = 'i64'
        return Cfg(geom, self.uE, self.ut, self.u1, self.u2, self.eD, self.tD, l1D, l2D)

    def len_code(self):
        return ('s' if self.l1D == 'f32' else 'd') + ('s' if self.l2D == 'f32' else 'd')

    def scales(self):
        return scale(self.uE, 'J'), scale(self.ut, 's'), scale(self.u1, 'm'), scale(self.u2, 'm')


INT_L_UNITS = ['mm', 'cm', 'm']   # units in which 0.1..1e3 m are integers of moderate size (squares exact in float64)


def random_cfg(rng, dtypes=('f64', 'f32'), allow_int=False, ctx=None):
    """one configuration; every operand has its own unit and dtype.  Integer dtypes only where the numeric
    values are meaningful integers: energy in ueV (1..1e7), tof in ns (int64) or us (int64/int32), lengths in
    mm/cm/m.  scipp cannot square an int32 variable (`pow` is undefined for it), so an int32 length is only
    used for the fixed-energy leg; the skipped combination is counted."""
    geom = rng.choice(['direct', 'indirect'])
    uE, ut = rng.choice(E_UNITS), rng.choice(T_UNITS)
    u1, u2 = rng.choice(L_UNITS), rng.choice(L_UNITS)
    eD, tD = rng.choice(dtypes), rng.choice(dtypes)
    l1D, l2D = rng.choice(['f64', 'f64', 'f32']), rng.choice(['f64', 'f64', 'f32'])
    if allow_int:
        if rng.random() < 0.2 and uE == 'ueV':
            eD = rng.choice(INTS)
        if rng.random() < 0.35 and ut in ('ns', 'us'):
            tD = 'i64' if ut == 'ns' else rng.choice(INTS)
        for which in (1, 2):
            if rng.random() < 0.3:
                unit, d = rng.choice(INT_L_UNITS), rng.choice(INTS)
                variable_leg = (which == 2) == (geom == 'direct')
                if d == 'i32' and variable_leg:
                    if ctx is not None:
                        ctx.count('dtype-not-evaluable:int32 length of the variable leg (scipp pow undefined for int32)')
                    d = 'i64'
                if which == 1:
                    u1, l1D = unit, d
                else:
                    u2, l2D = unit, d
    return Cfg(geom, uE, ut, u1, u2, eD, tD, l1D, l2D)


def np_t0(cfg: Cfg, c: float, E, L: float):
    """numpy mirror of `_energy_transfer_t0` used only to *place* arrival times at the boundary"""
    m = mode_of(cfg.eD, cfg.tD)
    with np.errstate(all='ignore'):
        if m == 'ss':
            return np.float32(L) * np.sqrt(np.float32(c) / np.float32(E))
        if m == 'sd':
            return np.float64(L) * np.float64(np.sqrt(np.float32(c) / np.float32(E)))
        return np.float64(L) * np.sqrt(np.float64(c) / np.float64(E))


def gen_cases(rng, cfg: Cfg, n: int, kinds=('neutron', 'boundary', 'random', 'nonpos'), comparable=False):
    """list of dicts with operand values already in the configuration's dtypes"""
    sE, st, s1, s2 = cfg.scales()
    c1 = kernel_const(cfg.uE, cfg.ut, cfg.u1)
    c2 = kernel_const(cfg.uE, cfg.ut, cfg.u2)
    meV = scale('meV', 'J')
    out = []
    while len(out) < n:
        Ei_meV, Ef_meV = lu(rng, 1e-3, 1e4), lu(rng, 1e-3, 1e4)
        L1_m, L2_m = lu(rng, 0.1, 1e3), lu(rng, 0.1, 1e3)
        Ei = cast(Ei_meV * float(meV / sE), cfg.eD)
        Ef = cast(Ef_meV * float(meV / sE), cfg.eD)
        L1 = cast(L1_m / float(s1), cfg.l1D)
        L2 = cast(L2_m / float(s2), cfg.l2D)
        t1 = D(Fraction(float(L1)) * s1) / speed(Fraction(float(Ei)) * sE)
        t2 = D(Fraction(float(L2)) * s2) / speed(Fraction(float(Ef)) * sE)
        ratio = float(t1 / t2)
        if comparable and not (0.01 <= ratio <= 100):
            continue
        kind = rng.choice(kinds)
        fixedE, fixedL, cfix = (Ei, L1, c1) if cfg.geom == 'direct' else (Ef, L2, c2)
        if kind == 'neutron':
            t = cast(float((t1 + t2) / D(st)), cfg.tD)
        elif kind == 'boundary':
            t0 = np_t0(cfg, cfix, fixedE, float(fixedL))
            k = rng.choice([0, 0, 1, -1, 2, -2, 3, -3, 17, -17])
            base = NP[cfg.tD](t0) if cfg.tD not in INTS else NP[cfg.tD](math.floor(min(float(t0), 2.0e9)))
            t = neighbours(base, cfg.tD, k)
        elif kind == 'random':
            t = cast(lu(rng, 1e-7, 1e3) / float(st), cfg.tD)
        else:
            t = cast(0.0, cfg.tD) if cfg.tD not in INTS and rng.random() < 0.5 else NP[cfg.tD](-cast(lu(rng, 1e-7, 1e3) / float(st), cfg.tD))
            if cfg.tD in INTS and rng.random() < 0.5:
                t = NP[cfg.tD](0)
        out.append(dict(kind=kind, Ei=Ei, Ef=Ef, L1=L1, L2=L2, t=t, c1=c1, c2=c2))
    return out


# ---- running the real code --------------------------------------------------------------------

def _err(e: Exception) -> str:
    import scipp as sc

    for cls, name in ((sc.DTypeError, 'err:dtype'), (sc.UnitError, 'err:unit'), (sc.DimensionError, 'err:dimension'),
                      (ValueError, 'err:value'), (TypeError, 'err:type'), (RuntimeError, 'err:runtime')):
        if isinstance(e, cls):
            return name
    return 'err:other:' + type(e).__name__


def run_kernel(cfg: Cfg, cases):
    """real kernel on the cases of one configuration → (values as float64 array, dtype str, unit ok) or error"""
    import scipp as sc
    from scippneutron.conversion import tof as K

    def arr(vals, d, unit):
        return sc.array(dims=['x'], values=np.array(vals, dtype=NP[d]), unit=unit, dtype=SC[d])

    tof = arr([c['t'] for c in cases], cfg.tD, cfg.ut)
    L1 = arr([c['L1'] for c in cases], cfg.l1D, cfg.u1)
    L2 = arr([c['L2'] for c in cases], cfg.l2D, cfg.u2)
    try:
        if cfg.geom == 'direct':
            E = arr([c['Ei'] for c in cases], cfg.eD, cfg.uE)
            r = K.energy_transfer_direct_from_tof(tof=tof, L1=L1, L2=L2, incident_energy=E)
        else:
            E = arr([c['Ef'] for c in cases], cfg.eD, cfg.uE)
            r = K.energy_transfer_indirect_from_tof(tof=tof, L1=L1, L2=L2, final_energy=E)
    except Exception as e:  # noqa: BLE001
        return _err(e)
    return np.asarray(r.values, dtype=np.float64), str(r.dtype), bool(r.unit == sc.Unit(cfg.uE)), dict(r.sizes)


def model_line(cfg: Cfg, c) -> str:
    E = c['Ei'] if cfg.geom == 'direct' else c['Ef']
    return (f"c05.{cfg.geom} {mode_of(cfg.eD, cfg.tD)} {cfg.len_code()} {bits(c['c1'])} {bits(c['c2'])} {bits(c['t'])} "
            f"{bits(c['L1'])} {bits(c['L2'])} {bits(E)}")


def sample_of(cfg: Cfg, c, extra=None):
    d = cfg.as_dict()
    d.update(kind=c['kind'], Ei=bits(c['Ei']), Ef=bits(c['Ef']), L1=bits(c['L1']), L2=bits(c['L2']), t=bits(c['t']))
    if extra:
        d.update(extra)
    return d


def case_from_sample(w):
    cfg = Cfg.from_dict(w)
    c = dict(kind=w.get('kind', 'replay'), L1=NP[cfg.l1D](unbits(w['L1'])), L2=NP[cfg.l2D](unbits(w['L2'])),
             Ei=NP[cfg.eD](unbits(w['Ei'])), Ef=NP[cfg.eD](unbits(w['Ef'])), t=NP[cfg.tD](unbits(w['t'])),
             c1=kernel_const(cfg.uE, cfg.ut, cfg.u1), c2=kernel_const(cfg.uE, cfg.ut, cfg.u2))
    return cfg, c


# ---- exact reference --------------------------------------------------------------------------

class Ref:
    """the documented formula evaluated exactly on the floating-point operands actually passed"""
    __slots__ = ('nan', 'value', 'Evar', 'Efix', 'amp', 'rel', 't_over_d')


def reference(cfg: Cfg, c) -> Ref:
    """Documented formula, exact arithmetic, numeric values in the configuration's units.  The only
    non-exact ingredient is the constant m_n/2 expressed in unit(E)*(unit(t)/unit(L))**2, which is taken
    as scipp's `to_unit` delivers it (scipp's unit conversion is a parameter of the property: it
    deviates from the exact ratio of scales by up to ~1e-13 for some unit combinations, which would
    otherwise be charged to the kernels at the NaN boundary)."""
    L1, L2 = Fraction(float(c['L1'])), Fraction(float(c['L2']))
    t = Fraction(float(c['t']))
    c1, c2 = Fraction(float(c['c1'])), Fraction(float(c['c2']))
    if cfg.geom == 'direct':
        Efix, Lfix, cfix, Lvar, cvar = Fraction(float(c['Ei'])), L1, c1, L2, c2
    else:
        Efix, Lfix, cfix, Lvar, cvar = Fraction(float(c['Ef'])), L2, c2, L1, c1
    t0sq = cfix * Lfix * Lfix / Efix
    r = Ref()
    r.Efix = Efix
    if t <= 0:
        r.nan, r.rel = True, Fraction(-1)
        r.value = r.Evar = r.amp = r.t_over_d = None
        return r
    r.nan = t * t <= t0sq
    t0 = D(t0sq).sqrt()
    r.rel = Fraction(D(t) / t0 - 1)   # t/t0 - 1
    if r.nan:
        r.value = r.Evar = r.amp = r.t_over_d = None
        return r
    d = D(t) - t0
    r.Evar = D(cvar * Lvar * Lvar) / (d * d)
    r.amp = t0 / d
    r.t_over_d = D(t) / d
    r.value = (D(Efix) - r.Evar) if cfg.geom == 'direct' else (r.Evar - D(Efix))
    return r


def tolerance(cfg: Cfg, ref: Ref, eps=None) -> Decimal:
    """the property's budget follows the RESULT dtype: 1e-11 for a float64 result (whatever the operand dtypes),
    1e-5 for a float32 result — times the condition-aware magnitude"""
    if eps is None:
        eps = EPS32 if out_dtype(cfg.eD, cfg.tD) == 'float32' else EPS64
    return D(eps) * (max(D(ref.Efix), ref.Evar) + ref.Evar * ref.amp)


def mixed_precision(cfg: Cfg) -> bool:
    """dtype patterns in which the UNCHANGED code returns a float64 result that is only single-precision
    accurate (same root cause as C07:mixed-precision:*): the energy is float32 while tof is not (the constant is
    narrowed to the energy's precision and sqrt(c/energy), hence t0, is evaluated there; the energy also enters the
    final subtraction as it is), or the length of the variable leg is float32 (L**2 is squared in float32).  A float32
    tof, or a float32 length of the fixed-energy leg, is promoted exactly and does NOT cost accuracy."""
    if out_dtype(cfg.eD, cfg.tD) == 'float32':
        return False
    lvar = cfg.l2D if cfg.geom == 'direct' else cfg.l1D
    return cfg.eD == 'f32' or lvar == 'f32'


def band_u(cfg: Cfg) -> Fraction:
    """unit roundoff with which the code's own t0 is computed: the energy's float type (a float32 tof or length is
    promoted exactly; a float64 length is narrowed only when the energy is float32 as well)"""
    return u_of('f32' if cfg.eD == 'f32' else 'f64')


F32_MIN_NORMAL = float(np.finfo(np.float32).tiny)


def constant_underflows(cfg: Cfg, c) -> bool:
    """energy is float32 and the constant of the fixed-energy leg, narrowed to float32 by
    `as_float_type(c, energy)`, is zero or subnormal"""
    cfix = c['c1'] if cfg.geom == 'direct' else c['c2']
    return cfg.eD == 'f32' and abs(float(np.float32(cfix))) < F32_MIN_NORMAL


def judge(cfg: Cfg, c, impl: float, dtype: str, unit_ok: bool):
    """property statement on one evaluated point → list of (key, what, extra)"""
    found = _judge(cfg, c, impl, dtype, unit_ok)
    if found and constant_underflows(cfg, c):
        cfix = c['c1'] if cfg.geom == 'direct' else c['c2']
        return [('C05:f32-constant-underflow',
                 f'm_n/2 = {cfix!r} {cfg.uE}*({cfg.ut}/{cfg.u1 if cfg.geom == "direct" else cfg.u2})^2 underflows when narrowed to '
                 f'float32 ({float(np.float32(cfix))!r}); ' + what, dict(ex, underlying=key)) for key, what, ex in found]
    return found


def _judge(cfg: Cfg, c, impl: float, dtype: str, unit_ok: bool):
    out = []
    if not unit_ok:
        out.append(('C05:unit', 'result is not in the unit of the supplied energy', {}))
    if dtype != out_dtype(cfg.eD, cfg.tD):
        out.append(('C05:dtype', f'result dtype {dtype}, expected {out_dtype(cfg.eD, cfg.tD)}', {}))
    if math.isinf(impl):
        out.append((f'C05:{cfg.geom}-infinite', 'result is infinite for finite inputs', {}))
        return out
    ref = reference(cfg, c)
    band = BAND_ULPS * 2 * band_u(cfg)
    if ref.rel <= -band:
        if not math.isnan(impl):
            out.append((f'C05:{cfg.geom}-nan-boundary',
                        f'arrival time is before t0 (t/t0-1={float(ref.rel):.3e}) but the result is {impl!r}, not NaN', {}))
        return out
    if ref.rel < band:
        return out  # inside the rounding band of the boundary: NaN or finite are both acceptable
    if math.isnan(impl):
        out.append((f'C05:{cfg.geom}-nan-boundary',
                    f'arrival time is after t0 (t/t0-1={float(ref.rel):.3e}) but the result is NaN', {}))
        return out
    tol = tolerance(cfg, ref)
    tol_single = tolerance(cfg, ref, EPS32)
    mixed = mixed_precision(cfg)
    kernel = f'energy_transfer_{cfg.geom}_from_tof'
    err = abs(D(Fraction(impl)) - ref.value)
    if err > tol:
        if mixed and err <= tol_single:
            out.append((f'C05:mixed-precision:{kernel}',
                        f'float64 result {impl!r} differs from the documented formula {float(ref.value)!r} by {float(err):.3e} > the '
                        f'double-precision budget {float(tol):.3e}; it is single-precision accurate (dtypes energy={cfg.eD} tof={cfg.tD} '
                        f'L1={cfg.l1D} L2={cfg.l2D})', {'expected': float(ref.value)}))
        else:
            out.append((f'C05:{cfg.geom}-value',
                        f'result {impl!r} differs from the documented formula {float(ref.value)!r} by {float(err):.3e} '
                        f'> tolerance {float(tol):.3e}', {'expected': float(ref.value)}))
    if c['kind'] == 'neutron' and ref.amp <= 100:
        want = D(Fraction(float(c['Ei']))) - D(Fraction(float(c['Ef'])))
        # rounding of the constructed arrival time to the tof dtype is not charged to the kernel
        if cfg.tD in INTS:
            # the arrival time was rounded to an integer: the true time lies within +-1/2 of it, exactly bounded
            dn = D(Fraction(float(c['t']))) / ref.t_over_d          # t - t0 in tof units
            if dn <= 1:
                return out
            extra = ref.Evar * ((dn / (dn - D('0.5'))) ** 2 - 1) * D('1.001')
        else:
            extra = D(Fraction(21, 10) * u_of(cfg.tD)) * ref.Evar * ref.t_over_d
        err2 = abs(D(Fraction(impl)) - want)
        if err2 > tol + extra:
            if mixed and err2 <= tol_single + extra:
                if not any(k.startswith('C05:mixed-precision') for k, _, _ in out):
                    out.append((f'C05:mixed-precision:{kernel}',
                                f'neutron with Ei-Ef={float(want)!r} is assigned {impl!r}: error {float(err2):.3e} exceeds the double-precision '
                                f'budget {float(tol + extra):.3e} but not the single-precision one (dtypes energy={cfg.eD} tof={cfg.tD} '
                                f'L1={cfg.l1D} L2={cfg.l2D})', {'expected': float(want)}))
            else:
                out.append((f'C05:{cfg.geom}-conservation',
                            f'neutron with Ei-Ef={float(want)!r} is assigned {impl!r} (error {float(err2):.3e} > {float(tol + extra):.3e})',
                            {'expected': float(want)}))
    return out


# ---- correspondence ---------------------------------------------------------------------------

def _close(cfg: Cfg, c, impl: float, model: float) -> bool:
    """condition-aware comparison of two finite results (float arithmetic is enough here: the bound
    is orders of magnitude above rounding noise of its own evaluation)"""
    eps = float(eps_of(cfg.eD, cfg.tD, cfg.l1D, cfg.l2D))
    E, L, cc, Lv, cv = ((c['Ei'], c['L1'], c['c1'], c['L2'], c['c2']) if cfg.geom == 'direct'
                        else (c['Ef'], c['L2'], c['c2'], c['L1'], c['c1']))
    t0 = float(L) * math.sqrt(cc / float(E))
    d = abs(float(c['t']) - t0)
    if d == 0.0:
        return True
    evar = cv * float(Lv) ** 2 / (d * d)
    tol = eps * (max(abs(float(E)), evar) + evar * (t0 / d))
    return abs(impl - model) <= tol


def correspond(ctx):
    from scippneutron.conversion import tof as K
    import scipp as sc

    rng = ctx.rng
    # dtype rule: the model's `_common_dtype` against results of the real kernels is checked per case below;
    # `_energy_constant` of the model against the real private helper (if it still exists)
    lines, metas = [], []
    m_half = float(m_n() / 2)
    for uE in E_UNITS:
        for ut in T_UNITS:
            for uL in L_UNITS:
                lines.append(f"c05.const {bits(m_half)} {bits(float(scale(uE, 'J')))} {bits(float(scale(ut, 's')))} {bits(float(scale(uL, 'm')))}")
                metas.append((uE, ut, uL))
    outs = ctx.driver(lines)
    helper = getattr(K, '_energy_constant', None)
    for (uE, ut, uL), o in zip(metas, outs):
        model = unbits(o)
        want = kernel_const(uE, ut, uL)
        ctx.case(('const', uE, ut, uL), True)
        ctx.count('const')
        if not abs(model - want) <= TO_UNIT_REL * abs(want):
            ctx.disagree({'op': 'const', 'units': [uE, ut, uL]}, want, model, 'model energyConstant vs sc.to_unit(m_n/2, unit)')
        if helper is not None:
            try:
                got = float(helper(sc.Unit(uE), sc.scalar(1.0, unit=ut), sc.scalar(1.0, unit=uL)).value)
            except Exception as e:  # noqa: BLE001
                got = _err(e)
            if got != want:
                ctx.disagree({'op': 'const', 'units': [uE, ut, uL]}, got, want,
                             '_energy_constant differs from to_unit(m_n/2, unit(E)*(unit(t)/unit(L))**2)')
    names = ['f64', 'f32', 'i64', 'i32']
    dl = [f'c05.dtype {a} {b}' for a in names for b in names]
    for line, o in zip(dl, ctx.driver(dl)):
        ctx.case(line, True)
    dl4 = [f'c05.dtype4 {a} {b} {c} {d}' for a in names for b in names for c in names for d in names]
    dtype4_model = dict(zip(dl4, ctx.driver(dl4)))
    # kernels
    ncfg = ctx.n(600, 14000)
    per = ctx.n(40, 60)
    cfgs, all_cases, lines = [], [], []
    for _ in range(ncfg):
        cfg = random_cfg(rng, allow_int=True, ctx=ctx)
        cases = gen_cases(rng, cfg, per)
        cfgs.append(cfg)
        all_cases.append(cases)
        lines += [model_line(cfg, c) for c in cases]
    outs = ctx.driver(lines)
    dtype_model = dict(zip(dl, ctx.driver(dl)))
    pos = 0
    for cfg, cases in zip(cfgs, all_cases):
        res = run_kernel(cfg, cases)
        mouts = outs[pos:pos + len(cases)]
        pos += len(cases)
        ctx.count(f'cfg:{cfg.geom}:{cfg.eD}/{cfg.tD}')
        ctx.count(f'lengths:{cfg.l1D}/{cfg.l2D}')
        ctx.count(f'units:{cfg.uE}/{cfg.ut}')
        if isinstance(res, str):
            ctx.disagree(cfg.as_dict(), res, 'ok', 'kernel raised on a supported configuration')
            continue
        vals, dtype, unit_ok, sizes = res
        exp_dtype = {'f64': 'float64', 'f32': 'float32'}[dtype4_model[f'c05.dtype4 {cfg.eD} {cfg.tD} {cfg.l1D} {cfg.l2D}']]
        if dtype != exp_dtype or not unit_ok or sizes != {'x': len(cases)}:
            ctx.disagree(cfg.as_dict(), [dtype, unit_ok, sizes], [exp_dtype, True, {'x': len(cases)}], 'dtype / unit / shape of the result')
        for c, v, mo in zip(cases, vals, mouts):
            v = float(v)
            branch = 'none' if mo == 'none' else ('nan' if mo == 'nan' else 'value')
            ctx.count(f'{c["kind"]}:{branch}')
            ident = (cfg.key(), bits(c['Ei']), bits(c['Ef']), bits(c['L1']), bits(c['L2']), bits(c['t']))
            ctx.case(ident, True, sample=sample_of(cfg, c, {'impl': bits(v) if not math.isnan(v) else 'nan', 'model': mo}))
            if branch != 'value':
                if not math.isnan(v):
                    ctx.disagree(sample_of(cfg, c), bits(v), mo, 'model says NaN, implementation returns a number')
                continue
            mv = unbits(mo)
            if math.isnan(v):
                ctx.disagree(sample_of(cfg, c), 'nan', mo, 'implementation returns NaN, model a number')
            elif math.isinf(v) or math.isinf(mv):
                if v != mv:
                    ctx.disagree(sample_of(cfg, c), bits(v), mo, 'finiteness differs')
            else:
                if v == mv:
                    ctx.count('bit-equal')
                elif _close(cfg, c, v, mv):
                    ctx.count('within-tolerance')
                else:
                    ctx.disagree(sample_of(cfg, c), bits(v), mo, 'value outside the condition-aware tolerance')
    # array-shaped operands: the model is applied element-wise (scipp broadcasting), dims of the result = union
    arrs, lines = [], []
    for _ in range(ctx.n(400, 8000)):
        cfg = random_cfg(rng, allow_int=True, ctx=ctx)
        layout, order, position, ops, c1, c2 = gen_array_case(rng, cfg)
        res = run_kernel_arrays(cfg, ops)
        ctx.count(f'array:{layout}:{order}:{position}')
        wit = array_witness(cfg, layout, order, position, ops)
        if isinstance(res, str):
            ctx.disagree(wit, res, 'ok', 'kernel raised on array-shaped operands')
            continue
        rdims, rsizes, vals, dtype, unit_ok = res
        want = {}
        for k in ('tof', 'L1', 'L2', 'E'):
            for dname, n_ in zip(ops[k][0], ops[k][1].shape):
                want[dname] = n_
        exp_dtype = {'f64': 'float64', 'f32': 'float32'}[dtype4_model[f'c05.dtype4 {cfg.eD} {cfg.tD} {cfg.l1D} {cfg.l2D}']]
        if rsizes != want or dtype != exp_dtype or not unit_ok:
            ctx.disagree(wit, [rsizes, dtype, unit_ok], [want, exp_dtype, True], 'sizes (union of the operand dims) / dtype / unit of the result')
            continue
        for idx, c in array_elements(cfg, ops, c1, c2, rdims, rsizes):
            arrs.append((cfg, wit, idx, c, float(vals[tuple(idx[d] for d in rdims)]) if rdims else float(vals)))
            lines.append(model_line(cfg, c))
    for (cfg, wit, idx, c, v), mo in zip(arrs, ctx.driver(lines)):
        ctx.case(('array', cfg.key(), wit['layout'], wit['order'], tuple(sorted(idx.items())), bits(c['Ei']), bits(c['Ef']), bits(c['L1']),
                  bits(c['L2']), bits(c['t'])), True)
        if mo in ('none', 'nan'):
            ctx.count('array-element:nan')
            ok = math.isnan(v)
        else:
            mv = unbits(mo)
            ctx.count('array-element:value')
            ok = (not math.isnan(v)) and (v == mv or (math.isfinite(v) and math.isfinite(mv) and _close(cfg, c, v, mv)))
        if not ok:
            ctx.disagree(dict(wit, index=idx), bits(v) if not math.isnan(v) else 'nan', mo,
                         'element of an array evaluation differs from the model applied to the element operands')
    # call sequences on reused operand objects modified in place: the (pure) model on the CURRENT values
    items, lines = [], []
    for _ in range(ctx.n(200, 4000)):
        cfg0 = random_cfg(rng, allow_int=True, ctx=ctx)
        seq = Sequence(rng, cfg0)
        ctx.count('seq')
        for i, (geom, snap, res, _) in enumerate(seq.run(fresh_check=False)):
            cfg = seq.cfg.with_geom(geom)
            if isinstance(res, str):
                ctx.disagree(dict(seq.witness(), call=i), res, 'ok', 'kernel raised inside a call sequence')
                continue
            for j, c in enumerate(seq.elements(geom, snap)):
                items.append((cfg, seq, i, j, c, float(res[0][j])))
                lines.append(model_line(cfg, c))
    for (cfg, seq, i, j, c, v), mo in zip(items, ctx.driver(lines)):
        ctx.case(('seq', cfg.key(), i, j, bits(c['Ei']), bits(c['Ef']), bits(c['L1']), bits(c['L2']), bits(c['t'])), True)
        if mo in ('none', 'nan'):
            ok = math.isnan(v)
        else:
            mv = unbits(mo)
            ok = (not math.isnan(v)) and (v == mv or (math.isfinite(v) and math.isfinite(mv) and _close(cfg, c, v, mv)))
        if not ok:
            ctx.disagree(dict(seq.witness(), call=i, element=j), bits(v) if not math.isnan(v) else 'nan', mo,
                         'call of a sequence on reused, in-place modified operands differs from the model on the current values')


# ---- oracle -----------------------------------------------------------------------------------

def _report(ctx, cfg, c, found, extra=None):
    for key, what, ex in found:
        w = sample_of(cfg, c, ex)
        if extra:
            w.update(extra)
        ctx.violation(key, what, w)


def _oracle_kernels(ctx, ncfg, per):
    rng = ctx.rng
    for _ in range(ncfg):
        cfg0 = random_cfg(rng, allow_int=True, ctx=ctx)
        base = gen_cases(rng, cfg0, per, kinds=('neutron', 'neutron', 'boundary', 'random', 'nonpos'), comparable=rng.random() < 0.7)
        # the same neutrons through both kernels
        for geom in ('direct', 'indirect'):
            cfg = cfg0.with_geom(geom)
            cases = [dict(c) for c in base]
            if geom != cfg0.geom:
                # boundary cases are placed for cfg0's geometry; re-place them for this one
                cases = [c for c in cases if c['kind'] != 'boundary'] + gen_cases(rng, cfg, max(1, per // 5), kinds=('boundary',))
            res = run_kernel(cfg, cases)
            ctx.count(f'oracle:{geom}:{cfg.eD}/{cfg.tD}')
            if isinstance(res, str):
                ctx.violation(f'C05:{geom}-raises', f'kernel raised {res} on valid operands', sample_of(cfg, cases[0]))
                continue
            vals, dtype, unit_ok, _ = res
            for c, v in zip(cases, vals):
                ctx.case(('oracle', cfg.key(), bits(c['Ei']), bits(c['Ef']), bits(c['L1']), bits(c['L2']), bits(c['t'])), True)
                _report(ctx, cfg, c, judge(cfg, c, float(v), dtype, unit_ok))


def _ladder(cfg: Cfg, c, t0_code):
    """arrival times around the boundary: the code's own t0 and neighbours, in the tof dtype"""
    ks = [-4096, -512, -64, -17, -9, -5, -3, -2, -1, 0, 1, 2, 3, 5, 9, 17, 64, 512, 4096]
    base = NP[cfg.tD](t0_code)
    ts = sorted({float(neighbours(base, cfg.tD, k)) for k in ks})
    return [NP[cfg.tD](t) for t in ts]


def _oracle_ladders(ctx, n):
    """NaN boundary, bit by bit: one NaN→finite switch, located at the exact t0 up to the rounding band, no infinity"""
    import scipp as sc
    from scippneutron.conversion import tof as K

    rng = ctx.rng
    t0_fn = getattr(K, '_energy_transfer_t0', None)
    for _ in range(n):
        cfg = random_cfg(rng, allow_int=True, ctx=ctx)
        c = gen_cases(rng, cfg, 1, kinds=('neutron',))[0]
        E, L, uL, cc = ((c['Ei'], c['L1'], cfg.u1, c['c1']) if cfg.geom == 'direct' else (c['Ef'], c['L2'], cfg.u2, c['c2']))
        t0_code = None
        if t0_fn is not None:
            try:
                t0_code = float(t0_fn(sc.scalar(E, unit=cfg.uE, dtype=SC[cfg.eD]), sc.scalar(NP[cfg.tD](1), unit=cfg.ut, dtype=SC[cfg.tD]),
                                      sc.scalar(L, unit=uL, dtype=SC[cfg.l1D if cfg.geom == 'direct' else cfg.l2D])).value)
            except Exception:  # noqa: BLE001
                t0_code = None
        if t0_code is None or not math.isfinite(t0_code):
            t0_code = float(np_t0(cfg, cc, E, float(L)))
        cases = [dict(c, t=t, kind='ladder') for t in _ladder(cfg, c, t0_code)]
        res = run_kernel(cfg, cases)
        ctx.count(f'ladder:{cfg.geom}:{cfg.eD}/{cfg.tD}')
        if isinstance(res, str):
            ctx.violation(f'C05:{cfg.geom}-raises', f'kernel raised {res} on valid operands', sample_of(cfg, cases[0]))
            continue
        vals, dtype, unit_ok, _ = res
        seen_value = False
        for cc_, v in zip(cases, vals):
            v = float(v)
            ctx.case(('ladder', cfg.key(), bits(cc_['Ei']), bits(cc_['Ef']), bits(cc_['L1']), bits(cc_['L2']), bits(cc_['t'])), True)
            _report(ctx, cfg, cc_, judge(cfg, cc_, v, dtype, unit_ok))
            if math.isnan(v):
                if seen_value:
                    ctx.violation(f'C05:{cfg.geom}-nan-boundary', 'NaN at a later arrival time than a non-NaN result (boundary not monotone)',
                                  sample_of(cfg, cc_))
            else:
                seen_value = True


def _oracle_convert(ctx, n):
    """end to end: scippneutron.convert(..., target='energy_transfer') against the exact reference"""
    import scipp as sc
    import scippneutron as scn

    rng = ctx.rng
    for _ in range(n):
        cfg = random_cfg(rng)
        ns, nt = rng.randint(1, 3), rng.randint(2, 6)
        use_pos = rng.random() < 0.5
        if use_pos:
            cfg = Cfg(cfg.geom, cfg.uE, cfg.ut, 'm', 'm', cfg.eD, cfg.tD)  # lengths come out of the graph as float64
        rows = [gen_cases(rng, cfg, nt, kinds=('neutron', 'neutron', 'random', 'nonpos'), comparable=True) for _ in range(ns)]
        # one L1 for the instrument; per-spectrum L2 (and Ef for indirect geometry); tof is 2-d so that every
        # element is a neutron of its own
        L1 = rows[0][0]['L1']
        Ei = rows[0][0]['Ei']
        for r in rows:
            L2, Ef = r[0]['L2'], r[0]['Ef']
            for c in r:
                c['L1'], c['L2'] = L1, L2
                if cfg.geom == 'direct':
                    c['Ei'] = Ei
                else:
                    c['Ef'] = Ef
        coords = {}
        if use_pos:
            # beams with exactly representable lengths: along z resp. along a 3-4-5 direction scaled by a power of two
            coords['source_position'] = sc.vector([0.0, 0.0, -float(L1)], unit='m')
            coords['sample_position'] = sc.vector([0.0, 0.0, 0.0], unit='m')
            coords['position'] = sc.vectors(dims=['spectrum'], values=[[0.0, float(r[0]['L2']), 0.0] for r in rows], unit='m')
        else:
            coords['L1'] = sc.scalar(float(L1), unit=cfg.u1)
            coords['L2'] = sc.array(dims=['spectrum'], values=[float(r[0]['L2']) for r in rows], unit=cfg.u2)
        for r in rows:
            for c in r:
                if c['kind'] == 'neutron':
                    # re-simulate with the shared operands
                    sE, st, s1, s2 = cfg.scales()
                    t1 = D(Fraction(float(c['L1'])) * s1) / speed(Fraction(float(c['Ei'])) * sE)
                    t2 = D(Fraction(float(c['L2'])) * s2) / speed(Fraction(float(c['Ef'])) * sE)
                    c['t'] = cast(float((t1 + t2) / D(st)), cfg.tD)
        coords['tof'] = sc.array(dims=['spectrum', 'tof'], values=np.array([[c['t'] for c in r] for r in rows], dtype=NP[cfg.tD]),
                                 unit=cfg.ut, dtype=SC[cfg.tD])
        if cfg.geom == 'direct':
            coords['incident_energy'] = sc.scalar(Ei, unit=cfg.uE, dtype=SC[cfg.eD])
        else:
            coords['final_energy'] = sc.array(dims=['spectrum'], values=np.array([r[0]['Ef'] for r in rows], dtype=NP[cfg.eD]),
                                              unit=cfg.uE, dtype=SC[cfg.eD])
        da = sc.DataArray(sc.ones(dims=['spectrum', 'tof'], shape=[ns, nt]), coords=coords)
        ctx.count(f'convert:{cfg.geom}:{"positions" if use_pos else "lengths"}')
        try:
            out = scn.convert(da, origin='tof', target='energy_transfer', scatter=True)
            et = out.coords['energy_transfer']
            other = [d for d in et.dims if d != 'spectrum']
            vals = np.asarray(et.transpose(['spectrum', *other]).values, dtype=np.float64).reshape(ns, nt)
            dtype, unit_ok = str(et.dtype), bool(et.unit == sc.Unit(cfg.uE))
        except Exception as e:  # noqa: BLE001
            ctx.violation('C05:convert-raises', f"convert(..., 'energy_transfer') raised {_err(e)} on valid inelastic data",
                          sample_of(cfg, rows[0][0], {'via': 'convert', 'positions': use_pos}))
            continue
        for i, r in enumerate(rows):
            for j, c in enumerate(r):
                ctx.case(('convert', cfg.key(), use_pos, bits(c['Ei']), bits(c['Ef']), bits(c['L1']), bits(c['L2']), bits(c['t'])), True)
                found = judge(cfg, c, float(vals[i, j]), dtype, unit_ok)
                found = [(k if (k == 'C05:f32-constant-underflow' or k.startswith('C05:mixed-precision:')) else k.replace('C05:', 'C05:convert-'), w, e) for k, w, e in found]
                _report(ctx, cfg, c, found, {'via': 'convert', 'positions': use_pos})


def _oracle_corpus(ctx):
    """minimised past findings (corpus/C05/*.json), always evaluated first"""
    import glob
    import json
    import os

    base = os.path.join(os.path.dirname(os.path.dirname(os.path.dirname(os.path.abspath(__file__)))), 'corpus', 'C05')
    for path in sorted(glob.glob(os.path.join(base, '*.json'))):
        with open(path) as f:
            for w in json.load(f):
                cfg, c = case_from_sample(w)
                res = run_kernel(cfg, [c])
                ctx.count('corpus')
                ctx.case(('corpus', cfg.key(), w['Ei'], w['Ef'], w['L1'], w['L2'], w['t']), True)
                if isinstance(res, str):
                    ctx.violation(f'C05:{cfg.geom}-raises', f'kernel raised {res} on valid operands', sample_of(cfg, c))
                    continue
                vals, dtype, unit_ok, _ = res
                _report(ctx, cfg, c, judge(cfg, c, float(vals[0]), dtype, unit_ok))


# ---- array-shaped operands ---------------------------------------------------------------------

ARRAY_LAYOUTS = ['tof-1d', 'tof-1d', 'tof-1d', 'pixel-x-tof', 'pixel-x-tof', 'pixel-x-tof', 'tof-2d', 'per-tof-operand']
ARRAY_ORDERS = ['ascending', 'descending', 'shuffled', 'repeated']
ARRAY_POSITIONS = ['none-unphysical', 'some-unphysical', 'some-unphysical', 'all-unphysical', 'ties']


def gen_array_case(rng, cfg: Cfg):
    """Operands with dims: a 1-d time axis (ascending / descending / shuffled / with repeated values), or pixel x tof
    with per-pixel L1 / L2 / energy (scalar, per pixel, per tof), the time axis placed so that none / some / all of
    the elements (and pixels) are unphysical, with exact ties t = fl(t0) inside the array.
    → (layout, order, position, ops) with ops = {name: (dims, numpy array)} for tof, L1, L2, E (the supplied energy)
    and Eo (the other energy, only used to build neutrons)"""
    layout, order, position = rng.choice(ARRAY_LAYOUTS), rng.choice(ARRAY_ORDERS), rng.choice(ARRAY_POSITIONS)
    npix = 1 if layout == 'tof-1d' else rng.randint(2, 4)
    nt = rng.randint(2, 7)
    base = gen_cases(rng, cfg, npix, kinds=('neutron',), comparable=True)
    direct = cfg.geom == 'direct'
    # which operands vary per pixel (the others take the value of pixel 0)
    per_pixel = {'L1': layout != 'tof-1d' and rng.random() < 0.5, 'L2': layout != 'tof-1d' and rng.random() < 0.8,
                 'E': layout != 'tof-1d' and rng.random() < (0.3 if direct else 0.8)}
    if layout in ('pixel-x-tof', 'tof-2d') and not any(per_pixel.values()):
        per_pixel['L2'] = True
    for c in base:
        for name, key in (('L1', 'L1'), ('L2', 'L2'), ('E', 'Ei' if direct else 'Ef')):
            if not per_pixel[name]:
                c[key] = base[0][key]
    c1, c2 = base[0]['c1'], base[0]['c2']
    t0s = [float(np_t0(cfg, c1 if direct else c2, c['Ei'] if direct else c['Ef'], float(c['L1'] if direct else c['L2']))) for c in base]
    lo, hi = min(t0s), max(t0s)

    def axis():
        """nt arrival times in the tof dtype"""
        ts = []
        for _ in range(nt):
            if position == 'none-unphysical':
                v = hi * (1 + lu(rng, 1e-3, 10))
            elif position == 'all-unphysical':
                v = lo * rng.uniform(0.05, 0.999)
            elif position == 'ties':
                v = rng.choice(t0s) if rng.random() < 0.6 else hi * (1 + lu(rng, 1e-3, 3))
            else:
                r = rng.random()
                v = (lo * rng.uniform(0.3, 0.999) if r < 0.3 else rng.uniform(lo, hi) if (r < 0.6 and hi > lo)
                     else hi * (1 + lu(rng, 1e-3, 10)))
            t = cast(v, cfg.tD) if position != 'ties' or cfg.tD in INTS else NP[cfg.tD](v)
            if position == 'ties' and rng.random() < 0.3:
                t = neighbours(t, cfg.tD, rng.choice([-1, 1]))
            ts.append(t)
        if position == 'some-unphysical' and len(ts) >= 2:
            # make sure both regions occur and (for the descending / shuffled orders) a physical element may come first
            ts[0] = cast(hi * (1 + lu(rng, 1e-2, 3)), cfg.tD)
            ts[1] = cast(lo * rng.uniform(0.3, 0.99), cfg.tD)
        key = lambda t: float(t)  # noqa: E731
        if order == 'ascending':
            ts.sort(key=key)
        elif order == 'descending':
            ts.sort(key=key, reverse=True)
        elif order == 'repeated':
            ts.sort(key=key)
            ts[-1] = ts[0] if rng.random() < 0.5 else ts[-2]
        else:
            rng.shuffle(ts)
        return np.array(ts, dtype=NP[cfg.tD])

    ops = {}
    if layout == 'tof-2d':
        ops['tof'] = (['pixel', 'tof'], np.stack([axis() for _ in range(npix)]))
    else:
        ops['tof'] = (['tof'], axis())

    def operand(name, key, d):
        if per_pixel[name]:
            return (['pixel'], np.array([c[key] for c in base], dtype=NP[d]))
        return ([], np.array(base[0][key], dtype=NP[d]))

    ops['L1'] = operand('L1', 'L1', cfg.l1D)
    ops['L2'] = operand('L2', 'L2', cfg.l2D)
    ops['E'] = operand('E', 'Ei' if direct else 'Ef', cfg.eD)
    if layout == 'per-tof-operand':
        # an operand that varies along the time axis (e.g. a per-bin incident energy of a chopper scan)
        which = rng.choice(['E', 'L2' if direct else 'L1'])
        key = {'E': 'Ei' if direct else 'Ef', 'L1': 'L1', 'L2': 'L2'}[which]
        d = {'E': cfg.eD, 'L1': cfg.l1D, 'L2': cfg.l2D}[which]
        extra = gen_cases(rng, cfg, nt, kinds=('neutron',))
        ops[which] = (['tof'], np.array([c[key] for c in extra], dtype=NP[d]))
    ops['Eo'] = ([], np.array(base[0]['Ef' if direct else 'Ei'], dtype=NP[cfg.eD]))
    return layout, order, position, ops, c1, c2


def _op_var(dims, values, d, unit):
    import scipp as sc

    if not dims:
        return sc.scalar(values[()], unit=unit, dtype=SC[d])
    return sc.array(dims=dims, values=values, unit=unit, dtype=SC[d])


def run_kernel_arrays(cfg: Cfg, ops, via_convert=False):
    """real kernel (or scippneutron.convert) on array-shaped operands → (result dims, sizes, values, dtype, unit ok) | error"""
    import scipp as sc
    import scippneutron as scn
    from scippneutron.conversion import tof as K

    tof = _op_var(*ops['tof'], cfg.tD, cfg.ut)
    L1 = _op_var(*ops['L1'], cfg.l1D, cfg.u1)
    L2 = _op_var(*ops['L2'], cfg.l2D, cfg.u2)
    E = _op_var(*ops['E'], cfg.eD, cfg.uE)
    ename = 'incident_energy' if cfg.geom == 'direct' else 'final_energy'
    try:
        if via_convert:
            dims = ['pixel', 'tof'] if any('pixel' in ops[k][0] for k in ('tof', 'L1', 'L2', 'E')) else ['tof']
            sizes = {}
            for k in ('tof', 'L1', 'L2', 'E'):
                for dname, n in zip(ops[k][0], ops[k][1].shape):
                    sizes[dname] = n
            da = sc.DataArray(sc.ones(dims=dims, shape=[sizes[d] for d in dims]), coords={'tof': tof, 'L1': L1, 'L2': L2, ename: E})
            r = scn.convert(da, origin='tof', target='energy_transfer', scatter=True).coords['energy_transfer']
            r = r.rename_dims({d: 'tof' for d in r.dims if d == 'energy_transfer'})
        elif cfg.geom == 'direct':
            r = K.energy_transfer_direct_from_tof(tof=tof, L1=L1, L2=L2, incident_energy=E)
        else:
            r = K.energy_transfer_indirect_from_tof(tof=tof, L1=L1, L2=L2, final_energy=E)
    except Exception as e:  # noqa: BLE001
        return _err(e)
    return list(r.dims), dict(r.sizes), np.asarray(r.values, dtype=np.float64), str(r.dtype), bool(r.unit == sc.Unit(cfg.uE))


def array_elements(cfg: Cfg, ops, c1, c2, rdims, rsizes):
    """one scalar case per element of the broadcast result: [(index dict, case dict)]"""
    import itertools

    direct = cfg.geom == 'direct'
    out = []
    for tup in itertools.product(*[range(rsizes[d]) for d in rdims]):
        idx = dict(zip(rdims, tup))

        def at(name):
            dims, vals = ops[name]
            return vals[tuple(idx[d] for d in dims)] if dims else vals[()]

        e = at('E')
        out.append((idx, dict(kind='array', Ei=e if direct else at('Eo'), Ef=at('Eo') if direct else e,
                              L1=at('L1'), L2=at('L2'), t=at('tof'), c1=c1, c2=c2)))
    return out


def array_witness(cfg: Cfg, layout, order, position, ops, via_convert=False):
    w = cfg.as_dict()
    w.update(op='array', layout=layout, order=order, position=position, via_convert=via_convert,
             ops={k: {'dims': v[0], 'shape': list(v[1].shape), 'values': [bits(x) for x in np.asarray(v[1], dtype=np.float64).ravel()]}
                  for k, v in ops.items()})
    return w


def ops_from_witness(cfg: Cfg, w):
    d_of = {'tof': cfg.tD, 'L1': cfg.l1D, 'L2': cfg.l2D, 'E': cfg.eD, 'Eo': cfg.eD}
    return {k: (v['dims'], np.array([unbits(x) for x in v['values']], dtype=np.float64).reshape(v['shape']).astype(NP[d_of[k]]))
            for k, v in w['ops'].items()}


def judge_array(cfg: Cfg, ops, c1, c2, via_convert=False):
    """every ELEMENT of the result is judged by the scalar oracle for its own operands; dims of the result = union
    → list of (key, what, extra)"""
    res = run_kernel_arrays(cfg, ops, via_convert)
    pre = 'C05:convert-' if via_convert else 'C05:'
    if isinstance(res, str):
        return [(f'{pre}{cfg.geom}-raises', f'raised {res} on array-shaped operands', {})]
    rdims, rsizes, vals, dtype, unit_ok = res
    want = {}
    for k in ('tof', 'L1', 'L2', 'E'):
        for dname, n in zip(ops[k][0], ops[k][1].shape):
            want[dname] = n
    if rsizes != want:
        return [(f'{pre}{cfg.geom}-shape', f'result sizes {rsizes}, expected the union of the operand dims {want}', {})]
    out, seen = [], set()
    for idx, c in array_elements(cfg, ops, c1, c2, rdims, rsizes):
        v = float(vals[tuple(idx[d] for d in rdims)]) if rdims else float(vals)
        for k, what, ex in judge(cfg, c, v, dtype, unit_ok):
            keep = k == 'C05:f32-constant-underflow' or k.startswith('C05:mixed-precision:')
            k = k if (keep or not via_convert) else k.replace('C05:', 'C05:convert-')
            if k not in seen:      # one witness element per distinct key
                seen.add(k)
                out.append((k, f'element {idx} of an array evaluation (t = {float(c["t"])!r}): ' + what, dict(ex, index=idx)))
    return out


def _oracle_arrays(ctx, n):
    rng = ctx.rng
    for _ in range(n):
        cfg = random_cfg(rng, allow_int=True, ctx=ctx)
        layout, order, position, ops, c1, c2 = gen_array_case(rng, cfg)
        via_convert = rng.random() < 0.3
        ctx.count(f'oracle-array:{layout}:{order}:{position}' + (':convert' if via_convert else ''))
        ctx.case(('oracle-array', cfg.key(), layout, order, position, via_convert,
                  tuple(bits(x) for x in np.asarray(ops['tof'][1], dtype=np.float64).ravel())), True)
        for key, what, ex in judge_array(cfg, ops, c1, c2, via_convert):
            ctx.violation(key, what, dict(array_witness(cfg, layout, order, position, ops, via_convert), **ex))


# ---- call sequences (history independence) -----------------------------------------------------

SEQ_MODS = ['none', 'energy*=', 'energy*=', 'energy.value=', 'energy.value=', 'L1*=', 'L1.value=', 'L2*=', 'L2.value=', 'tof.values=', 'tof*=']


class Sequence:
    """2-4 consecutive calls that reuse the SAME operand objects (0-d energy, L1, L2 and a 1-d tof), one of them
    modified in place between calls (an energy scan, a moved detector, the next chunk of times)"""

    def __init__(self, rng, cfg: Cfg, via_convert=False):
        import scipp as sc

        alternate = rng.random() < 0.3
        if alternate and 'i32' in (cfg.l1D, cfg.l2D):
            # both legs become the variable leg in turn, and scipp cannot square an int32 length
            cfg = Cfg(cfg.geom, cfg.uE, cfg.ut, cfg.u1, cfg.u2, cfg.eD, cfg.tD,
                      'i64' if cfg.l1D == 'i32' else cfg.l1D, 'i64' if cfg.l2D == 'i32' else cfg.l2D)
        self.cfg, self.via_convert = cfg, via_convert
        c = gen_cases(rng, cfg, 1, kinds=('neutron',), comparable=True)[0]
        self.c1, self.c2 = c['c1'], c['c2']
        nt = rng.randint(2, 5)
        self.E0, self.Eo, self.L10, self.L20 = c['Ei' if cfg.geom == 'direct' else 'Ef'], c['Ef' if cfg.geom == 'direct' else 'Ei'], c['L1'], c['L2']
        t0 = float(np_t0(cfg, c['c1'] if cfg.geom == 'direct' else c['c2'], self.E0, float(c['L1'] if cfg.geom == 'direct' else c['L2'])))
        self.t00 = np.array([cast(t0 * rng.choice([rng.uniform(0.3, 0.99), 1 + lu(rng, 1e-3, 5), 1 + lu(rng, 1e-3, 5)]), cfg.tD)
                             for _ in range(nt)], dtype=NP[cfg.tD])
        # steps: (geometry of the call, modification applied in place BEFORE the call, parameter)
        n = rng.randint(2, 4)
        self.steps = []
        for i in range(n):
            geom = cfg.geom if (not alternate or i % 2 == 0) else ('indirect' if cfg.geom == 'direct' else 'direct')
            mod = 'none' if i == 0 else rng.choice(SEQ_MODS)
            self.steps.append((geom, mod, lu(rng, 0.5, 2.0)))

    def _apply(self, ops, mod, f, sc):
        cfg = self.cfg
        name = {'e': 'E', 'L': None}.get(mod[0])
        target = {'energy': 'E', 'L1': 'L1', 'L2': 'L2', 'tof': 'tof'}[mod.split('*')[0].split('.')[0]] if mod != 'none' else None
        if target is None:
            return
        d = {'E': cfg.eD, 'L1': cfg.l1D, 'L2': cfg.l2D, 'tof': cfg.tD}[target]
        var = ops[target]
        if mod.endswith('*=') and d not in INTS:
            var *= sc.scalar(f, dtype=SC[d])             # in place, unit preserved
        elif target == 'tof':
            var.values = np.array([cast(float(x) * f, d) for x in var.values], dtype=NP[d])
        else:
            var.value = cast(float(var.value) * f, d)

    def run(self, fresh_check=True):
        """→ list per step of (geom, snapshot of the current operand values, shared-object result, fresh-copy result)"""
        import scipp as sc
        import scippneutron as scn
        from scippneutron.conversion import tof as K

        cfg = self.cfg
        ops = {'E': sc.scalar(self.E0, unit=cfg.uE, dtype=SC[cfg.eD]), 'L1': sc.scalar(self.L10, unit=cfg.u1, dtype=SC[cfg.l1D]),
               'L2': sc.scalar(self.L20, unit=cfg.u2, dtype=SC[cfg.l2D]),
               'tof': sc.array(dims=['tof'], values=self.t00.copy(), unit=cfg.ut, dtype=SC[cfg.tD])}
        da = None

        def call(geom, o):
            ename = 'incident_energy' if geom == 'direct' else 'final_energy'
            if self.via_convert:
                d = sc.DataArray(sc.ones(dims=['tof'], shape=[len(o['tof'])]), coords={'tof': o['tof'], 'L1': o['L1'], 'L2': o['L2'], ename: o['E']})
                return scn.convert(d, origin='tof', target='energy_transfer', scatter=True).coords['energy_transfer']
            fn = K.energy_transfer_direct_from_tof if geom == 'direct' else K.energy_transfer_indirect_from_tof
            return fn(tof=o['tof'], L1=o['L1'], L2=o['L2'], **{ename: o['E']})

        out = []
        for geom, mod, f in self.steps:
            self._apply(ops, mod, f, sc)
            snap = {k: v.copy() for k, v in ops.items()}
            try:
                r = call(geom, ops)
                res = (np.asarray(r.values, dtype=np.float64).copy(), str(r.dtype), bool(r.unit == sc.Unit(cfg.uE)))
            except Exception as e:  # noqa: BLE001
                res = _err(e)
            out.append([geom, snap, res, None])
        if fresh_check:
            for item in out:
                geom, snap = item[0], item[1]
                try:
                    r = call(geom, {k: v.copy() for k, v in snap.items()})
                    item[3] = np.asarray(r.values, dtype=np.float64).copy()
                except Exception as e:  # noqa: BLE001
                    item[3] = _err(e)
        return out

    def witness(self):
        w = self.cfg.as_dict()
        w.update(op='sequence', via_convert=self.via_convert, E=bits(self.E0), Eo=bits(self.Eo), L1=bits(self.L10), L2=bits(self.L20),
                 tof=[bits(x) for x in self.t00], c1=bits(self.c1), c2=bits(self.c2), steps=[list(st) for st in self.steps])
        return w

    @staticmethod
    def from_witness(w):
        import random as _r

        cfg = Cfg.from_dict(w)
        q = Sequence.__new__(Sequence)
        q.cfg, q.via_convert = cfg, w.get('via_convert', False)
        q.E0, q.Eo = NP[cfg.eD](unbits(w['E'])), NP[cfg.eD](unbits(w['Eo']))
        q.L10, q.L20 = NP[cfg.l1D](unbits(w['L1'])), NP[cfg.l2D](unbits(w['L2']))
        q.t00 = np.array([unbits(x) for x in w['tof']]).astype(NP[cfg.tD])
        q.c1, q.c2 = unbits(w['c1']), unbits(w['c2'])
        q.steps = [tuple(st) for st in w['steps']]
        return q

    def elements(self, geom, snap):
        """scalar cases (current values) of one call"""
        direct = geom == 'direct'
        e = snap['E'].value
        return [dict(kind='sequence', Ei=e if direct else self.Eo, Ef=self.Eo if direct else e, L1=snap['L1'].value, L2=snap['L2'].value,
                     t=t, c1=self.c1, c2=self.c2) for t in snap['tof'].values]


def judge_sequence(seq: Sequence):
    """every call is judged by the scalar oracle for the operands' CURRENT values and must equal, bit for bit, the same
    call made on fresh copies of the operands → list of (key, what, extra)"""
    out = []
    for i, (geom, snap, res, fresh) in enumerate(seq.run()):
        cfg = seq.cfg.with_geom(geom)
        mod = seq.steps[i][1]
        if isinstance(res, str) or isinstance(fresh, str):
            if res != fresh:
                out.append(('C05:history-dependent', f'call {i} ({geom}, after `{mod}`) gives {res if isinstance(res, str) else "a result"} on the reused '
                            f'objects but {fresh if isinstance(fresh, str) else "a result"} on fresh copies', {'failing_call': i}))
            continue
        vals, dtype, unit_ok = res
        same = np.array_equal(vals, fresh, equal_nan=True)
        for j, c in enumerate(seq.elements(geom, snap)):
            found = [f for f in judge(cfg, c, float(vals[j]), dtype, unit_ok)]
            for k, what, ex in found:
                if not same and not (k == 'C05:f32-constant-underflow' or k.startswith('C05:mixed-precision:')):
                    k = 'C05:history-dependent'
                    what = f'call {i} ({geom}, after in-place `{mod}`), element {j}: wrong for the CURRENT operand values — ' + what
                out.append((k, what, dict(ex, failing_call=i, element=j)))
        if not same:
            out.append(('C05:history-dependent', f'call {i} ({geom}, after in-place `{mod}`) on the reused operand objects returns '
                        f'{vals.tolist()!r}, the same call on fresh copies {np.asarray(fresh).tolist()!r}', {'failing_call': i}))
    seen, uniq = set(), []
    for k, what, ex in out:
        if k not in seen:
            seen.add(k)
            uniq.append((k, what, ex))
    return uniq


def _oracle_sequences(ctx, n):
    rng = ctx.rng
    for _ in range(n):
        cfg = random_cfg(rng, allow_int=True, ctx=ctx)
        seq = Sequence(rng, cfg, via_convert=rng.random() < 0.2)
        ctx.count('oracle-seq:' + '/'.join(st[1] for st in seq.steps[1:])[:60] + (':convert' if seq.via_convert else ''))
        ctx.case(('oracle-seq', seq.cfg.key(), seq.via_convert, bits(seq.E0), bits(seq.L10), bits(seq.L20), tuple(map(str, seq.steps))), True)
        for key, what, ex in judge_sequence(seq):
            ctx.violation(key, what, dict(seq.witness(), **ex))


def oracle(ctx, deep):
    getcontext().prec = 60
    _oracle_corpus(ctx)
    if deep:
        _oracle_kernels(ctx, 400, 30)
        _oracle_ladders(ctx, 600)
        _oracle_convert(ctx, 150)
        _oracle_arrays(ctx, 600)
        _oracle_sequences(ctx, 300)
    else:
        _oracle_kernels(ctx, ctx.n(250, 5000), 30)
        _oracle_ladders(ctx, ctx.n(600, 14000))
        _oracle_convert(ctx, ctx.n(150, 3000))
        _oracle_arrays(ctx, ctx.n(600, 12000))
        _oracle_sequences(ctx, ctx.n(300, 6000))


# ---- replay -----------------------------------------------------------------------------------

def replay(ctx, payload):
    getcontext().prec = 60
    w = payload.get('witness', {})
    key = payload.get('key', '')
    if 'geom' not in w:
        print('no replayable witness in', key)
        return False
    if w.get('op') == 'sequence':
        found = judge_sequence(Sequence.from_witness(w))
        for k, what, _ in found:
            print(k, '-', what)
        return any(k == key for k, _, _ in found)
    if w.get('op') == 'array':
        cfg = Cfg.from_dict(w)
        found = judge_array(cfg, ops_from_witness(cfg, w), kernel_const(cfg.uE, cfg.ut, cfg.u1), kernel_const(cfg.uE, cfg.ut, cfg.u2),
                            w.get('via_convert', False))
        for k, what, _ in found:
            print(k, '-', what)
        return any(k == key for k, _, _ in found)
    cfg, c = case_from_sample(w)
    if w.get('via') == 'convert':
        import scipp as sc
        import scippneutron as scn

        coords = {'tof': sc.array(dims=['tof'], values=np.array([c['t']], dtype=NP[cfg.tD]), unit=cfg.ut, dtype=SC[cfg.tD])}
        if w.get('positions'):
            coords['source_position'] = sc.vector([0.0, 0.0, -float(c['L1'])], unit='m')
            coords['sample_position'] = sc.vector([0.0, 0.0, 0.0], unit='m')
            coords['position'] = sc.vector([0.0, float(c['L2']), 0.0], unit='m')
        else:
            coords['L1'] = sc.scalar(float(c['L1']), unit=cfg.u1)
            coords['L2'] = sc.scalar(float(c['L2']), unit=cfg.u2)
        if cfg.geom == 'direct':
            coords['incident_energy'] = sc.scalar(c['Ei'], unit=cfg.uE, dtype=SC[cfg.eD])
        else:
            coords['final_energy'] = sc.scalar(c['Ef'], unit=cfg.uE, dtype=SC[cfg.eD])
        da = sc.DataArray(sc.ones(dims=['tof'], shape=[1]), coords=coords)
        try:
            et = scn.convert(da, origin='tof', target='energy_transfer', scatter=True).coords['energy_transfer']
        except Exception as e:  # noqa: BLE001
            print('convert raised', _err(e))
            return True
        found = judge(cfg, c, float(et.values.ravel()[0]), str(et.dtype), bool(et.unit == sc.Unit(cfg.uE)))
    else:
        res = run_kernel(cfg, [c])
        if isinstance(res, str):
            print('kernel raised', res)
            return True
        vals, dtype, unit_ok, _ = res
        found = judge(cfg, c, float(vals[0]), dtype, unit_ok)
    for k, what, _ in found:
        print(k, '-', what)
    norm = lambda k: k.replace('C05:convert-', 'C05:')  # noqa: E731
    return any(norm(k) == norm(key) for k, _, _ in found)
