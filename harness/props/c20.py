"""C20 — bundled nuclear data are returned verbatim; attenuation follows the 1/v law."""
from __future__ import annotations

import csv
import math
import os
import struct
from fractions import Fraction

from ..translate import atoms as tr_atoms

PROP = 'C20'
LEAN_TARGETS = ['ScnVerif.Props.C20']
PROPS_FILE = 'ScnVerif/Props/C20.lean'
TRANSLATORS = [tr_atoms.translate]
RULE = (
    'every row of the three CSV tables is looked up through the real code and through the Lean model '
    '(exhaustive); near-miss names are derived from a seeded sample of row names (prefix, suffix, case, '
    'blanks, commas, header words); attenuation cases draw values log-uniformly and units from a grid. '
    'A case is non-trivial when it reaches the field comparison or the rejection branch; distinct = distinct '
    '(operation, name/inputs).'
)
ASSUMPTIONS = [
    "float(str) of a CSV field is Python's (the model returns the field text; the harness compares "
    'float(text) with the implementation value bit for bit)',
    'scipp.to_unit multiplies by the ratio of unit scales (attenuation compared at 1e-12 relative)',
]
TRUSTED = [
    'translator harness/translate/atoms.py (splits each CSV line at its first comma)',
    'modelled, not verified: scippneutron.atoms lookup code, Material.attenuation_coefficient',
]

PERIODIC = (
    'H He Li Be B C N O F Ne Na Mg Al Si P S Cl Ar K Ca Sc Ti V Cr Mn Fe Co Ni Cu Zn Ga Ge As Se Br Kr '
    'Rb Sr Y Zr Nb Mo Tc Ru Rh Pd Ag Cd In Sn Sb Te I Xe Cs Ba La Ce Pr Nd Pm Sm Eu Gd Tb Dy Ho Er Tm Yb '
    'Lu Hf Ta W Re Os Ir Pt Au Hg Tl Pb Bi Po At Rn Fr Ra Ac Th Pa U Np Pu Am Cm Bk Cf Es Fm Md No Lr Rf '
    'Db Sg Bh Hs Mt Ds Rg Cn Nh Fl Mc Lv Ts Og'
).split()

SCAT_FIELDS = [
    ('coherent_scattering_length_re', 'fm'),
    ('coherent_scattering_length_im', 'fm'),
    ('incoherent_scattering_length_re', 'fm'),
    ('incoherent_scattering_length_im', 'fm'),
    ('coherent_scattering_cross_section', 'barn'),
    ('incoherent_scattering_cross_section', 'barn'),
    ('total_scattering_cross_section', 'barn'),
    ('absorption_cross_section', 'barn'),
]


def hexname(s: str) -> str:
    b = s.encode('utf-8')
    return b.hex() if b else '-'


def bits(x: float) -> str:
    return struct.pack('>d', x).hex()


def unbits(h: str) -> float:
    return struct.unpack('>d', bytes.fromhex(h))[0]


def _tables(repo):
    base = os.path.join(repo, 'src', 'scippneutron', 'atoms')

    def rows(name, skip):
        with open(os.path.join(base, name), newline='') as f:
            return list(csv.reader(f))[skip:]

    return rows('scattering_parameters.csv', 0), rows('atomic_weights.csv', 2), rows('atomic_masses.csv', 2)


def _canon_var(v):
    """canonical form of an Optional[sc.Variable] scalar: (value bits, variance bits|None, unit)"""
    if v is None:
        return None
    return (bits(float(v.value)), None if v.variance is None else bits(float(v.variance)), _unit_name(v.unit))


def _unit_name(u) -> str:
    import scipp as sc

    for n in ('Da', 'fm', 'barn'):
        if u == sc.Unit(n):
            return n
    return str(u)


def _canon_model_scalar(tok: str):
    if tok == '-':
        return None
    val, std, unit = tok.split('|')
    return (bits(float(val)), bits(float(std) ** 2) if std else None, {'Da': 'Da', 'fm': 'fm', 'barn': 'barn'}[unit])


def _err(e: Exception) -> str:
    if isinstance(e, ValueError):
        return 'err:value'
    if isinstance(e, TypeError):
        return 'err:type'
    if isinstance(e, IndexError):
        return 'err:value'  # model maps a short row to the same enum
    return 'err:other:' + type(e).__name__


def _impl_atom(name):
    from scippneutron.atoms import Atom

    try:
        a = Atom.for_isotope(name)
    except Exception as e:  # noqa: BLE001
        return _err(e)
    return ('ok', a.isotope, a.z, _canon_var(a._atomic_weight), _canon_var(a._atomic_mass))


def _impl_scat(name):
    from scippneutron.atoms import ScatteringParams

    try:
        p = ScatteringParams.for_isotope(name)
    except Exception as e:  # noqa: BLE001
        return _err(e)
    return ('ok', p.isotope, *[_canon_var(getattr(p, f)) for f, _ in SCAT_FIELDS])


def _model_atom(name, line):
    if not line.startswith('ok '):
        return line
    parts = dict(kv.split('=', 1) for kv in line[3:].split(' '))
    return ('ok', name, int(parts['z']), _canon_model_scalar(parts['w']), _canon_model_scalar(parts['m']))


def _model_scat(name, line):
    if not line.startswith('ok '):
        return line
    return ('ok', name, *[_canon_model_scalar(t) for t in line[3:].split(' ')])


def near_misses(rng, names, k):
    out = []
    pool = rng.sample(names, min(k, len(names)))
    for n in pool:
        out += [
            n[:-1], n + 'x', n + '1', n.lower(), n.upper(), ' ' + n, n + ' ', n + '\n', n + ',', ',' + n,
            n.swapcase(), '0' + n, n + n, n[1:], n + '\t', '"' + n + '"', n.replace('1', '7', 1),
        ]
    out += ['', ' ', ',', 'Element', 'Isotope', 'Z', '12', '1', 'n', 'D', 'T', 'Xx', '999H', 'H999', '1h', 'he',
            '# Numbers extracted using tools/atomic_weights.ipynb from https://www.ciaaw.org/atomic-masses.htm',
            'H,1', '1H,', 'é', 'Hé', '3Hé']
    return out


def _clear_caches():
    from scippneutron.atoms import Atom, ScatteringParams

    import scippneutron.atoms as atoms_mod

    for obj in (Atom.for_isotope, ScatteringParams.for_isotope, getattr(atoms_mod, '_load_scattering_params', None)):
        clear = getattr(obj, 'cache_clear', None)
        if clear is not None:
            clear()


def correspond(ctx):
    _clear_caches()
    scat, weights, masses = _tables(ctx.repo)
    names_s = [r[0] for r in scat]
    names_w = [r[0] for r in weights]
    names_m = [r[0] for r in masses]
    counts = ctx.driver(['c20.count'])[0].split()
    if [int(c) for c in counts] != [len(scat), len(weights) + 2, len(masses) + 2]:
        ctx.disagree('table sizes', [len(scat), len(weights) + 2, len(masses) + 2], counts,
                     'translator output does not match the CSV files as read by csv.reader')
    all_names = sorted(set(names_s) | set(names_w) | set(names_m))
    valid = set(all_names)
    nm = near_misses(ctx.rng, all_names, ctx.n(150, 2000))
    nm = [n for n in dict.fromkeys(nm) if n not in valid]
    queries = [('atom', n) for n in all_names] + [('scat', n) for n in all_names]
    queries += [('atom', n) for n in nm] + [('scat', n) for n in nm]
    lines = [f'c20.{op} {hexname(n)}' for op, n in queries]
    outs = ctx.driver(lines)
    for (op, n), out in zip(queries, outs):
        if op == 'atom':
            impl, model = _impl_atom(n), _model_atom(n, out)
        else:
            impl, model = _impl_scat(n), _model_scat(n, out)
        kind = 'row' if n in valid else 'near-miss'
        ctx.count(f'{op}:{kind}:' + ('ok' if isinstance(impl, tuple) else str(impl)))
        ctx.case((op, n), True, sample={'op': op, 'name': n, 'impl': impl, 'model': model})
        if impl != model:
            ctx.disagree({'op': op, 'name': n}, impl, model)
    ctx.exhaustive = True  # every row of every table is enumerated, in both tiers
    _correspond_attenuation(ctx)


# ---- attenuation ----------------------------------------------------------------------------

LEN_UNITS = ['angstrom', 'nm', 'm', 'mm', 'pm']
XS_UNITS = ['barn', 'fm**2', 'm**2', 'angstrom**2']
DENS_UNITS = ['1/angstrom**3', '1/nm**3', '1/m**3', '1/cm**3']


def _scale(unit: str, base: str) -> Fraction:
    import scipp as sc

    return Fraction(float(sc.to_unit(sc.scalar(1.0, unit=unit), base).value))


def _att_cases(ctx, n):
    rng = ctx.rng
    for _ in range(n):
        lu = lambda lo, hi: math.exp(rng.uniform(math.log(lo), math.log(hi)))  # noqa: E731
        u_l = rng.choice(LEN_UNITS)
        dt = rng.choice(['float64', 'float64', 'float32', 'int64', 'int32'])
        lam = lu(0.05, 50)
        if dt.startswith('int'):
            # integer wavelengths: 1..50 angstrom expressed in a unit where that is a whole number
            u_l = rng.choice(['angstrom', 'pm', 'angstrom'])
            lam = float(rng.randint(1, 50) if u_l == 'angstrom' else rng.randint(5, 5000))
        elif dt == 'float32':
            import numpy as np

            lam = float(np.float32(lam * float(1 / _scale(u_l, 'angstrom'))))
        else:
            lam = lam * float(1 / _scale(u_l, 'angstrom'))
        yield dict(
            n=lu(1e-4, 10), sig_s=lu(1e-3, 1e3), sig_a=lu(1e-4, 1e5), lam=lam, dt=dt,
            u_n=rng.choice(DENS_UNITS), u_s=rng.choice(XS_UNITS), u_a=rng.choice(XS_UNITS), u_l=u_l,
        )


def _impl_attenuation(c):
    import scipp as sc
    from scippneutron.absorption.material import Material
    from scippneutron.atoms import ScatteringParams

    p = ScatteringParams(
        isotope='X',
        total_scattering_cross_section=sc.scalar(c['sig_s'], unit=c['u_s']),
        absorption_cross_section=sc.scalar(c['sig_a'], unit=c['u_a']),
    )
    m = Material(scattering_params=p, effective_sample_number_density=sc.scalar(c['n'], unit=c['u_n']))
    return m.attenuation_coefficient(sc.scalar(c['lam'], unit=c['u_l'], dtype=c.get('dt', 'float64')))


def _exact_attenuation(c, lam_ref=Fraction(17982, 10000)):
    """μ in 1/m, exact rational arithmetic on the floating-point inputs, the 1/v law"""
    N = Fraction(c['n']) * _scale(c['u_n'], '1/m**3')
    S = Fraction(c['sig_s']) * _scale(c['u_s'], 'm**2')
    A = Fraction(c['sig_a']) * _scale(c['u_a'], 'm**2')
    L = Fraction(c['lam']) * _scale(c['u_l'], 'm')
    return N * (S + A * L / (lam_ref * Fraction(10) ** -10))


def _correspond_attenuation(ctx):
    import scipp as sc

    cases = list(_att_cases(ctx, ctx.n(300, 20000)))
    lines = []
    for c in cases:
        sS, sA = float(_scale(c['u_s'], 'm**2')), float(_scale(c['u_a'], 'm**2'))
        sL, sAng = float(_scale(c['u_l'], 'm')), 1e-10
        lines.append('c20.att ' + ' '.join(bits(x) for x in (c['n'], c['sig_s'], c['sig_a'], c['lam'], 1.7982, sS, sA, sL, sAng)))
    outs = ctx.driver(lines)
    for c, out in zip(cases, outs):
        r = _impl_attenuation(c)
        ctx.case(('att', tuple(sorted(c.items()))), True, sample={'op': 'att', **c, 'impl': repr(r.value), 'unit': str(r.unit)})
        ctx.count('att:' + c['u_l'])
        try:
            r_m = sc.to_unit(r, '1/m')
        except Exception as e:  # noqa: BLE001
            ctx.violation('C20:attenuation-unit', f'attenuation coefficient not an inverse length: {r.unit} ({e!r})', c)
            continue
        model_val = unbits(out) * float(_scale(c['u_n'], '1/m**3')) * float(_scale(c['u_s'], 'm**2'))
        impl_val = float(r_m.value)
        tol = 1e-12 if str(r.dtype) == 'float64' else 1e-6
        ctx.count('att-dtype:' + c['dt'] + '->' + str(r.dtype))
        if not (abs(impl_val - model_val) <= tol * abs(model_val)):
            ctx.disagree({'op': 'att', **c}, impl_val, model_val, f'relative difference above {tol}')


# ---- direct oracle -------------------------------------------------------------------------

def _expect_scalar(val: str, std: str, unit: str):
    if val == '':
        return None
    return (bits(float(val)), bits(float(std) ** 2) if std else None, unit)


def oracle(ctx, deep):
    """The property statement evaluated on the real code against the CSV files read with csv.reader
    (independent of translator and model)."""
    _clear_caches()
    scat, weights, masses = _tables(ctx.repo)
    wmap = {r[0]: r for r in weights}
    mmap = {r[0]: r for r in masses}
    import re

    for r in scat:
        name = r[0]
        got = _impl_scat(name)
        exp = ('ok', name, *[_expect_scalar(r[1 + 2 * i], r[2 + 2 * i], u) for i, (_, u) in enumerate(SCAT_FIELDS)])
        ctx.case(('oracle-scat', name), True)
        if got != exp:
            ctx.violation('C20:scattering-row', f'ScatteringParams.for_isotope({name!r}) differs from its table row',
                          {'name': name, 'got': got, 'expected': exp})
    for name in list(wmap) + list(mmap):
        el = re.match(r'(?:\d+)?([a-zA-Z]+)', name)[1]
        got = _impl_atom(name)
        ctx.case(('oracle-atom', name), True)
        if el not in wmap:
            exp = 'err:value'
        else:
            w = wmap[el]
            z_ok = PERIODIC.index(el) + 1 if el in PERIODIC else None
            exp = ('ok', name, int(w[1]), _expect_scalar(w[2], w[3], 'Da'),
                   None if el == name else _expect_scalar(mmap[name][1], mmap[name][2], 'Da'))
            if z_ok != int(w[1]):
                ctx.violation('C20:z-table', f'atomic number of {el} tabulated as {w[1]}, periodic table says {z_ok}', {'element': el})
        if got != exp:
            ctx.violation('C20:atom-row', f'Atom.for_isotope({name!r}) differs from the table rows',
                          {'name': name, 'got': got, 'expected': exp})
    _oracle_history(ctx, scat, wmap, mmap, deep)
    _oracle_att_history(ctx, deep)
    valid_atom = set(wmap) | set(mmap)
    valid_scat = {r[0] for r in scat}
    nm = near_misses(ctx.rng, sorted(valid_atom | valid_scat), 3000 if deep else ctx.n(150, 1500))
    for n in dict.fromkeys(nm):
        if n not in valid_atom:
            got = _impl_atom(n)
            ctx.case(('oracle-reject-atom', n), True)
            if isinstance(got, tuple):
                ctx.violation('C20:near-miss-accepted', f'Atom.for_isotope({n!r}) answered although no such name is tabulated',
                              {'name': n, 'got': got})
        if n not in valid_scat:
            got = _impl_scat(n)
            ctx.case(('oracle-reject-scat', n), True)
            if isinstance(got, tuple):
                ctx.violation('C20:near-miss-accepted', f'ScatteringParams.for_isotope({n!r}) answered although no such name is tabulated',
                              {'name': n, 'got': got})
    # the 1/v law against exact rational arithmetic
    import scipp as sc
    from scippneutron.atoms import reference_wavelength

    # "nothing where the table is blank": a material whose tabulated total-scattering or absorption cross-section is
    # blank has no attenuation coefficient by the 1/v law; answering with a number would invent table data.
    from scippneutron.absorption.material import Material
    from scippneutron.atoms import ScatteringParams

    for r in scat:
        blank = [f for i, (f, _) in enumerate(SCAT_FIELDS) if f in ('total_scattering_cross_section', 'absorption_cross_section') and r[1 + 2 * i] == '']
        if not blank:
            continue
        ctx.case(('oracle-att-blank', r[0]), True)
        ctx.count('att-blank-row')
        try:
            p = ScatteringParams.for_isotope(r[0])
            mu = Material(p, sc.scalar(0.05, unit='1/angstrom**3')).attenuation_coefficient(sc.scalar(1.8, unit='angstrom'))
        except Exception:  # noqa: BLE001
            continue
        ctx.violation('C20:attenuation-from-blank-cross-section',
                      f'attenuation coefficient {mu.value!r} {mu.unit} returned for {r[0]!r} although its {"/".join(blank)} is blank in the table',
                      {'name': r[0], 'blank': blank})
    ref = reference_wavelength()
    if not (str(ref.unit) in ('angstrom', 'Å') and float(ref.value) == 1.7982):
        ctx.violation('C20:reference-wavelength', f'reference wavelength is {ref.value} {ref.unit}, not 1.7982 angstrom', {})
    for c in _att_cases(ctx, 2000 if deep else ctx.n(200, 3000)):
        r = _impl_attenuation(c)
        ctx.case(('oracle-att', tuple(sorted(c.items()))), True)
        try:
            v = Fraction(float(sc.to_unit(r, '1/m').value))
        except Exception as e:  # noqa: BLE001
            ctx.violation('C20:attenuation-unit', f'attenuation coefficient not an inverse length: {r.unit} ({e!r})', c)
            continue
        exact = _exact_attenuation(c)
        tol = Fraction(1, 10**11) if str(r.dtype) == 'float64' else Fraction(1, 10**5)
        if abs(v - exact) > tol * abs(exact):
            ctx.violation('C20:attenuation-law', 'attenuation coefficient differs from n*(sigma_s + sigma_a*lambda/1.7982A)',
                          {**c, 'got_per_m': float(v), 'expected_per_m': float(exact)})


def _att_history_violation(steps):
    """One Material object through a history: [('eval', case) | ('set', case)] — `set` re-assigns density and
    scattering parameters of the SAME object to those of `case`, `eval` evaluates it at that case's wavelength.
    Returns (index, got, expected) of the first evaluation that differs from the law for the CURRENT fields."""
    import scipp as sc
    from scippneutron.absorption.material import Material
    from scippneutron.atoms import ScatteringParams

    def params(c):
        return ScatteringParams(isotope='X', total_scattering_cross_section=sc.scalar(c['sig_s'], unit=c['u_s']),
                                absorption_cross_section=sc.scalar(c['sig_a'], unit=c['u_a']))

    m = None
    cur = None
    for i, (op, c) in enumerate(steps):
        if op == 'set' or m is None:
            if m is None:
                m = Material(scattering_params=params(c), effective_sample_number_density=sc.scalar(c['n'], unit=c['u_n']))
            else:
                which = c.get('which', 'both')
                if which in ('both', 'density'):
                    m.effective_sample_number_density = sc.scalar(c['n'], unit=c['u_n'])
                if which in ('both', 'params'):
                    m.scattering_params = params(c)
                c = {**c, **({} if which in ('both', 'density') else {k: cur[k] for k in ('n', 'u_n')}),
                     **({} if which in ('both', 'params') else {k: cur[k] for k in ('sig_s', 'sig_a', 'u_s', 'u_a')})}
            cur = c
            if op == 'set':
                continue
        e = {**cur, 'lam': c['lam'], 'u_l': c['u_l'], 'dt': c.get('dt', 'float64')}
        r = m.attenuation_coefficient(sc.scalar(e['lam'], unit=e['u_l'], dtype=e['dt']))
        try:
            v = Fraction(float(sc.to_unit(r, '1/m').value))
        except Exception:  # noqa: BLE001
            return i, repr(r.unit), 'an inverse length'
        exact = _exact_attenuation(e)
        tol = Fraction(1, 10**11) if str(r.dtype) == 'float64' else Fraction(1, 10**5)
        if abs(v - exact) > tol * abs(exact):
            return i, float(v), float(exact)
    return None


def _oracle_att_history(ctx, deep):
    """The law holds for the material as it is NOW: the same Material object evaluated at several wavelengths
    (units, dtypes), with its density and/or scattering parameters re-assigned in between (refining a density,
    swapping the isotope), and evaluated again."""
    rng = ctx.rng
    for k in range(300 if deep else ctx.n(80, 1500)):
        cs = list(_att_cases(ctx, rng.randint(3, 6)))
        steps = [('eval', cs[0])]
        for c in cs[1:]:
            if rng.random() < 0.6:
                c = {**c, 'which': rng.choice(['both', 'density', 'params'])}
                steps.append(('set', c))
            steps.append(('eval', c))
        ctx.case(('oracle-att-history', k, len(steps)), True)
        ctx.count('att-history:' + ''.join(op[0] for op, _ in steps))
        bad = _att_history_violation(steps)
        if bad is not None:
            # shrink: drop steps while the failure persists
            changed = True
            while changed:
                changed = False
                for j in range(len(steps)):
                    t = steps[:j] + steps[j + 1:]
                    if t and t[0][0] == 'eval' and _att_history_violation(t) is not None:
                        steps, changed = t, True
                        break
            bad = _att_history_violation(steps)
            ctx.violation('C20:attenuation-depends-on-history',
                          f'attenuation coefficient of a Material object differs from the law for its current fields at step {bad[0]} '
                          f'of a history of evaluations and field re-assignments: got {bad[1]} 1/m, expected {bad[2]} 1/m',
                          {'steps': [[op, c] for op, c in steps]})


def _mutate(v, how):
    """modify a returned scalar Variable in place, the way a careless caller might"""
    import scipp as sc

    if how == 0:
        v *= 2.0
    elif how == 1:
        v.value = 123.456
    elif how == 2:
        v += sc.scalar(1.0, unit=v.unit)
    elif how == 3 and v.variance is not None:
        v.variance = 99.0
    else:
        v.values = -1.0


def _oracle_history(ctx, scat, wmap, mmap, deep):
    """Lookups must be verbatim whatever callers did to earlier results: look up, modify every
    returned Variable in place, look up again (same and other names), compare with the table."""
    from scippneutron.atoms import Atom, ScatteringParams

    rng = ctx.rng
    n = 400 if deep else ctx.n(60, 600)
    atom_names = rng.sample(sorted(mmap), min(n, len(mmap))) + rng.sample(sorted(wmap), min(n // 4 + 1, len(wmap)))
    for name in atom_names:
        first = _impl_atom(name)
        a = Atom.for_isotope(name)
        how = rng.randrange(5)
        touched = []
        for attr in ('atomic_weight', 'atomic_mass'):
            try:
                v = getattr(a, attr)
            except ValueError:
                continue
            try:
                _mutate(v, how)
                touched.append(attr)
            except Exception:  # noqa: BLE001
                pass
        second = _impl_atom(name)
        ctx.case(('oracle-history-atom', name, how), True)
        ctx.count('history:atom:' + '+'.join(touched))
        if second != first:
            ctx.violation('C20:lookup-depends-on-history',
                          f'Atom.for_isotope({name!r}) changed after a caller modified the {"/".join(touched)} it had been handed (mutation kind {how})',
                          {'name': name, 'how': how, 'op': 'atom', 'first': first, 'second': second})
    for r in rng.sample(scat, min(n, len(scat))):
        name = r[0]
        first = _impl_scat(name)
        p = ScatteringParams.for_isotope(name)
        how = rng.randrange(5)
        for f, _ in SCAT_FIELDS:
            v = getattr(p, f)
            if v is not None:
                try:
                    _mutate(v, how)
                except Exception:  # noqa: BLE001
                    pass
        second = _impl_scat(name)
        ctx.case(('oracle-history-scat', name, how), True)
        if second != first:
            ctx.violation('C20:lookup-depends-on-history',
                          f'ScatteringParams.for_isotope({name!r}) changed after a caller modified the variables it had been handed (mutation kind {how})',
                          {'name': name, 'how': how, 'op': 'scat', 'first': first, 'second': second})
    _clear_caches()


def replay(ctx, payload):
    w = payload.get('witness', {})
    key = payload.get('key', '')
    if key in ('C20:scattering-row',):
        return _impl_scat(w['name']) != tuple(_tuplify(w['expected']))
    if key in ('C20:atom-row',):
        exp = w['expected']
        return _impl_atom(w['name']) != (tuple(_tuplify(exp)) if isinstance(exp, list) else exp)
    if key == 'C20:attenuation-from-blank-cross-section':
        import scipp as sc
        from scippneutron.absorption.material import Material
        from scippneutron.atoms import ScatteringParams

        try:
            Material(ScatteringParams.for_isotope(w['name']), sc.scalar(0.05, unit='1/angstrom**3')).attenuation_coefficient(sc.scalar(1.8, unit='angstrom'))
        except Exception:  # noqa: BLE001
            return False
        return True
    if key == 'C20:lookup-depends-on-history':
        from scippneutron.atoms import Atom, ScatteringParams

        _clear_caches()
        if w['op'] == 'atom':
            first = _impl_atom(w['name'])
            a = Atom.for_isotope(w['name'])
            for attr in ('atomic_weight', 'atomic_mass'):
                try:
                    _mutate(getattr(a, attr), w['how'])
                except Exception:  # noqa: BLE001
                    pass
            return _impl_atom(w['name']) != first
        first = _impl_scat(w['name'])
        p = ScatteringParams.for_isotope(w['name'])
        for f, _ in SCAT_FIELDS:
            if getattr(p, f) is not None:
                try:
                    _mutate(getattr(p, f), w['how'])
                except Exception:  # noqa: BLE001
                    pass
        return _impl_scat(w['name']) != first
    if key == 'C20:near-miss-accepted':
        return isinstance(_impl_atom(w['name']), tuple) or isinstance(_impl_scat(w['name']), tuple)
    if key == 'C20:attenuation-depends-on-history':
        return _att_history_violation([(op, c) for op, c in w['steps']]) is not None
    if key.startswith('C20:attenuation'):
        import scipp as sc

        c = {k: w[k] for k in ('n', 'sig_s', 'sig_a', 'lam', 'u_n', 'u_s', 'u_a', 'u_l')}
        c['dt'] = w.get('dt', 'float64')
        r = _impl_attenuation(c)
        try:
            v = Fraction(float(sc.to_unit(r, '1/m').value))
        except Exception:  # noqa: BLE001
            return True
        exact = _exact_attenuation(c)
        return abs(v - exact) > (Fraction(1, 10**11) if str(r.dtype) == 'float64' else Fraction(1, 10**5)) * abs(exact)
    print('no specific replay for key', key)
    return False


def _tuplify(x):
    if isinstance(x, list):
        return tuple(_tuplify(i) for i in x)
    return x

LEVEL_TEXT = (
    'Lean 4 theorems: the lookup code returns only data of the line bearing exactly the requested name, rejects '
    'names heading no line, and (table facts re-checked by decide +kernel against tables regenerated from the CSV '
    'files on every run: pairwise distinct names, well-formed rows, field counts) every one of the 371+118+3557 rows '
    'is returned verbatim under its own name; Z agrees with an independently written periodic table; the attenuation '
    'coefficient equals n(sigma_s+sigma_a*lambda/lambda_ref) over the reals for every choice of units. The model is '
    'tied to the Python code by an exhaustive correspondence over all rows plus near-miss names.'
)
LEVEL_NOTE = (
    "Trusted: Lean kernel, propext/Classical.choice/Quot.sound, the CSV translator, Python's float(str); the lookup "
    'code is modelled by hand (Model/Atoms.lean) and compared with the implementation on every row and on near-miss '
    'names on every run; scipp unit conversion is assumed to multiply by the ratio of scales.'
)
TECHNIQUE = 'Lean 4 proof over translator-regenerated tables + exhaustive model/implementation correspondence'
