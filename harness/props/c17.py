"""C17 — peak fitting returns one coherent result per peak; removal touches only windows."""
from __future__ import annotations

import math
import struct
import traceback

from ..translate import fitcfg as tr_fitcfg

PROP = 'C17'
LEAN_TARGETS = ['ScnVerif.Props.C17']
PROPS_FILE = 'ScnVerif/Props/C17.lean'
TRANSLATORS = [tr_fitcfg.translate]
RULE = (
    'seeded synthetic spectra: 1..6 peaks (gaussian / lorentzian / pseudo-voigt, widths from sub-bin to a third of '
    'the range) on linear or quadratic backgrounds with Poisson-like noise, on uniform, jittered, logarithmic and '
    'gapped grids of 12..400 points; estimates at the true positions, jittered, exactly at the data edges and '
    'outside the data; scalar window widths from below the grid spacing to twice the range, or explicit windows '
    '(including empty and one-point windows); peak/background given as name, instance, list or tuple of either; '
    'default and randomised FitRequirements / neighbour-separation factors; a small stream of rejected inputs '
    '(unsorted estimates, empty model lists); piecewise and wide logarithmic grids with peaks whose FWHM lies between the '
    'window-average and the local spacing; windows whose bounds are exactly grid points (explicit and clipped automatic '
    'ones); remove_peaks additionally on constructed FitResult lists (1..6 results, first '
    'success at every position, mixes of successful / failed / too-narrow / rejected results, overlapping and empty windows, '
    'shuffled orders) passed as list, tuple, generator, iterator, reversed and a one-shot iterable. A case is non-trivial when at least one window reaches the optimiser '
    'or the point-count guard; distinct = distinct generator parameters.'
)
ASSUMPTIONS = [
    'the optimiser (scipp.scipy.optimize.curve_fit) is a parameter of the model: its recorded outcomes (per model and '
    'window) are fed to the Lean model as the oracle function; nothing is claimed about fit quality',
    'scipy.stats.chi2.cdf is uninterpreted: the model receives its values from the harness (scipy, evaluated at the '
    "harness's own recomputation of chi-square)",
    'parameter guesses are assumed not to raise on windows that pass the point-count guard (an exception there is '
    'reported by the direct oracle as a violation)',
    'statistics are compared at 1e-9 relative (libm exp/log differ by ulps between Lean and numpy); comparisons in the '
    'assessment cascade that are closer than 1e-9 are not compared (counted as near-tie)',
    'in-range and keep-distance are jointly unsatisfiable when a neighbouring estimate lies beyond the data; there the '
    'oracle demands in-range and distance only up to the data boundary',
]
TRUSTED = [
    'translator harness/translate/fitcfg.py (statement order in _fit_windows; max/min clamp in _peak_is_too_narrow)',
    'modelled, not verified: peaks/_fit_peaks.py bookkeeping and peaks/_remove_peaks.py (Model/Fit.lean)',
    'the harness wraps _perform_fit / _fit_peak_single_model inside its own process to record optimiser calls',
]
LEVEL_TEXT = (
    'Lean 4 theorems about an executable transcription of fit_peaks/remove_peaks with the optimiser, the parameter '
    'guesses and the chi-square cdf as parameters: one result per window in order, independence of results, '
    'too-narrow windows give a result before any partial operation, first success wins, success implies every '
    'requirement, statistics are the stated functions of the returned parameters and the window data, automatic '
    'windows are in range / contain the estimate / keep the distance (over any linearly ordered field), removal '
    'subtracts exactly the peak on successful windows and never writes the caller buffer. Tied to the code by a '
    'correspondence run that replays the recorded optimiser outcomes through the model.'
)
LEVEL_NOTE = (
    'The optimiser, chi2.cdf, log and the model functions are uninterpreted; windows are proved over ordered fields, '
    'the floating-point windows are compared bit for bit on every run.'
)
TECHNIQUE = 'Lean 4 proof about a parametric executable model + trace-replay correspondence + direct oracle'

ASSESS = ['success', 'failed', 'background_is_better', 'peak_too_narrow', 'peak_too_wide', 'peak_near_edge',
          'peak_points_down', 'p_too_small', 'window_too_narrow']
PEAK_NAMES = ['gaussian', 'lorentzian', 'pseudo_voigt']
PEAK_CODE = {'GaussianModel': 1, 'LorentzianModel': 2, 'PseudoVoigtModel': 3}
BG_NAMES = {1: 'linear', 2: 'quadratic'}

SQRT2PI = math.sqrt(2 * math.pi)
SQRT2LN2 = math.sqrt(2 * math.log(2))
GFWHM = 2 * math.sqrt(2 * math.log(2))
TINY = 1e-15



def report(ctx, key, what, witness, cap=3):
    """ctx.violation, capped per key so that a frequent class cannot crowd out another"""
    n = sum(1 for v in ctx.violations if v['key'] == key)
    if n < cap:
        getattr(ctx, 'violation')(key, what, witness)
    else:
        ctx.count('violation:' + key)


def bits(x) -> str:
    return struct.pack('>d', float(x)).hex()


def unbits(h: str) -> float:
    if h == 'nan':
        return math.nan
    return struct.unpack('>d', bytes.fromhex(h))[0]


# ---- case generation ---------------------------------------------------------------------------

def gen_case(rng, idx: int) -> dict:
    """All parameters of one case; the data are regenerated deterministically from them (`build`)."""
    grid = rng.choice(['uniform'] * 4 + ['jitter', 'log', 'gapped', 'piecewise', 'log'])
    n = rng.choice([12, 20, 35, 60, 60, 101, 101, 160, 160, 250, 400])
    x0 = rng.choice([0.0, 0.5, 1.0, -3.0, 10.0])
    span = rng.choice([1.0, 4.0, 10.0, 25.0])
    if grid in ('log', 'logwide') and x0 <= 0:
        x0 = 0.5
    npk = rng.randint(1, 6)
    peaks = []
    for _ in range(npk):
        peaks.append({
            'kind': rng.choice(PEAK_NAMES),
            'loc': x0 + span * rng.uniform(0.03, 0.97),
            'scale': span * math.exp(rng.uniform(math.log(0.003), math.log(0.06))),
            'amp': math.exp(rng.uniform(math.log(3), math.log(300))),
            'frac': rng.uniform(0.1, 0.9),
        })
    peaks.sort(key=lambda p: p['loc'])
    bg = [rng.uniform(2, 30), rng.uniform(-1, 1) * 10 / span]
    if rng.random() < 0.5:
        bg.append(rng.uniform(-1, 1) * 10 / span**2)
    est = []
    for p in peaks:
        r = rng.random()
        if r < 0.7:
            est.append(p['loc'] + rng.uniform(-0.5, 0.5) * p['scale'])
        elif r < 0.8:
            est.append(p['loc'])
        elif r < 0.88:
            est.append(rng.choice(['lo', 'hi']))                  # exactly at a data edge
        else:
            est.append(rng.choice([x0 - span * rng.uniform(0.01, 0.6), x0 + span * (1 + rng.uniform(0.01, 0.6))]))
    wmode = 'scalar' if rng.random() < 0.7 else 'explicit'
    wfrac = math.exp(rng.uniform(math.log(0.2 / n), math.log(2.0)))   # width / span
    if rng.random() < 0.7:
        wfrac = rng.uniform(0.08, 0.4)                                # the useful range
    expl = []
    if wmode == 'explicit':
        for p in peaks:
            c = (p['loc'] - x0) / span + rng.uniform(-0.02, 0.02) if rng.random() < 0.7 else rng.uniform(-0.1, 1.1)
            h = rng.choice([0.0, 0.3 / n, 1.5 / n, 4.0 / n, 0.05, 0.1, 0.1, 0.15, 0.15, 0.4, 1.2])
            expl.append([c - h, c + h])                                # in units of span, relative to x0
    spec_form = lambda: rng.choice(['name', 'instance', 'list-names', 'list-instances', 'tuple-mixed'])  # noqa: E731
    return {
        'idx': idx, 'np_seed': rng.getrandbits(32), 'grid': grid, 'n': n, 'x0': x0, 'span': span,
        'peaks': peaks, 'bg': bg, 'est': est, 'wmode': wmode, 'wfrac': wfrac, 'expl': expl,
        'noise': rng.choice([1.0, 5.0, 30.0]),
        'peak_spec': {'form': spec_form(), 'kinds': [rng.choice(PEAK_NAMES) for _ in range(rng.randint(1, 3))]},
        'bg_spec': {'form': spec_form(), 'degs': [rng.choice([1, 2]) for _ in range(rng.randint(1, 2))]},
        'sep': rng.choice([1 / 3, 1 / 3, 0.0, 0.25, 0.5, 0.75, rng.uniform(0, 0.9)]),
        'req': rng.choice([None, None, {'min_p_value': rng.choice([0.0, 1e-6, 0.05, 0.5]),
                                        'max_peak_width_factor': rng.choice([0.05, 0.3, 1.0, 3.0]),
                                        'min_peak_width_factor': rng.choice([0.0, 0.5, 1.0, 4.0])}]),
    }


def grid_of(case):
    import numpy as np

    n, x0, span = case['n'], case['x0'], case['span']
    rs = np.random.default_rng(case['np_seed'] ^ 0x5A5A)
    if case['grid'] == 'uniform':
        return np.linspace(x0, x0 + span, n)
    if case['grid'] == 'jitter':
        x = np.linspace(x0, x0 + span, n)
        x[1:-1] += rs.uniform(-0.3, 0.3, n - 2) * (span / (n - 1))
        return x
    if case['grid'] == 'log':
        return np.geomspace(x0, x0 + span, n)
    if case['grid'] == 'logwide':            # logarithmic spacing over a factor `ratio` (d-spacing / TOF like)
        return np.geomspace(x0, x0 * case.get('ratio', 30.0), n)
    if case['grid'] == 'piecewise':          # fine spacing on the first part, four times coarser on the rest
        nf = (2 * n) // 3
        h = span / (nf + 4 * (n - 1 - nf))
        steps = np.concatenate([np.full(nf, h), np.full(n - 1 - nf, 4 * h)])
        return x0 + np.concatenate([[0.0], np.cumsum(steps)])
    # gapped: dense stretches separated by a wide gap with a lone point in the middle
    x = np.linspace(x0, x0 + span, n)
    k, g = gap_geometry(n)
    keep = np.ones(n, bool)
    keep[k + 1:k + g + 1] = False
    keep[k + g + 2:k + 2 * g + 2] = False
    return x[keep]


def gap_geometry(n):
    """(index of the last point before the gap, number of removed points on each side of the lone point)"""
    return n // 3, max(2, n // 12)


def np_peak(kind, x, amp, loc, scale, frac=0.5):
    import numpy as np

    s = max(scale, TINY)
    if kind in ('gaussian', 1):
        return amp / (SQRT2PI * s) * np.exp(-((x - loc) ** 2) / (2 * s * s))
    if kind in ('lorentzian', 2):
        return amp / math.pi * s / ((x - loc) ** 2 + s * s)
    sg = max(scale / SQRT2LN2, TINY)
    return frac * (amp / math.pi * s / ((x - loc) ** 2 + s * s)) + (1 - frac) * (
        amp / (SQRT2PI * sg) * np.exp(-((x - loc) ** 2) / (2 * sg * sg)))


def build(case):
    """-> (DataArray, estimates Variable, windows Variable, peak spec, background spec, FitParameters, FitRequirements)"""
    import numpy as np
    import scipp as sc
    from scippneutron.peaks import FitParameters, FitRequirements
    from scippneutron.peaks import model as M

    x = grid_of(case)
    rs = np.random.default_rng(case['np_seed'])
    y = np.polynomial.polynomial.polyval(x - case['x0'], case['bg'])
    for p in case['peaks']:
        # area such that the height is p['amp'] for a gaussian of that scale
        y = y + np_peak(p['kind'], x, p['amp'] * SQRT2PI * p['scale'], p['loc'], p['scale'], p['frac'])
    y = np.maximum(y, 0.5)
    k = case['noise']
    yn = rs.poisson(y * k) / k
    var = np.maximum(yn, 1.0 / k) / k
    da = sc.DataArray(sc.array(dims=['x'], values=yn, variances=var, unit='counts'),
                      coords={'x': sc.array(dims=['x'], values=x, unit='angstrom')})
    est = [x[0] if e == 'lo' else x[-1] if e == 'hi' else e for e in case['est']]
    est = [float(e) for e in est] if case.get('unsorted') else sorted(float(e) for e in est)
    est_v = sc.array(dims=['x'], values=est, unit='angstrom')
    if case['wmode'] == 'scalar':
        win = sc.scalar(case['wfrac'] * case['span'], unit='angstrom')
    else:
        if case.get('expl_idx'):       # bounds that are exactly grid points
            w = [[float(x[min(max(i, 0), len(x) - 1)]), float(x[min(max(j, 0), len(x) - 1)])] for i, j in case['expl_idx']]
        elif case.get('expl_abs'):
            w = [[float(a), float(b)] for a, b in case['expl_abs']]
        else:
            w = [[case['x0'] + a * case['span'], case['x0'] + b * case['span']] for a, b in case['expl']]
        win = sc.array(dims=['x', 'range'], values=np.array(w).reshape(len(w), 2), unit='angstrom')

    def inst_peak(kind, j):
        cls = {'gaussian': M.GaussianModel, 'lorentzian': M.LorentzianModel, 'pseudo_voigt': M.PseudoVoigtModel}[kind]
        return cls(prefix=['', 'p_', 'peak_', 'zz'][j % 4])

    def inst_bg(deg, j):
        return M.PolynomialModel(degree=deg, prefix=['', 'b_', 'bkg_', 'yy'][j % 4])

    def spec(form, items, names, inst):
        if form == 'name':
            return names[0]
        if form == 'instance':
            return inst(items[0], 1)
        if form == 'list-names':
            return list(names)
        if form == 'list-instances':
            return [inst(it, j) for j, it in enumerate(items)]
        return tuple(names[j] if j % 2 == 0 else inst(it, j) for j, it in enumerate(items))

    ps, bs = case['peak_spec'], case['bg_spec']
    peak = spec(ps['form'], ps['kinds'], ps['kinds'], inst_peak)
    bgs = spec(bs['form'], bs['degs'], [BG_NAMES[d] for d in bs['degs']], inst_bg)
    fp = FitParameters(neighbor_separation_factor=case['sep'])
    fr = FitRequirements(**case['req']) if case['req'] else FitRequirements()
    return da, est_v, win, peak, bgs, fp, fr


def canon_kinds(case):
    ps, bs = case['peak_spec'], case['bg_spec']
    single = lambda f: f in ('name', 'instance')  # noqa: E731
    kinds = ps['kinds'][:1] if single(ps['form']) else ps['kinds']
    degs = bs['degs'][:1] if single(bs['form']) else bs['degs']
    return [PEAK_NAMES.index(k) + 1 for k in kinds], list(degs)


# ---- running the implementation with the optimiser recorded ------------------------------------

class Recorder:
    """Wraps `_perform_fit` and `_fit_peak_single_model` of the imported module for the duration of a
    `with` block (restored afterwards, also on error)."""

    def __init__(self):
        self.calls = []     # dicts: model id, npts, x0, outcome
        self.singles = []   # (n points, peak code, degree, assessment name) per _fit_peak_single_model call

    def __enter__(self):
        import scippneutron.peaks._fit_peaks as fp

        self.fp = fp
        self.orig_fit = fp._perform_fit
        self.orig_single = fp._fit_peak_single_model
        rec = self

        def perform_fit(model, data, p0, bounds):
            entry = {'model': model_id(model), 'n': len(data),
                     'x0': float(data.coords[data.dim].values[0]) if len(data) else math.nan}
            try:
                popt, stats = rec.orig_fit(model, data, p0, bounds)
            except RuntimeError:
                entry['ok'] = False
                rec.calls.append(entry)
                raise
            except ValueError as e:
                if 'Bad parameters for model' in str(e):
                    # the initial guess handed to the optimiser lacks a parameter: a failed guess, not an optimiser outcome
                    entry['ok'] = 'guess'
                    rec.calls.append(entry)
                raise
            entry['ok'] = True
            entry['popt'] = {k: float(v.value) for k, v in popt.items()}
            entry['stats'] = {k: float(v.value) for k, v in stats.items()}
            entry['xyv'] = (data.coords[data.dim].values.copy(), data.values.copy(), data.variances.copy())
            rec.calls.append(entry)
            return popt, stats

        def single(data, peak, background, window, fit_parameters, fit_requirements):
            r = rec.orig_single(data, peak=peak, background=background, window=window,
                                fit_parameters=fit_parameters, fit_requirements=fit_requirements)
            rec.singles.append((len(data), bits(window.values[0]), bits(window.values[1]),
                                PEAK_CODE[type(peak).__name__], background.degree, r.assessment.name, id(r)))
            return r

        fp._perform_fit = perform_fit
        fp._fit_peak_single_model = single
        return self

    def __exit__(self, *a):
        self.fp._perform_fit = self.orig_fit
        self.fp._fit_peak_single_model = self.orig_single
        return False


def model_id(model):
    name = type(model).__name__
    if name == 'PolynomialModel':
        return (0, model.degree)
    if name == 'CompositeModel':
        return (PEAK_CODE[type(model._right).__name__], model._left.degree)
    return (-1, -1)


def repo_frames(e: BaseException):
    out = []
    for fr in traceback.extract_tb(e.__traceback__):
        if 'scippneutron' in fr.filename.replace('\\', '/'):
            out.append(fr.name)
    return out


_RUNS: dict = {}


def run_impl(case):
    """run fit_peaks on the case with the optimiser recorded; cached per case for this process (the
    correspondence and the direct oracle look at the same runs)"""
    key = repr(sorted(case.items(), key=lambda kv: kv[0]))
    if key not in _RUNS:
        _RUNS[key] = _run_impl(case)
    return _RUNS[key]


def _run_impl(case):
    import warnings

    from scippneutron.peaks import fit_peaks

    da, est, win, peak, bgs, fp, fr = build(case)
    rec = Recorder()
    exc = None
    results = None
    with rec, warnings.catch_warnings():
        warnings.simplefilter('ignore')
        try:
            results = fit_peaks(da, peak_estimates=est, windows=win, background=bgs, peak=peak,
                                fit_parameters=fp, fit_requirements=fr)
        except Exception as e:  # noqa: BLE001
            exc = e
    return da, est, win, fp, fr, rec, results, exc


def popt_list(popt: dict, deg: int, peak_code: int):
    bg = [popt[f'bkg_a{i}'] for i in range(deg + 1)]
    if peak_code == 0:
        return bg, [0.0, 0.0, 0.0, 0.0]
    pk = [popt['peak_amplitude'], popt['peak_loc'], popt['peak_scale'], popt.get('peak_fraction', 0.0)]
    return bg, pk


def np_model(mid, popt, x):
    import numpy as np

    pc, deg = mid
    bg, pk = popt_list(popt, deg, pc)
    y = np.polynomial.polynomial.polyval(x, bg)
    if pc:
        y = y + np_peak(pc, x, pk[0], pk[1], pk[2], pk[3])
    return y


def np_stats(mid, popt, x, y, var):
    """chi², reduced chi², p, AIC recomputed from the parameters and the window data (numpy/scipy, own formulas)."""
    import numpy as np
    from scipy.stats import chi2

    n = len(x)
    k = mid[1] + 1 + (0 if mid[0] == 0 else (4 if mid[0] == 3 else 3))
    chi = float(np.sum((y - np_model(mid, popt, x)) ** 2 / var))
    # residuals at the rounding level of the data: chi² (and its logarithm) cannot be recomputed to 1e-9
    floor = float(np.sum((1e-5 * np.abs(y)) ** 2 / var))
    ndof = n - k
    with np.errstate(all='ignore'):
        red = chi / ndof if ndof else (math.inf if chi > 0 else math.nan)
        cdf = float(chi2(ndof).cdf(chi))
        aic = n * math.log(chi / n) + 2 * k if chi > 0 else -math.inf
    return {'chi': chi, 'ndof': ndof, 'red_chisq': red, 'cdf': cdf, 'p_value': 1 - cdf, 'aic': aic,
            'ill_conditioned': not (chi > floor)}


def close(a, b, rel=1e-9, abs_=1e-12):
    if math.isnan(a) or math.isnan(b):
        return math.isnan(a) and math.isnan(b)
    if math.isinf(a) or math.isinf(b):
        return a == b
    return abs(a - b) <= rel * max(abs(a), abs(b)) + abs_


# ---- correspondence -----------------------------------------------------------------------------

def fit_line(case, da, est, win, fp, fr, rec):
    x = da.coords['x'].values
    y = da.values
    v = da.variances
    toks = ['c17.fit', bits(fr.min_p_value), bits(fr.max_peak_width_factor), bits(fr.min_peak_width_factor),
            bits(SQRT2PI), bits(math.pi), bits(SQRT2LN2), bits(GFWHM), bits(TINY), str(len(x))]
    toks += [bits(t) for t in x] + [bits(t) for t in y] + [bits(t) for t in v]
    if win.ndim == 0:
        toks += ['A', bits(win.value), bits(fp.neighbor_separation_factor), str(len(est.values))]
        toks += [bits(c) for c in est.values]
    else:
        w = win.values
        toks += ['W', str(len(w))]
        for lo, hi in w:
            toks += [bits(lo), bits(hi)]
    kinds, degs = canon_kinds(case)
    toks += [str(len(kinds))] + [str(k) for k in kinds] + [str(len(degs))] + [str(d) for d in degs]
    toks.append(str(len(rec.calls)))
    for c in rec.calls:
        pc, deg = c['model']
        toks += [str(pc), str(deg), str(c['n']), bits(c['x0']), '2' if c['ok'] == 'guess' else '1' if c['ok'] else '0']
        if c['ok'] is True:
            st = np_stats(c['model'], c['popt'], *c['xyv'])
            c['np_stats'] = st
            bg, pk = popt_list(c['popt'], deg, pc)
            toks += [bits(st['cdf']), bits(st['chi']), str(len(bg))] + [bits(b) for b in bg] + [bits(p) for p in pk]
    return ' '.join(toks)


def canon_impl_result(r):
    pc = PEAK_CODE[type(r.peak).__name__]
    deg = r.background.degree
    failed = r.assessment.name in ('failed', 'window_too_narrow')
    return {
        'assessment': r.assessment.name, 'model': f'{pc}/{deg}',
        'window': (bits(r.window.values[0]), bits(r.window.values[1])),
        'stats': None if failed else (float(r.red_chisq.value), float(r.p_value.value), float(r.aic.value)),
        'popt': None if failed else [bits(t) for t in sum(popt_list({k: float(v.value) for k, v in r.popt.items()}, deg, pc), [])],
        'prefixes': (r.peak.prefix, r.background.prefix),
    }


def parse_model_results(line):
    if line.startswith('err:') or line.startswith('bad'):
        return line
    out = []
    if line == '':
        return out
    for rec in line.split(';'):
        if rec == 'none':
            out.append(None)
            continue
        a, m, w, st, po, calls = rec.split(' ')
        out.append({
            'assessment': a, 'model': m, 'window': tuple(w.split(',')),
            'stats': None if st == '-' else tuple(unbits(t) for t in st.split(',')),
            'popt': None if po == '-' else po.split(','),
            'calls': [tuple(int(t) for t in c.split('/')) for c in calls[1:-1].split(',') if c],
        })
    return out


def err_class(exc):
    if isinstance(exc, IndexError):
        return 'err:index'
    if isinstance(exc, ValueError):
        frames = repo_frames(exc)
        if 'Bad parameters for model' in str(exc):
            return 'err:guess'
        if any(f in ('guess', '_guess', '_guess_peak', '_guess_background', '_guess_from_peak') for f in frames):
            return 'err:guess'
        return 'err:value'
    return 'err:other:' + type(exc).__name__


def near_tie(rec, fr, impl_res):
    """the assessment may legitimately differ when a comparison of the cascade is within rounding"""
    for c in rec.calls:
        if c['ok'] is not True:
            continue
        st = c['stats']
        if close(st['p_value'], fr.min_p_value, 1e-9, 1e-15) and st['p_value'] != fr.min_p_value:
            return True
    oks = [c for c in rec.calls if c['ok'] is True]
    for a in oks:
        for b in oks:
            if a is not b and a['model'][0] == 0 and b['model'][0] != 0 and a['n'] == b['n'] and a['x0'] == b['x0']:
                if close(a['stats']['aic'], b['stats']['aic'], 1e-9, 1e-12) and a['stats']['aic'] != b['stats']['aic']:
                    return True
    return False


def correspond(ctx):
    variant = ctx.driver(['c17.variant'])[0]
    ctx.note(f'source shape read by the translator: clipFirst,clampIdx = {variant}')
    cases = corpus_cases() + rejected_cases() + general_cases(ctx) + _CASES[ctx.seed][1]   # general + targeted (runs are shared with the oracle)
    runs = []
    lines = []
    for case in cases:
        da, est, win, fp, fr, rec, results, exc = run_impl(case)
        runs.append((case, da, est, win, fp, fr, rec, results, exc))
        lines.append(fit_line(case, da, est, win, fp, fr, rec))
    outs = ctx.driver(lines)
    for (case, da, est, win, fp, fr, rec, results, exc), out in zip(runs, outs):
        model = parse_model_results(out)
        ident = ('fit', case['idx'], case['np_seed'])
        nontrivial = bool(rec.singles)
        sample = {'op': 'fit', 'grid': case['grid'], 'n': int(len(da)), 'wmode': case['wmode'],
                  'peak_spec': case['peak_spec']['form'], 'bg_spec': case['bg_spec']['form'],
                  'impl': 'exception ' + type(exc).__name__ if exc else [r.assessment.name for r in results],
                  'optimiser_calls': len(rec.calls)}
        ctx.case(ident, nontrivial, sample=sample)
        ctx.count('grid:' + case['grid'])
        ctx.count('windows:' + case['wmode'])
        ctx.count('spec:' + case['peak_spec']['form'])
        if exc is not None:
            impl = err_class(exc)
            ctx.count('outcome:' + impl)
            if model != impl:
                ctx.disagree(small(case), impl, out[:300], 'implementation raised; model output differs')
            continue
        if isinstance(model, str):
            ctx.count('outcome:ok')
            ctx.disagree(small(case), [r.assessment.name for r in results], model, 'model reports an exception')
            continue
        impl_rs = [canon_impl_result(r) for r in results]
        for r in impl_rs:
            ctx.count('assessment:' + r['assessment'])
        ctx.count(f'npeaks:{len(impl_rs)}')
        problems = []
        if len(model) != len(impl_rs):
            problems.append(f'result count {len(impl_rs)} vs {len(model)}')
        else:
            tie = None
            for i, (a, b) in enumerate(zip(impl_rs, model)):
                if b is None:
                    problems.append(f'result {i}: model None')
                    continue
                if a['window'] != b['window']:
                    problems.append(f'result {i}: window {a["window"]} vs {b["window"]}')
                if a['assessment'] != b['assessment'] or a['model'] != b['model']:
                    if tie is None:
                        tie = near_tie(rec, fr, a)
                    if tie:
                        ctx.count('near-tie-skipped')
                        continue
                    problems.append(f'result {i}: {a["assessment"]} {a["model"]} vs {b["assessment"]} {b["model"]}')
                    continue
                if (a['popt'] is None) != (b['popt'] is None) or (a['popt'] and a['popt'] != b['popt']):
                    problems.append(f'result {i}: popt differ')
                if (a['stats'] is None) != (b['stats'] is None):
                    problems.append(f'result {i}: stats presence differs')
                elif a['stats'] and not any(c.get('np_stats', {}).get('ill_conditioned') for c in rec.calls):
                    n_here = max(1.0, abs(a['stats'][2]))
                    for nm, u, w_, tol in zip(('red_chisq', 'p_value', 'aic'), a['stats'], b['stats'], (1e-12, 1e-9, 1e-9 * n_here)):
                        if not close(u, w_, 1e-9, tol):
                            problems.append(f'result {i}: {nm} {u!r} vs {w_!r}')
                if a['prefixes'] != ('peak_', 'bkg_'):
                    problems.append(f'result {i}: prefixes {a["prefixes"]}')
            mcalls = [c for b in model if b for c in b['calls']]
            icalls = [tuple(c['model']) for c in rec.calls]
            if mcalls != icalls and not tie:
                problems.append(f'optimiser call sequence {icalls} vs {mcalls}')
        if problems:
            ctx.disagree(small(case), [(r['assessment'], r['model'], r['window']) for r in impl_rs],
                         out[:400], '; '.join(problems[:4]))
    correspond_remove(ctx, runs)
    correspond_remove_suite(ctx, remove_cases(ctx))
    correspond_windows(ctx)


def small(case):
    return {k: case[k] for k in case}


def rejected_cases():
    """inputs that must be rejected (model: err:value)"""
    base = gen_case(__import__('random').Random(12345), -1)
    base.update({'wmode': 'scalar', 'wfrac': 0.2})
    base['peaks'] = base['peaks'][:2] if len(base['peaks']) >= 2 else base['peaks'] * 2
    base['est'] = [base['x0'] + 0.7 * base['span'], base['x0'] + 0.3 * base['span']]
    c1 = dict(base, idx=-1, unsorted=True)
    c2 = dict(base, idx=-2, est=sorted(base['est']), peak_spec={'form': 'list-names', 'kinds': []})
    c3 = dict(base, idx=-3, est=sorted(base['est']), bg_spec={'form': 'list-names', 'degs': []})
    return [c1, c2, c3]


def correspond_windows(ctx):
    """`_fit_windows` alone, many more inputs (cheap): bitwise against the model"""
    import numpy as np
    import scipp as sc
    from scippneutron.peaks import FitParameters
    from scippneutron.peaks import _fit_peaks as fpm

    rng = ctx.rng
    lines, impls, cases = [], [], []
    for i in range(ctx.n(400, 6000)):
        n = rng.randint(1, 6)
        dmin = rng.choice([0.0, -5.0, 1.0, 100.0])
        span = rng.choice([1.0, 10.0, 0.001, 1e4])
        cs = sorted(dmin + span * rng.choice([rng.uniform(0, 1), rng.uniform(-0.5, 1.5), 0.0, 1.0, 0.5]) for _ in range(n))
        if rng.random() < 0.05 and n > 1:
            cs = cs[::-1]
        width = span * rng.choice([0.0, 1e-6, 0.01, 0.1, 0.5, 1.0, 3.0, rng.uniform(0, 1)])
        f = rng.choice([1 / 3, 0.0, 0.25, 0.5, 0.75, 1.0, rng.uniform(0, 1)])
        x = sc.array(dims=['x'], values=np.linspace(dmin, dmin + span, 7), unit='angstrom')
        da = sc.DataArray(sc.zeros(sizes={'x': 7}), coords={'x': x})
        c = sc.array(dims=['x'], values=cs, unit='angstrom')
        try:
            w = fpm._fit_windows(da, c, sc.scalar(width, unit='angstrom'), FitParameters(neighbor_separation_factor=f))
            impl = ';'.join(f'{bits(a)},{bits(b)}' for a, b in w.values)
        except ValueError:
            impl = 'err:value'
        xv = x.values
        lines.append('c17.windows ' + ' '.join([bits(xv[0]), bits(xv[-1]), bits(width), bits(f), str(n)] + [bits(t) for t in cs]))
        impls.append(impl)
        cases.append({'centers': cs, 'width': width, 'factor': f, 'dmin': float(xv[0]), 'dmax': float(xv[-1])})
    for case, impl, out in zip(cases, impls, ctx.driver(lines)):
        ctx.case(('windows', tuple(case['centers']), case['width'], case['factor'], case['dmin'], case['dmax']), True)
        ctx.count('windows-only:' + ('rejected' if impl.startswith('err') else 'ok'))
        if impl != out:
            ctx.disagree({'op': 'windows', **case}, impl, out)
    # label slicing: begin/end or IndexError
    lines, impls, cases = [], [], []
    for i in range(ctx.n(300, 4000)):
        n = rng.randint(1, 12)
        xs = sorted({rng.choice([rng.uniform(0, 10), float(rng.randint(0, 10))]) for _ in range(n)})   # strictly increasing
        n = len(xs)
        lo, hi = (rng.choice([rng.uniform(-2, 12), float(rng.randint(-1, 11)), rng.choice(xs)]) for _ in range(2))
        if rng.random() < 0.7 and lo > hi:
            lo, hi = hi, lo
        x = sc.array(dims=['x'], values=xs, unit='angstrom')
        da = sc.DataArray(sc.arange('x', float(n)), coords={'x': x})
        w = sc.array(dims=['range'], values=[lo, hi], unit='angstrom')
        try:
            s = da['x', w[0]:w[1]]
            b = int(s.values[0]) if len(s) else None
            impl = ('ok', b, len(s))
        except IndexError:
            impl = 'err:index'
        lines.append('c17.slice ' + ' '.join([bits(lo), bits(hi), str(n)] + [bits(t) for t in xs]))
        impls.append(impl)
        cases.append({'xs': xs, 'lo': lo, 'hi': hi})
    for case, impl, out in zip(cases, impls, ctx.driver(lines)):
        ctx.case(('slice', tuple(case['xs']), case['lo'], case['hi']), True)
        if out.startswith('err'):
            model = out
        else:
            b, e = (int(t) for t in out.split())
            model = ('ok', b if e > b else None, e - b)
        ctx.count('slice:' + (impl if isinstance(impl, str) else 'ok'))
        if impl != model:
            ctx.disagree({'op': 'slice', **case}, impl, out)


def remove_inputs(da, results):
    import scipp as sc

    return sc.DataArray(sc.values(da.data).copy(), coords={'x': da.coords['x'].copy()})


def correspond_remove(ctx, runs):
    from scippneutron.peaks import remove_peaks

    lines, impls, metas = [], [], []
    for case, da, est, win, fp, fr, rec, results, exc in runs:
        if exc is not None or not results:
            continue
        d = remove_inputs(da, results)
        before = d.values.copy()
        try:
            out = remove_peaks(d, results)
        except Exception as e:  # noqa: BLE001
            impls.append(err_class(e))
            out = None
        x = d.coords['x'].values
        toks = ['c17.remove', '1', bits(SQRT2PI), bits(math.pi), bits(SQRT2LN2), bits(GFWHM), bits(TINY), str(len(x))]
        toks += [bits(t) for t in x] + [bits(t) for t in before] + [str(len(results))]
        for r in results:
            pc = PEAK_CODE[type(r.peak).__name__]
            _, pk = popt_list({k: float(v.value) for k, v in r.popt.items()}, -1, pc)
            toks += ['1' if r.success else '0', str(pc), bits(r.window.values[0]), bits(r.window.values[1])] + [bits(p) for p in pk]
        lines.append(' '.join(toks))
        if out is not None:
            impls.append((d.values.copy(), out.values.copy()))
        metas.append((case, before, results))
    for (case, before, results), impl, out in zip(metas, impls, ctx.driver(lines)):
        nsucc = sum(1 for r in results if r.success)
        ctx.case(('remove', case['idx'], case['np_seed']), nsucc > 0)
        ctx.count(f'remove:successful-windows:{min(nsucc, 3)}')
        if isinstance(impl, str) or out.startswith('err') or out.startswith('bad'):
            if impl != out:
                ctx.disagree({'op': 'remove', **small(case)}, str(impl)[:100], out[:100])
            continue
        caller_m, work_m = ([unbits(t) for t in part.split()] for part in out.split('|'))
        caller_i, work_i = impl
        bad = None
        if [bits(t) for t in caller_i] != [bits(t) for t in caller_m]:
            bad = 'caller buffer differs'
        else:
            for j, (u, w_, b0) in enumerate(zip(work_i, work_m, before)):
                if bits(u) == bits(b0) and bits(w_) == bits(b0):
                    continue
                if (bits(u) == bits(b0)) != (bits(w_) == bits(b0)) or not close(u, w_, 1e-9, 1e-9 * max(1.0, abs(b0))):
                    bad = f'point {j}: impl {u!r} model {w_!r} input {b0!r}'
                    break
        if bad:
            ctx.disagree({'op': 'remove', **small(case)}, 'impl', 'model', bad)


# ---- direct oracle -------------------------------------------------------------------------------

def classify_exception(exc, case, da, est, win, fp):
    frames = repo_frames(exc)
    inner = frames[-1] if frames else '?'
    if any(f in ('_guess_background', '_guess_peak', 'guess', '_guess', '_guess_from_peak') for f in frames):
        return 'C17:narrow-window-exception', f'{type(exc).__name__} from the parameter guesses ({inner})'
    if isinstance(exc, ValueError) and 'Bad parameters for model PolynomialModel' in str(exc):
        return ('C17:polynomial-guess-drops-zero-coefficient',
                'PolynomialModel._guess returned fewer coefficients than parameters (highest coefficient exactly zero); '
                'the optimiser call raised ValueError out of fit_peaks')
    if isinstance(exc, IndexError) and inner == 'fit_peaks':
        return ('C17:window-beyond-data-range',
                'automatic window left the data range (neighbouring estimate beyond the data); slicing raised IndexError')
    if isinstance(exc, IndexError) and '_peak_is_too_narrow' in frames:
        return ('C17:width-check-index-error',
                'IndexError in _peak_is_too_narrow: fitted location nearest to the last point of the window')
    return f'C17:exception:{inner}', f'{type(exc).__name__} escaped fit_peaks from {inner}'


def spacing_around(x, loc):
    import numpy as np

    i = int(np.argmin(abs(x - loc)))
    lo, hi = max(i - 1, 0), min(i + 1, len(x) - 1)
    return (x[hi] - x[lo]) / (hi - lo)


def oracle_case(ctx, case):
    """the property statement on the real code for one generated case"""
    import numpy as np
    import scipp as sc
    from scippneutron.peaks import fit_peaks, remove_peaks

    da, est, win, fp, fr, rec, results, exc = run_impl(case)
    x = da.coords['x'].values
    wit = {'case': small(case)}
    admissible = not case.get('unsorted') and case['peak_spec']['kinds'] and case['bg_spec']['degs']
    if not admissible:
        if exc is None:
            report(ctx, 'C17:inadmissible-accepted', 'unsorted estimates or empty model list accepted', wit)
        return
    ctx.case(('oracle', case['idx'], case['np_seed']), True)
    if exc is not None:
        key, what = classify_exception(exc, case, da, est, win, fp)
        report(ctx, key, what + f' [{type(exc).__name__}: {str(exc)[:120]}]', wit)
        return
    nwin = len(est.values) if win.ndim == 0 else win.sizes['x']
    if len(results) != nwin or any(r is None for r in results):
        report(ctx, 'C17:result-count', f'{len(results)} results for {nwin} peaks', wit)
        return
    dmin, dmax = float(x[0]), float(x[-1])
    cs = est.values
    f = fp.neighbor_separation_factor
    kinds, degs = canon_kinds(case)
    cands = [(k, d) for k in kinds for d in degs]
    singles = list(rec.singles)
    pos = 0
    for i, r in enumerate(results):
        lo, hi = (float(t) for t in r.window.values)
        # --- order / windows
        if win.ndim != 0:
            if (bits(lo), bits(hi)) != (bits(win.values[i][0]), bits(win.values[i][1])):
                report(ctx, 'C17:result-order', f'result {i} carries window {(lo, hi)}, not window {i}', wit)
        else:
            c = float(cs[i])
            if not (dmin <= lo <= dmax and dmin <= hi <= dmax):
                report(ctx, 'C17:window-beyond-data-range', f'window {i} = {(lo, hi)} outside data range {(dmin, dmax)}', wit)
            if dmin <= c <= dmax and not (lo <= c <= hi):
                report(ctx, 'C17:window-misses-estimate', f'window {i} = {(lo, hi)} does not contain estimate {c}', wit)
            ulp = 8 * np.spacing(max(abs(lo), abs(hi), abs(c), 1e-300))
            if i > 0:
                bound = min(float(cs[i - 1]) + (c - float(cs[i - 1])) * f, dmax)
                if lo < bound - ulp:
                    report(ctx, 'C17:window-too-close-to-neighbour', f'left edge {lo} of window {i} below {bound}', wit)
            if i + 1 < len(cs):
                bound = max(float(cs[i + 1]) - (float(cs[i + 1]) - c) * f, dmin)
                if hi > bound + ulp:
                    report(ctx, 'C17:window-too-close-to-neighbour', f'right edge {hi} of window {i} above {bound}', wit)
        # --- data in the window (independent of scipp label slicing: half-open interval on the sorted coordinate)
        sel = (x >= lo) & (x < hi)
        xs, ys, vs = x[sel], da.values[sel], da.variances[sel]
        # --- first success wins (from the recorded single-model results of this peak)
        mine = []
        while pos < len(singles) and len(mine) < len(cands):
            s = singles[pos]
            if (s[1], s[2]) != (bits(lo), bits(hi)) and mine:
                break
            mine.append(s)
            pos += 1
            if s[5] == 'success':
                break
        tried = [(s[3], s[4]) for s in mine]
        if tried != cands[:len(tried)]:
            report(ctx, 'C17:candidate-order', f'peak {i}: tried {tried}, product order is {cands}', wit)
        succ = [s for s in mine if s[5] == 'success']
        chosen = (PEAK_CODE[type(r.peak).__name__], r.background.degree, r.assessment.name)
        expect = (succ[0][3], succ[0][4], 'success') if succ else (mine[0][3], mine[0][4], mine[0][5]) if mine else None
        if expect is not None and chosen != expect:
            report(ctx, 'C17:first-success-wins', f'peak {i}: returned {chosen}, expected {expect} (tried {[(s[3], s[4], s[5]) for s in mine]})', wit)
        if not succ and len(mine) != len(cands):
            report(ctx, 'C17:first-success-wins', f'peak {i}: gave up after {len(mine)} of {len(cands)} candidates', wit)
        # --- too narrow
        pc, deg = chosen[0], chosen[1]
        k = deg + 1 + (4 if pc == 3 else 3)
        ctx.count('oracle:' + r.assessment.name)
        if len(xs) < min(d + 1 + (4 if kk == 3 else 3) for kk, d in cands) and r.assessment.name != 'window_too_narrow':
            report(ctx, 'C17:narrow-window-not-reported', f'peak {i}: {len(xs)} points, assessment {r.assessment.name}', wit)
        if r.assessment.name == 'window_too_narrow' and len(xs) >= k:
            report(ctx, 'C17:narrow-window-wrong', f'peak {i}: {len(xs)} points for {k} parameters reported too narrow', wit)
        if r.assessment.name in ('failed', 'window_too_narrow'):
            continue
        # --- statistics recomputed from the returned parameters and the window data
        popt = {kk: float(v.value) for kk, v in r.popt.items()}
        st = np_stats((pc, deg), popt, xs, ys, vs)
        if st['ill_conditioned']:
            ctx.count('oracle:stats-ill-conditioned-skipped')
        rep = {'red_chisq': float(r.red_chisq.value), 'p_value': float(r.p_value.value), 'aic': float(r.aic.value)}
        for nm, tol in (('red_chisq', 1e-12), ('p_value', 1e-9), ('aic', 1e-9 * max(1.0, abs(st['aic'])))):
            if not st['ill_conditioned'] and not close(rep[nm], st[nm], 1e-9, tol):
                report(ctx, 'C17:stats-mismatch', f'peak {i}: reported {nm}={rep[nm]!r}, recomputed {st[nm]!r}', wit)
        # --- success satisfies every requirement
        if r.assessment.name == 'success':
            loc, amp, scale = popt['peak_loc'], popt['peak_amplitude'], popt['peak_scale']
            fwhm = GFWHM * scale if pc == 1 else 2 * scale
            step = float(np.min(xs[1:] - xs[:-1]))
            bkg = [c for c in rec.calls if c['ok'] is True and c['model'] == (0, deg) and c['n'] == len(xs) and c['x0'] == float(xs[0])]
            checks = {
                'p-value': not (rep['p_value'] < fr.min_p_value),
                'near-edge': not (loc - xs[0] < 2 * step or xs[-1] - loc < 2 * step),
                'amplitude': not (amp < 0),
                # FitRequirements: FWHM relative to the *window width*; FWHM relative to the coordinate spacing
                # *around the peak centre* (local, not a window average)
                'too-wide': not (fwhm > fr.max_peak_width_factor * (hi - lo)),
                'too-narrow': not (fwhm < fr.min_peak_width_factor * spacing_around(xs, loc)),
                'background-better': not (bkg and bkg[0]['stats']['aic'] < rep['aic']),
            }
            for nm, ok in checks.items():
                if not ok:
                    report(ctx, f'C17:success-violates-requirement:{nm}', f'peak {i} marked successful but fails {nm}', wit)
    # --- independence: every peak fitted alone with its own window gives the same result
    import warnings

    warnings.simplefilter('ignore')
    if len(results) > 1 and case['idx'] % 3 == 0:
        kinds_, degs_ = canon_kinds(case)
        for i, r in enumerate(results):
            w1 = sc.array(dims=['x', 'range'], values=np.array([r.window.values]), unit='angstrom')
            try:
                alone = fit_peaks(da, peak_estimates=est['x', i:i + 1], windows=w1,
                                  background=[BG_NAMES[d] for d in degs_], peak=[PEAK_NAMES[k - 1] for k in kinds_],
                                  fit_parameters=fp, fit_requirements=fr)[0]
            except Exception as e:  # noqa: BLE001
                report(ctx, 'C17:exception:alone', f'peak {i} alone raised {type(e).__name__}', wit)
                continue
            a, b = canon_impl_result(alone), canon_impl_result(r)
            if (a['assessment'], a['model'], a['popt']) != (b['assessment'], b['model'], b['popt']):
                report(ctx, 'C17:results-not-independent', f'peak {i}: alone {a["assessment"]} {a["model"]}, together {b["assessment"]} {b["model"]}', wit)
    # --- removal
    d = remove_inputs(da, results)
    before = d.values.copy()
    before_x = d.coords['x'].values.copy()
    try:
        out = remove_peaks(d, results)
    except Exception as e:  # noqa: BLE001
        report(ctx, 'C17:exception:remove_peaks', f'{type(e).__name__}: {str(e)[:100]}', wit)
        return
    if [bits(t) for t in d.values] != [bits(t) for t in before] or [bits(t) for t in d.coords['x'].values] != [bits(t) for t in before_x]:
        report(ctx, 'C17:remove-input-modified', 'remove_peaks changed its input', wit)
    expect = before.copy()
    for r in results:
        if not r.success:
            continue
        lo, hi = (float(t) for t in r.window.values)
        sel = (x >= lo) & (x < hi)
        pk = r.eval_peak(sc.array(dims=['x'], values=x[sel], unit='angstrom')).values
        expect[sel] = expect[sel] - pk
    inside = np.zeros(len(x), bool)
    for r in results:
        if r.success:
            lo, hi = (float(t) for t in r.window.values)
            inside |= (x >= lo) & (x < hi)
    got = out.values
    if [bits(t) for t in got[~inside]] != [bits(t) for t in before[~inside]]:
        report(ctx, 'C17:remove-outside-changed', 'a point outside every successful window changed', wit)
    if [bits(t) for t in got[inside]] != [bits(t) for t in expect[inside]]:
        report(ctx, 'C17:remove-inside-wrong', 'inside a successful window the output is not data - eval_peak', wit)
    # independent evaluation of the peak (own formulas)
    for r in results:
        if r.success:
            lo, hi = (float(t) for t in r.window.values)
            sel = (x >= lo) & (x < hi)
            pc = PEAK_CODE[type(r.peak).__name__]
            _, pk = popt_list({kk: float(v.value) for kk, v in r.popt.items()}, -1, pc)
            mine = np_peak(pc, x[sel], *pk)
            theirs = r.eval_peak(sc.array(dims=['x'], values=x[sel], unit='angstrom')).values
            if not np.allclose(mine, theirs, rtol=1e-9, atol=1e-300):
                report(ctx, 'C17:eval-peak-formula', 'eval_peak differs from the peak formula at the returned parameters', wit)


def targeted_cases(rng, k):
    """inputs aimed at the known weak spots: narrow windows, estimates beyond the data, gapped grids"""
    out = []
    for i in range(k):
        c = gen_case(rng, 100000 + i)
        t = i % 7
        if t == 0:      # windows below / around the parameter count
            c['wmode'] = 'explicit'
            c['expl'] = [[u - h, u + h] for u, h in ((rng.uniform(0, 1), rng.choice([0.0, 0.6, 1.6, 2.6, 3.6]) / c['n']) for _ in c['peaks'])]
        elif t == 1:    # neighbouring estimates beyond the data, scalar window
            c['wmode'] = 'scalar'
            c['wfrac'] = rng.uniform(0.05, 0.4)
            side = rng.choice([-1, 1])
            c['est'] = [c['x0'] + c['span'] * (0.5 + side * rng.uniform(0.3, 1.5)) for _ in c['peaks']]
        elif t == 2:    # wide peak inside a gap of the grid, window ending on the lone point in the gap
            c['grid'] = 'gapped'
            c['n'] = n = rng.choice([101, 160, 250])
            c['x0'] = rng.choice([0.0, 1.0])
            c['wmode'] = 'explicit'
            k3, g = gap_geometry(n)
            pos = lambda j: j / (n - 1)  # noqa: E731
            gapw = pos(g + 1)
            pk = dict(c['peaks'][0], loc=c['x0'] + c['span'] * (pos(k3) + rng.uniform(0.5, 0.8) * gapw),
                      scale=c['span'] * rng.uniform(0.45, 0.85) * gapw, amp=rng.uniform(20, 80), kind='gaussian')
            c['peaks'] = [pk]
            c['bg'] = [rng.uniform(3, 8), 0.3 * 10 / c['span']]
            c['noise'] = 30.0
            c['est'] = [pk['loc']]
            c['expl'] = [[max(0.0, pos(k3) - rng.uniform(2.5, 3.6) * gapw), pos(k3 + g + 1) + 0.5 / (n - 1)]]
            c['peak_spec'] = {'form': 'name', 'kinds': ['gaussian']}
            c['bg_spec'] = {'form': 'name', 'degs': [1]}
            c['req'] = None
        elif t == 4:    # non-uniform grid: FWHM between min_factor * (window-average spacing) and min_factor * (local spacing)
            fmin = 4.0
            c['n'] = n = rng.choice([120, 160, 200])
            c['wmode'] = 'explicit'
            c['noise'] = 30.0
            c['req'] = {'min_p_value': 0.0, 'max_peak_width_factor': 3.0, 'min_peak_width_factor': fmin}
            c['peak_spec'] = {'form': 'name', 'kinds': ['gaussian']}
            c['bg_spec'] = {'form': 'name', 'degs': [1]}
            # the peak guess looks at the middle half of the window *by index*: keep the peak there
            if rng.random() < 0.5:
                frac = rng.uniform(0.8, 0.93)
                c['grid'] = 'logwide'
                c['n'] = n = 200
                c['x0'], c['ratio'] = 0.5, 60.0
                delta = math.log(c['ratio']) / (n - 1)
                loc = c['x0'] * rng.uniform(12.6, 22.0)
                local = loc * delta
                c['expl_abs'] = [[loc / 12.0, loc * 2.5]]
                c['span'] = c['x0'] * c['ratio'] - c['x0']
            else:
                frac = rng.uniform(0.76, 0.93)
                c['grid'] = 'piecewise'
                c['x0'], c['span'] = rng.choice([0.0, 1.0]), rng.choice([4.0, 10.0])
                nf = (2 * n) // 3
                h = c['span'] / (nf + 4 * (n - 1 - nf))
                junction = c['x0'] + nf * h
                local = 4 * h
                loc = junction + local * (6 + rng.uniform(-0.3, 0.3))
                c['expl_abs'] = [[junction - h * 13.5, junction + local * 17.5]]
            # every peak shape sits near the minimum-width threshold (for a pseudo-Voigt the FWHM is 2*scale whatever its
            # fraction): true FWHM 1 % … 24 % below the threshold, mostly-Gaussian to mostly-Lorentzian mixtures
            kind4 = rng.choice(['gaussian', 'gaussian', 'lorentzian', 'pseudo_voigt', 'pseudo_voigt'])
            if kind4 != 'gaussian':
                frac = rng.uniform(frac, 0.99)
            fwhm = frac * fmin * local
            pk = dict(c['peaks'][0], kind=kind4, loc=loc, scale=fwhm / (GFWHM if kind4 == 'gaussian' else 2.0), amp=rng.uniform(60, 200),
                      frac=rng.uniform(0.0, 0.6))
            c['peak_spec'] = {'form': 'name', 'kinds': [kind4]}
            c['peaks'] = [pk]
            c['bg'] = [rng.uniform(3, 8), 0.0]
            c['est'] = [loc]
            c['expl'] = []
        elif t == 5:    # user-supplied windows whose bounds are exactly grid points (either or both)
            c['grid'] = 'uniform'
            c['n'] = n = rng.choice([101, 160])
            c['wmode'] = 'explicit'
            c['noise'] = 30.0
            c['req'] = None
            pk = dict(c['peaks'][0], kind=rng.choice(PEAK_NAMES), loc=c['x0'] + c['span'] * rng.uniform(0.35, 0.65),
                      scale=c['span'] * rng.uniform(0.015, 0.03), amp=rng.uniform(40, 150))
            c['peaks'] = [pk]
            c['est'] = [pk['loc']]
            ci = round((pk['loc'] - c['x0']) / c['span'] * (n - 1))
            half = rng.randint(14, 22)
            c['expl_idx'] = [[ci - half, ci + half]]
            c['peak_spec'] = {'form': 'name', 'kinds': [pk['kind']]}
            c['bg_spec'] = {'form': 'name', 'degs': [1]}
        elif t == 6:    # automatic window clipped at the upper end of the data: its upper bound IS the last grid point
            c['grid'] = 'uniform'
            c['n'] = n = rng.choice([101, 160])
            c['wmode'] = 'scalar'
            c['noise'] = 30.0
            c['req'] = None
            pk = dict(c['peaks'][0], kind='gaussian', loc=c['x0'] + c['span'] * rng.uniform(0.88, 0.92),
                      scale=c['span'] * rng.uniform(0.012, 0.02), amp=rng.uniform(40, 150))
            c['peaks'] = [pk]
            c['est'] = [pk['loc']]
            c['wfrac'] = rng.uniform(0.3, 0.4)
            c['peak_spec'] = {'form': 'name', 'kinds': ['gaussian']}
            c['bg_spec'] = {'form': 'name', 'degs': [1]}
        else:           # tiny data sets
            c['n'] = rng.choice([12, 12, 20])
        out.append(c)
    return out



# ---- remove_peaks on constructed results: container kinds, orders, mixes, overlapping windows ---------------------

ITERABLE_KINDS = ['list', 'tuple', 'generator', 'iter', 'reversed', 'one-shot']
NON_SUCCESS = ['failed', 'window_too_narrow', 'p_too_small', 'peak_near_edge', 'background_is_better', 'peak_too_wide']


class OneShot:
    """an iterable that can be traversed exactly once (like a generator, but a plain class)"""

    def __init__(self, items):
        self._items = list(items)
        self._used = False

    def __iter__(self):
        if self._used:
            return iter(())
        self._used = True
        return iter(self._items)


def gen_remove_case(rng, idx):
    n = rng.choice([20, 35, 60, 90])
    k = rng.randint(1, 6)
    mode = idx % 4
    res = []
    for j in range(k):
        c = rng.uniform(0.05, 0.95)
        h = rng.choice([0.0, 0.03, 0.08, 0.15, 0.3, 0.6])
        res.append({'kind': rng.choice(PEAK_NAMES), 'lo': c - h, 'hi': c + h, 'amp': rng.uniform(-2, 8), 'loc': c + rng.uniform(-0.05, 0.05),
                    'scale': math.exp(rng.uniform(math.log(0.005), math.log(0.2))), 'frac': rng.uniform(0, 1),
                    'assessment': 'success' if rng.random() < 0.5 else rng.choice(NON_SUCCESS)})
    if mode == 0:       # exactly one success, at position idx//4 mod k; everything before it unsuccessful
        pos = (idx // 4) % k
        for j, r in enumerate(res):
            r['assessment'] = 'success' if j == pos else rng.choice(NON_SUCCESS)
    elif mode == 1:     # first success at a chosen position, later ones mixed
        pos = (idx // 4) % k
        for j, r in enumerate(res):
            if j < pos:
                r['assessment'] = rng.choice(NON_SUCCESS)
            elif j == pos:
                r['assessment'] = 'success'
    elif mode == 2:     # overlapping windows, all successful
        for r in res:
            r['assessment'] = 'success'
            r['lo'], r['hi'] = 0.3 + rng.uniform(-0.2, 0.1), 0.6 + rng.uniform(-0.1, 0.3)
    for r in res:               # window bounds that are exactly grid points: lower, upper, or both
        u = rng.random()
        if mode == 3 or u < 0.45:
            i = rng.randrange(0, n - 1)
            j = rng.randrange(i, n)
            which = rng.choice(['both', 'lo', 'hi']) if mode != 3 else 'both'
            if which in ('both', 'lo'):
                r['lo_idx'] = i
            if which in ('both', 'hi'):
                r['hi_idx'] = j
            if mode == 3:
                r['assessment'] = 'success'
    order = list(range(k))
    rng.shuffle(order)
    return {'idx': idx, 'n': n, 'x0': rng.choice([0.0, 1.0, -2.0]), 'span': rng.choice([1.0, 10.0]), 'np_seed': rng.getrandbits(32),
            'results': [res[j] for j in order], 'dtype': 'float64'}


def build_remove(case):
    """-> (DataArray without variances, [FitResult ...]) from the parameters of the case"""
    import numpy as np
    import scipp as sc
    from scippneutron.peaks import FitAssessment, FitResult
    from scippneutron.peaks import model as M

    n, x0, span = case['n'], case['x0'], case['span']
    rs = np.random.default_rng(case['np_seed'])
    x = np.linspace(x0, x0 + span, n)
    y = rs.uniform(1, 50, n)
    da = sc.DataArray(sc.array(dims=['x'], values=y, unit='counts'), coords={'x': sc.array(dims=['x'], values=x, unit='angstrom')})
    out = []
    for r in case['results']:
        cls = {'gaussian': M.GaussianModel, 'lorentzian': M.LorentzianModel, 'pseudo_voigt': M.PseudoVoigtModel}[r['kind']]
        peak = cls(prefix='peak_')
        bkg = M.PolynomialModel(degree=1, prefix='bkg_')
        wlo = float(x[r['lo_idx']]) if 'lo_idx' in r else x0 + r['lo'] * span
        whi = float(x[r['hi_idx']]) if 'hi_idx' in r else x0 + r['hi'] * span
        if whi < wlo:
            wlo, whi = whi, wlo
        window = sc.array(dims=['range'], values=[wlo, whi], unit='angstrom')
        if r['assessment'] in ('failed', 'window_too_narrow'):
            out.append(FitResult.for_failure(assessment=FitAssessment[r['assessment']], peak=peak, background=bkg, window=window))
            continue
        popt = {'bkg_a0': sc.scalar(1.0, unit='counts'), 'bkg_a1': sc.scalar(0.1, unit='counts/angstrom'),
                'peak_amplitude': sc.scalar(r['amp'] * span, unit='counts*angstrom'), 'peak_loc': sc.scalar(x0 + r['loc'] * span, unit='angstrom'),
                'peak_scale': sc.scalar(r['scale'] * span, unit='angstrom')}
        if r['kind'] == 'pseudo_voigt':
            popt['peak_fraction'] = sc.scalar(r['frac'])
        out.append(FitResult(popt=popt, assessment=FitAssessment[r['assessment']], peak=peak, background=bkg, window=window,
                             message=r['assessment'], red_chisq=sc.scalar(1.0), p_value=sc.scalar(0.5), aic=sc.scalar(0.0)))
    return da, out


def as_iterable(kind, results):
    """(iterable handed to remove_peaks, the results in the order that iterable yields them)"""
    if kind == 'list':
        return list(results), list(results)
    if kind == 'tuple':
        return tuple(results), list(results)
    if kind == 'generator':
        return (r for r in results), list(results)
    if kind == 'iter':
        return iter(list(results)), list(results)
    if kind == 'reversed':
        return reversed(list(results)), list(results)[::-1]
    return OneShot(results), list(results)


def remove_line(x, before, ordered):
    toks = ['c17.remove', '1', bits(SQRT2PI), bits(math.pi), bits(SQRT2LN2), bits(GFWHM), bits(TINY), str(len(x))]
    toks += [bits(t) for t in x] + [bits(t) for t in before] + [str(len(ordered))]
    for r in ordered:
        pc = PEAK_CODE[type(r.peak).__name__]
        _, pk = popt_list({k: float(v.value) for k, v in r.popt.items()}, -1, pc)
        toks += ['1' if r.success else '0', str(pc), bits(r.window.values[0]), bits(r.window.values[1])] + [bits(p) for p in pk]
    return ' '.join(toks)


def run_remove(case, kind):
    """remove_peaks on the constructed case with `fit_results` given as `kind`"""
    from scippneutron.peaks import remove_peaks

    da, results = build_remove(case)
    it, ordered = as_iterable(kind, results)
    before = da.values.copy()
    before_x = da.coords['x'].values.copy()
    try:
        out = remove_peaks(da, it)
        return da, ordered, before, before_x, out.values.copy(), out, None
    except Exception as e:  # noqa: BLE001
        return da, ordered, before, before_x, None, None, e


def oracle_remove_case(ctx, case):
    """the removal clauses of the property on constructed results, for every kind of iterable"""
    import numpy as np
    import scipp as sc

    ref = None
    for kind in ITERABLE_KINDS:
        da, ordered, before, before_x, got, out, exc = run_remove(case, kind)
        wit = {'kind': 'remove', 'case': case, 'iterable': kind}
        x = before_x
        nsucc = sum(1 for r in ordered if r.success)
        ctx.case(('oracle-remove', case['idx'], case['np_seed'], kind), nsucc > 0)
        ctx.count('oracle-remove:' + kind)
        if exc is not None:
            report(ctx, 'C17:exception:remove_peaks', f'{type(exc).__name__}: {str(exc)[:100]} (fit_results as {kind})', wit)
            continue
        if [bits(t) for t in da.values] != [bits(t) for t in before] or [bits(t) for t in da.coords['x'].values] != [bits(t) for t in before_x]:
            report(ctx, 'C17:remove-input-modified', f'remove_peaks changed its input (fit_results as {kind})', wit)
        expect = before.copy()
        inside = np.zeros(len(x), bool)
        for r in ordered:
            if not r.success:
                continue
            lo, hi = (float(t) for t in r.window.values)
            sel = (x >= lo) & (x < hi)
            inside |= sel
            if sel.any():
                expect[sel] = expect[sel] - r.eval_peak(sc.array(dims=['x'], values=x[sel], unit='angstrom')).values
        if [bits(t) for t in got[~inside]] != [bits(t) for t in before[~inside]]:
            report(ctx, 'C17:remove-outside-changed', f'a point outside every successful window changed (fit_results as {kind})', wit)
        if [bits(t) for t in got[inside]] != [bits(t) for t in expect[inside]]:
            j = int(np.flatnonzero(inside)[[bits(a) != bits(b) for a, b in zip(got[inside], expect[inside])].index(True)])
            report(ctx, 'C17:remove-inside-wrong',
                   f'fit_results as {kind}: point {j} is {got[j]!r}, data - sum of eval_peak of the successful fits is {expect[j]!r} '
                   f'(input {before[j]!r}; {nsucc} successful of {len(ordered)})', wit)
        # the same results in the same order must give the same output whatever the container
        if kind in ('list',):
            ref = [bits(t) for t in got]
        elif kind != 'reversed' and ref is not None and [bits(t) for t in got] != ref:
            report(ctx, 'C17:remove-depends-on-iterable-kind', f'fit_results as {kind} gives a different output than the same results as a list', wit)


def correspond_remove_suite(ctx, cases):
    """implementation (every iterable kind) against the Lean model (the ordered list of results)"""
    lines, metas = [], []
    for case in cases:
        for kind in ITERABLE_KINDS:
            da, ordered, before, before_x, got, out, exc = run_remove(case, kind)
            lines.append(remove_line(before_x, before, ordered))
            metas.append((case, kind, before, got, da.values.copy(), exc))
    for (case, kind, before, got, caller_i, exc), out in zip(metas, ctx.driver(lines)):
        ctx.case(('remove-suite', case['idx'], case['np_seed'], kind), True,
                 sample={'op': 'remove', 'iterable': kind, 'assessments': [r['assessment'] for r in case['results']]})
        ctx.count('remove-suite:' + kind)
        if exc is not None or out.startswith('err') or out.startswith('bad'):
            impl = err_class(exc) if exc is not None else 'ok'
            if impl != out:
                ctx.disagree({'op': 'remove-suite', 'iterable': kind, 'case': case}, impl, out[:100])
            continue
        caller_m, work_m = ([unbits(t) for t in part.split()] for part in out.split('|'))
        bad = None
        if [bits(t) for t in caller_i] != [bits(t) for t in caller_m]:
            bad = 'caller buffer differs'
        else:
            for j, (u, w_, b0) in enumerate(zip(got, work_m, before)):
                if bits(u) == bits(b0) and bits(w_) == bits(b0):
                    continue
                if (bits(u) == bits(b0)) != (bits(w_) == bits(b0)) or not close(u, w_, 1e-9, 1e-9 * max(1.0, abs(b0))):
                    bad = f'point {j}: impl {u!r} model {w_!r} input {b0!r}'
                    break
        if bad:
            ctx.disagree({'op': 'remove-suite', 'iterable': kind, 'case': case}, 'impl', 'model', bad)


def remove_cases(ctx):
    if ('remove', ctx.seed) not in _CASES:
        import random

        rng = random.Random(ctx.seed * 7919 + 17)
        _CASES[('remove', ctx.seed)] = [gen_remove_case(rng, i) for i in range(ctx.n(60, 600))]
    return _CASES[('remove', ctx.seed)]

_CASES: dict = {}


def general_cases(ctx):
    """the generated cases of this run (same list for the correspondence and the oracle)"""
    if ctx.seed not in _CASES:
        import random

        rng = random.Random(ctx.rng.getrandbits(64))
        _CASES[ctx.seed] = (
            [gen_case(rng, i) for i in range(ctx.n(28, 520))],
            targeted_cases(rng, ctx.n(14, 175)),
            rng,
        )
    return _CASES[ctx.seed][0]


def corpus_cases():
    """minimised past failures (corpus/C17/*.json), always run first"""
    import glob
    import json
    import os

    d = os.path.join(os.path.dirname(os.path.dirname(os.path.dirname(os.path.abspath(__file__)))), 'corpus', 'C17')
    out = []
    for f in sorted(glob.glob(os.path.join(d, '*.json'))):
        with open(f) as fh:
            out.append(json.load(fh)['case'])
    return out


def width_case_violations(w):
    """'a result marked successful satisfies every stated requirement', the two width requirements, on a plain uniform grid:
    data of one shape fitted with every peak model (a Gaussian-shaped peak fitted by a pseudo-Voigt comes out with fraction
    ~ 0, a Lorentzian one with fraction ~ 1), the FWHM of the RETURNED parameters computed here from the shape's own
    formula (Gaussian 2 sqrt(2 ln 2) sigma; Lorentzian and pseudo-Voigt 2 * scale) and confirmed numerically on eval_peak."""
    import numpy as np
    import scipp as sc
    from scippneutron.peaks import FitRequirements, fit_peaks

    rng = np.random.default_rng(w['np_seed'])
    h, n = w['step'], w['n']
    x = w['x0'] + h * np.arange(n)
    loc = w['x0'] + h * (n // 2) + w['off'] * h
    fw = w['fwhm_steps'] * h
    sig, gam = fw / GFWHM, fw / 2
    g = np.exp(-((x - loc) ** 2) / (2 * sig * sig))
    l_ = 1.0 / (1.0 + ((x - loc) / gam) ** 2)
    shape = {'gaussian': g, 'lorentzian': l_, 'pseudo_voigt': w['frac'] * l_ + (1 - w['frac']) * np.exp(-((x - loc) ** 2) * math.log(2) / (gam * gam))}[w['shape']]
    y = w['amp'] * shape + w['bg0'] + w['bg1'] * (x - x[0]) + rng.normal(0.0, w['noise'], n)
    da = sc.DataArray(sc.array(dims=['x'], values=y, variances=np.full(n, w['noise'] ** 2), unit='counts'),
                      coords={'x': sc.array(dims=['x'], values=x, unit='angstrom')})
    fr = FitRequirements(min_p_value=0.0, min_peak_width_factor=w['fmin'], max_peak_width_factor=w['fmax'])
    out = []
    for model in w['models']:
        (r,) = fit_peaks(da, peak_estimates=sc.array(dims=['x'], values=[loc], unit='angstrom'),
                         windows=sc.scalar(w['win_steps'] * h, unit='angstrom'), background='linear', peak=model, fit_requirements=fr)
        if not r.success:
            out.append((model, r.assessment.name, None))
            continue
        pc = PEAK_CODE[type(r.peak).__name__]
        scale = float(r.popt['peak_scale'].value)
        fwhm = GFWHM * scale if pc == 1 else 2 * scale
        lo, hi = (float(t) for t in r.window.values)
        xs = x[(x >= lo) & (x < hi)]
        ploc = float(r.popt['peak_loc'].value)
        # numerical confirmation of the FWHM on the returned peak itself
        fine = np.linspace(ploc - 3 * fwhm, ploc + 3 * fwhm, 60001)
        pv = r.eval_peak(sc.array(dims=['x'], values=fine, unit='angstrom')).values
        above = fine[pv >= pv.max() / 2]
        measured = float(above[-1] - above[0])
        bad = None
        if abs(measured - fwhm) > 1e-3 * fwhm:
            bad = ('C17:eval-peak-formula', f'FWHM of the returned {model} peak measured on eval_peak is {measured!r}, by the formula {fwhm!r}')
        elif fwhm < w['fmin'] * spacing_around(xs, ploc):
            bad = ('C17:success-violates-requirement:too-narrow',
                   f'{w["shape"]}-shaped peak fitted with {model}: marked successful with FWHM {fwhm / h:.4f} grid steps '
                   f'(fraction {float(r.popt["peak_fraction"].value) if pc == 3 else "-"}) < min_peak_width_factor {w["fmin"]}')
        elif fwhm > w['fmax'] * (hi - lo):
            bad = ('C17:success-violates-requirement:too-wide',
                   f'{w["shape"]}-shaped peak fitted with {model}: marked successful with FWHM {fwhm!r} > {w["fmax"]} x window {hi - lo!r}')
        out.append((model, 'success', bad))
    return out


def width_cases(rng, k):
    out = []
    for i in range(k):
        fmin = rng.choice([2.0, 3.0, 4.0])
        wide = rng.random() < 0.3
        win = rng.choice([30, 40, 60])
        fmax = rng.choice([0.2, 0.3]) if wide else 3.0
        out.append({'kind': 'width', 'np_seed': rng.randrange(2**31), 'step': rng.choice([0.05, 0.01, 1.0]), 'n': 201,
                    'x0': rng.choice([0.0, 1.0, -5.0]), 'off': rng.uniform(-0.5, 0.5),
                    'fwhm_steps': (fmax * win * rng.uniform(0.85, 1.15)) if wide else fmin * rng.uniform(0.8, 1.15),
                    'shape': rng.choice(PEAK_NAMES), 'frac': rng.uniform(0.0, 1.0), 'amp': rng.uniform(30, 80), 'bg0': rng.uniform(2, 6),
                    'bg1': rng.uniform(-0.1, 0.3), 'noise': rng.choice([0.1, 0.2, 0.5]), 'fmin': fmin, 'fmax': fmax, 'win_steps': win,
                    'models': list(PEAK_NAMES)})
    return out


def oracle_width(ctx, cases):
    for w in cases:
        try:
            res = width_case_violations(w)
        except Exception as e:  # noqa: BLE001
            report(ctx, 'C17:exception:fit_peaks', f'fit_peaks raised {type(e).__name__}: {str(e)[:160]} on a plain single-peak input', w)
            continue
        ctx.case(('width', w['np_seed'], w['shape'], w['fwhm_steps']), True)
        for model, assessment, bad in res:
            ctx.count(f'oracle:width:{w["shape"]}->{model}:{assessment}')
            if bad:
                report(ctx, bad[0], bad[1], w)


def oracle(ctx, deep):
    oracle_width(ctx, width_cases(ctx.rng, 150 if deep else ctx.n(60, 600)))
    general = general_cases(ctx)
    _, targeted, rng = _CASES[ctx.seed]
    extra = targeted_cases(rng, 40) + [gen_case(rng, 200000 + i) for i in range(40)] if deep else []
    for case in remove_cases(ctx):
        oracle_remove_case(ctx, case)
    for case in corpus_cases() + rejected_cases() + targeted + general + extra:
        oracle_case(ctx, case)


def replay(ctx, payload):
    w = payload.get('witness', {})
    case = w.get('case')
    key = payload.get('key')
    before = len(ctx.violations)
    if case is None and w.get('kind') != 'width':
        print('no replayable case in the witness')
        return False
    if w.get('kind') == 'width':
        oracle_width(ctx, [w])
    elif w.get('kind') == 'remove':
        oracle_remove_case(ctx, case)
    else:
        oracle_case(ctx, case)
    new = ctx.violations[before:]
    for v in new:
        print('replay:', v['key'], v['what'])
    return any(v['key'] == key for v in new) if key else bool(new)
