"""C04 — gravity-corrected angles follow the documented construction on every code path."""
from __future__ import annotations

import math

import numpy as np

from . import _geom_hp as hp

PROP = 'C04'
LEAN_TARGETS = ['ScnVerif.Props.C04']
PROPS_FILE = 'ScnVerif/Props/C04.lean'
TRANSLATORS = []
RULE = (
    'a scenario is one call: gravity of magnitude 1e-3..100 (plus 9.81, 1e-11) in a random or axis-aligned direction '
    'and unit (m/s^2, cm/s^2, m/ms^2); incident beam(s) of length 1..100 perpendicular to gravity and then tilted by '
    '0, 1e-12 … 1 rad, by amounts straddling the dispatch threshold |g·b1| = 1e-10|g| (±1e-3 … ±1 ulp), or nearly '
    'parallel to gravity (ValueError branch); 1..5 detector pixels in random directions at 0.1..20 m in m/mm/cm; '
    'wavelengths 0, 1e-3..100 Å (expressed in Å, nm or m) as a shared dense row, a pixel×wavelength array, bins per pixel, or scalars; '
    'float64 or float32 wavelength; one incident beam or one per pixel; 15 % of the scenarios (60 % of the repeat-call cases) use '
    'units that make every internal conversion the identity (wavelength in m, beams in m, gravity in m/s²). Each public and '
    'private function is also called twice on the very same operand objects (bit-identical results and operands). Each scenario is evaluated by the public '
    'function, by both private implementations, by the reflectometry variant, by beam_aligned_unit_vectors and '
    '_drop_due_to_gravity, and by the Lean model. Non-trivial = reaches an angle computation or a ValueError; '
    'distinct = distinct input bit patterns.'
)
ASSUMPTIONS = [
    'gravity ≠ 0 (for g = 0 the direction ê_y = −g/|g| is undefined and the code returns NaN; the property speaks of g → 0)',
    'on the optimised path (|g·b1| ≤ 1e-10·|g|, values in the unit of b1) the code measures 2θ from the horizontal '
    'projection of b1; the deviation from the construction is at most the tilt τ with sin τ ≤ 1e-10/|b1| (theorem '
    'orthogonal_path_error_le_tilt); the oracle allows exactly this bound plus rounding',
    '"larger than the gravity-free angle for detectors above a horizontal beam" holds for forward detectors '
    '(z_d > 0) only (raises_angle_above_horizontal_partial); it is false of the documented construction itself for '
    'back-scattering detectors (theorem raises_angle_full_false) — not a defect of the code',
    'libm atan2/atan2f of Lean (C runtime) and of scipp agree within 2 ulp (compared on every case)',
    'scipp: element-wise broadcasting, to(dtype)/to(unit) conversions (unit conversion multiplies in double and rounds once)',
    'floating-point accuracy of the angles is validated (1e-12 rad double, 1e-5 rad single, condition-aware for φ), not proved',
    'theorems are over ℝ with identity dtype conversions; the float32 path is tied by the correspondence only',
]
TRUSTED = [
    'modelled, not verified: beam_aligned_unit_vectors, _drop_due_to_gravity, scattering_angles_with_gravity (dispatch), '
    '_scattering_angles_with_gravity_generic, _scattering_angles_with_gravity_orthogonal_coords, '
    'scattering_angle_in_yz_plane (Model/Gravity.lean, operation order and dtype conversions transcribed)',
    'scipp.constants.m_n, h (checked against CODATA to 1e-8)',
    'decimal reference arithmetic of the oracle (harness/props/_geom_hp.py)',
]

TOL64 = 1e-12  # rad
TOL32 = 1e-5  # rad
EPS = 2.0 ** -52
THR = 1e-10

LEN_UNITS = ['m', 'mm', 'cm']
B1_UNITS = ['m', 'cm', 'm', 'm']
G_UNITS = ['m/s^2', 'm/s^2', 'm/s^2', 'cm/s^2', 'm/ms^2']
LAM_UNITS = ['angstrom', 'angstrom', 'angstrom', 'nm', 'm']


# ---------------------------------------------------------------------------------------------
# constants and units

_cache = {}


def consts():
    """(c = m_n²/(2h²) as the code computes it, m_n, h)"""
    if 'c' not in _cache:
        import scipp as sc
        import scipp.constants  # noqa: F401

        m, h = float(sc.constants.m_n.value), float(sc.constants.h.value)
        if str(sc.constants.m_n.unit) != 'kg' or str(sc.constants.h.unit) != 'J*s':
            raise RuntimeError('unexpected units of scipp.constants')
        if abs(m / 1.67492749804e-27 - 1) > 1e-8 or abs(h / 6.62607015e-34 - 1) > 1e-8:
            raise RuntimeError('scipp.constants.m_n/h are not the CODATA values')
        _cache['c'] = (m ** 2 / (2 * h ** 2), m, h)
    return _cache['c']


def unit_scale(unit: str, base: str) -> float:
    key = (unit, base)
    if key not in _cache:
        import scipp as sc

        _cache[key] = float(sc.scalar(1.0, unit=unit).to(unit=base).value)
    return _cache[key]


def lam_scale(lu: str, du: str, gu: str) -> float:
    """factor of `wavelength.to(unit=sqrt(1/(unit(distance)·unit(const))))`, computed from the units by the harness
    (scipp unit algebra; not taken from the code under test) and cross-checked with plain floats"""
    key = ('ls', lu, du, gu)
    if key not in _cache:
        import scipp as sc

        cu = sc.Unit(gu) * sc.Unit('s^2/m^4')
        tgt = sc.sqrt(sc.reciprocal(sc.Unit(du) * cu))
        f = float(sc.scalar(1.0, unit=lu).to(unit=tgt).value)
        f3 = unit_scale(lu, 'm') / math.sqrt(1 / (unit_scale(du, 'm') * unit_scale(gu, 'm/s^2')))
        if abs(f3 / f - 1) > 1e-14:
            raise RuntimeError(f'unit factor mismatch {f} {f3}')
        _cache[key] = f
    return _cache[key]


# ---------------------------------------------------------------------------------------------
# generators

def _lu(rng, lo, hi):
    return math.exp(rng.uniform(math.log(lo), math.log(hi)))


def _dir(rng):
    while True:
        v = [rng.gauss(0, 1) for _ in range(3)]
        n = math.sqrt(sum(c * c for c in v))
        if n > 1e-3:
            return [c / n for c in v]


def _dot(a, b):
    return a[0] * b[0] + a[1] * b[1] + a[2] * b[2]


def _norm(a):
    return math.sqrt(_dot(a, a))


def _perp_unit(rng, gh):
    while True:
        d = _dir(rng)
        k = _dot(d, gh)
        p = [d[i] - k * gh[i] for i in range(3)]
        n = _norm(p)
        if n > 0.2:
            return [c / n for c in p]


def gen_gravity(rng):
    r = rng.random()
    if r < 0.25:
        mag = 9.81
    elif r < 0.3:
        mag = 1e-11
    else:
        mag = _lu(rng, 1e-3, 100)
    if rng.random() < 0.35:
        k = rng.randrange(3)
        g = [0.0, 0.0, 0.0]
        g[k] = rng.choice([-1.0, 1.0]) * mag
    else:
        g = [c * mag for c in _dir(rng)]
    return g


TILTS = [0.0, 0.0, 0.0, 1e-12, 1e-11, 3e-11, 1e-10, 1e-9, 1e-8, 1e-6, 1e-4, 1e-2, 0.1, 0.5, 1.0]


def gen_b1(rng, g, kind=None):
    """(kind, tilt, b1): incident beam of length 1..100 (values), tilted out of the plane perpendicular to g"""
    gn = _norm(g)
    gh = [c / gn for c in g]
    p = _perp_unit(rng, gh)
    L = _lu(rng, 1, 100)
    kind = kind or rng.choices(['tilt', 'threshold', 'exact', 'parallel'], [0.55, 0.25, 0.12, 0.08])[0]
    if kind == 'exact' and sum(1 for c in g if c != 0.0) == 1:
        k = [i for i in range(3) if g[i] == 0.0]
        b1 = [0.0, 0.0, 0.0]
        b1[rng.choice(k)] = rng.choice([-1.0, 1.0]) * L
        if rng.random() < 0.5:
            b1[k[0]], b1[k[1]] = rng.uniform(-1, 1) * L, rng.uniform(-1, 1) * L
        return 'exact', 0.0, b1
    if kind == 'parallel':
        t = rng.choice([0.0, 1e-13, 1e-12, 3e-12, 1e-11, 1e-10, 1e-9, 1e-6]) / L * rng.choice([1.0, 10.0])
        s = rng.choice([-1.0, 1.0])
        return 'parallel', math.pi / 2 - t, [L * (s * gh[i] * math.cos(t) + p[i] * math.sin(t)) for i in range(3)]
    if kind == 'threshold':
        # |g·b1|/|g| = 1e-10·(1+r), r tiny of either sign
        rel = rng.choice([0.0, 1e-15, 1e-12, 1e-9, 1e-6, 1e-3, 0.1]) * rng.choice([-1.0, 1.0])
        comp = THR * (1 + rel)
        s = rng.choice([-1.0, 1.0])
        t = math.asin(min(1.0, comp / L))
        return 'threshold', t, [L * p[i] * math.cos(t) + s * comp * gh[i] for i in range(3)]
    t = rng.choice(TILTS) * rng.choice([1.0, rng.uniform(0.3, 3.0)]) * rng.choice([-1.0, 1.0])
    t = max(-1.0, min(1.0, t))
    return 'tilt', t, [L * (p[i] * math.cos(t) + gh[i] * math.sin(t)) for i in range(3)]


def gen_lambda(rng, dt):
    r = rng.random()
    if r < 0.05:
        x = 0.0
    elif r < 0.6:
        x = rng.uniform(0.1, 20.0)
    else:
        x = _lu(rng, 1e-3, 100.0)
    return float(np.dtype(dt).type(x))


def gen_scenario(rng, b1_kind=None, noop_units=None):
    """noop_units: wavelength in m, beams in m, gravity in m/s² — every internal unit conversion of the code is the identity
    (for float64 also every dtype conversion), so `.to(..., copy=False)` hands the caller's buffers to in-place code"""
    if noop_units is None:
        noop_units = rng.random() < 0.15
    g = gen_gravity(rng)
    dt = rng.choice(['float64', 'float64', 'float32'])
    layout = rng.choice(['dense1d', 'dense2d', 'binned', 'scalar'])
    npix = 1 if layout == 'scalar' else rng.randrange(1, 6)
    per_pixel_b1 = layout != 'scalar' and rng.random() < 0.3
    kind, tilt, b1 = gen_b1(rng, g, b1_kind)
    b1s = [(kind, tilt, b1)]
    if per_pixel_b1:
        for _ in range(npix - 1):
            b1s.append(gen_b1(rng, g, rng.choice([kind, 'tilt', 'exact'])))
    du = 'm' if noop_units else rng.choice(LEN_UNITS)
    us = unit_scale('m', du)
    b2s = [[c * _lu(rng, 0.1, 20) * us for c in _dir(rng)] for _ in range(npix)]
    if layout == 'dense1d':
        row = [gen_lambda(rng, dt) for _ in range(rng.randrange(1, 5))]
        lams = [list(row) for _ in range(npix)]
    elif layout == 'dense2d':
        nl = rng.randrange(1, 5)
        lams = [[gen_lambda(rng, dt) for _ in range(nl)] for _ in range(npix)]
    elif layout == 'binned':
        lams = [[gen_lambda(rng, dt) for _ in range(rng.randrange(0, 5))] for _ in range(npix)]
    else:
        lams = [[gen_lambda(rng, dt)]]
    b1u = 'm' if noop_units else rng.choice(B1_UNITS)
    gu = 'm/s^2' if noop_units else rng.choice(G_UNITS)
    lu = 'm' if noop_units else rng.choice(LAM_UNITS)
    ls = unit_scale('angstrom', lu)
    if ls != 1.0:
        # wavelengths are drawn in ångström (0..100 Å) and expressed in the chosen unit
        lams = [[float(np.dtype(dt).type(x * ls)) for x in row] for row in lams]
    gs = unit_scale('m/s^2', gu)
    if gs != 1.0:
        # keep the physical magnitude in the property's range: the values are expressed in the chosen unit.
        # (scaling all components by one factor keeps the direction and the tilt construction of b1)
        g = [c * gs for c in g]
    return {
        'g': g, 'gu': gu, 'b1': [b[2] for b in b1s], 'b1_kind': [b[0] for b in b1s],
        'tilt': [b[1] for b in b1s], 'b1u': b1u, 'b2': b2s, 'du': du, 'lam': lams, 'lu': lu,
        'dtype': dt, 'layout': layout,
    }


# ---------------------------------------------------------------------------------------------
# implementation wrappers

def _err(e: Exception) -> str:
    if isinstance(e, ValueError):
        return 'err:value'
    return 'err:other:' + type(e).__name__


def build_inputs(sn):
    import scipp as sc

    npix = len(sn['b2'])
    scalar = sn['layout'] == 'scalar'
    if scalar:
        ib = sc.vector(sn['b1'][0], unit=sn['b1u'])
        sb = sc.vector(sn['b2'][0], unit=sn['du'])
        wl = sc.scalar(sn['lam'][0][0], unit=sn['lu'], dtype=sn['dtype'])
    else:
        if len(sn['b1']) == 1:
            ib = sc.vector(sn['b1'][0], unit=sn['b1u'])
        else:
            ib = sc.vectors(dims=['pixel'], values=np.array(sn['b1']), unit=sn['b1u'])
        sb = sc.vectors(dims=['pixel'], values=np.array(sn['b2']), unit=sn['du'])
        if sn['layout'] == 'dense1d':
            wl = sc.array(dims=['wavelength'], values=np.array(sn['lam'][0], dtype=sn['dtype']), unit=sn['lu'], dtype=sn['dtype'])
        elif sn['layout'] == 'dense2d':
            wl = sc.array(dims=['pixel', 'wavelength'], values=np.array(sn['lam'], dtype=sn['dtype']), unit=sn['lu'], dtype=sn['dtype'])
        else:
            flat = [x for row in sn['lam'] for x in row]
            data = sc.array(dims=['event'], values=np.array(flat, dtype=sn['dtype']), unit=sn['lu'], dtype=sn['dtype'])
            ends = np.cumsum([len(r) for r in sn['lam']])
            begins = ends - np.array([len(r) for r in sn['lam']])
            wl = sc.bins(dim='event', data=data, begin=sc.array(dims=['pixel'], values=begins, unit=None, dtype='int64'),
                         end=sc.array(dims=['pixel'], values=ends, unit=None, dtype='int64'))
    gv = sc.vector(sn['g'], unit=sn['gu'])
    assert npix == len(sn['lam'])
    return ib, sb, wl, gv


class ShapeNote(list):
    """collects remarks about result variables whose dims/shape are not those of the broadcast operands"""


def _rows(sn, var, notes=None, what='result'):
    """result variable → list (pixel) of list (wavelength) of floats.  A result that lacks a dimension of the operands (e.g. a phi
    without the wavelength dims) is reported in `notes` and broadcast, so that its values can still be compared."""
    import scipp as sc

    def note(msg):
        if notes is not None:
            notes.append(f'{what}: {msg}')
    if sn['layout'] == 'scalar':
        if var.ndim != 0 or var.bins is not None:
            note(f'expected a 0-d variable, got dims {var.dims}')
            return [[float(np.ravel(var.values)[0])]]
        return [[float(var.value)]]
    npix = len(sn['lam'])
    if sn['layout'] == 'binned':
        if var.bins is None:
            note(f'expected binned data with the bin sizes of the wavelength, got a dense variable with dims {var.dims}')
            per_pixel = np.broadcast_to(np.array(var.values, dtype=np.float64), (npix,)) if var.ndim <= 1 else None
            if per_pixel is None:
                raise RuntimeError(f'unexpected dims {var.dims}')
            return [[float(per_pixel[i])] * len(sn['lam'][i]) for i in range(npix)]
        c = var.bins.constituents
        data = c['data'].values
        b, e = c['begin'].values, c['end'].values
        rows = [[float(x) for x in data[b[i]:e[i]]] for i in range(len(b))]
        if [len(r) for r in rows] != [len(r) for r in sn['lam']]:
            note(f'bin sizes {[len(r) for r in rows]} differ from those of the wavelength {[len(r) for r in sn["lam"]]}')
        return rows
    nl = len(sn['lam'][0])
    v = var
    if v.bins is not None or not set(v.dims) <= {'pixel', 'wavelength'}:
        raise RuntimeError(f'unexpected dims {v.dims}')
    if set(v.dims) != {'pixel', 'wavelength'}:
        note(f'dims {v.dims} lack {sorted({"pixel", "wavelength"} - set(v.dims))} of the broadcast operands')
        v = sc.broadcast(v, sizes={'pixel': npix, 'wavelength': nl}).copy()
    vals = v.transpose(['pixel', 'wavelength']).values
    return [[float(x) for x in row] for row in vals]


def _meta(var):
    from scippneutron._utils import elem_dtype, elem_unit

    return str(elem_dtype(var)), str(elem_unit(var))


def impl_call(sn, which):
    """which ∈ public|generic|orth|yz → ('ok', rows two_theta, rows phi | None, dtype, unit) or 'err:…'"""
    from scippneutron.conversion import beamline as bl

    ib, sb, wl, gv = build_inputs(sn)
    fn = {'public': bl.scattering_angles_with_gravity, 'generic': bl._scattering_angles_with_gravity_generic,
          'orth': bl._scattering_angles_with_gravity_orthogonal_coords, 'yz': bl.scattering_angle_in_yz_plane}[which]
    try:
        r = fn(incident_beam=ib, scattered_beam=sb, wavelength=wl, gravity=gv)
    except Exception as e:  # noqa: BLE001
        return _err(e)
    notes = ShapeNote()
    try:
        if which == 'yz':
            return ('ok', _rows(sn, r, notes, 'gamma'), None) + _meta(r) + (notes,)
        m1, m2 = _meta(r['two_theta']), _meta(r['phi'])
        tt_rows, phi_rows = _rows(sn, r['two_theta'], notes, 'two_theta'), _rows(sn, r['phi'], notes, 'phi')
    except RuntimeError as e:
        return 'err:shape:' + str(e)
    if m1 != m2:
        return ('ok', tt_rows, phi_rows, 'mixed:' + m1[0] + '/' + m2[0], m1[1] + '/' + m2[1], notes)
    return ('ok', tt_rows, phi_rows) + m1 + (notes,)


def impl_frame(sn):
    from scippneutron.conversion import beamline as bl

    ib, _, _, gv = build_inputs(sn)
    try:
        r = bl.beam_aligned_unit_vectors(incident_beam=ib, gravity=gv)
    except Exception as e:  # noqa: BLE001
        return _err(e)
    out = []
    n = len(sn['b1'])
    for k in ('beam_aligned_unit_x', 'beam_aligned_unit_y', 'beam_aligned_unit_z'):
        v = r[k]
        vals = np.broadcast_to(v.values, (n, 3)) if v.ndim == 0 or v.values.ndim == 1 else v.values
        out.append((np.array(vals, dtype=np.float64).reshape(n, 3), str(v.unit)))
    return out


def impl_drop(sn, i, j):
    import scipp as sc
    from scippneutron.conversion import beamline as bl

    _, sb, _, gv = build_inputs(sn)
    dist = sc.norm(sb if sn['layout'] == 'scalar' else sb['pixel', i])
    wl = sc.scalar(sn['lam'][i][j], unit=sn['lu'], dtype=sn['dtype'])
    r = bl._drop_due_to_gravity(distance=dist, wavelength=wl, gravity=gv)
    return float(r.value), str(r.dtype), str(r.unit)


# ---------------------------------------------------------------------------------------------
# correspondence

def _H(dt):
    return hp.bits if dt == 'float64' else hp.bits32


def _U(dt):
    return hp.unbits if dt == 'float64' else hp.unbits32


def driver_args(sn):
    H = _H(sn['dtype'])
    c = consts()[0]
    s = lam_scale(sn['lu'], sn['du'], sn['gu'])
    npix = len(sn['b2'])
    parts = ['f64' if sn['dtype'] == 'float64' else 'f32', hp.bits(c), hp.bits(s)] + [hp.bits(x) for x in sn['g']] + [str(npix)]
    for i in range(npix):
        b1 = sn['b1'][i] if len(sn['b1']) > 1 else sn['b1'][0]
        parts += [hp.bits(x) for x in b1] + [hp.bits(x) for x in sn['b2'][i]] + [str(len(sn['lam'][i]))]
        parts += [H(x) for x in sn['lam'][i]]
    return ' '.join(parts)


CORR_ABS = {'float64': 1e-13, 'float32': 1e-6}  # a tenth of the oracle's accuracy budget


def _ulp_close(a, b, dt, ulps=2):
    """angle of implementation and model: within `ulps` ulp (libm) or within a tenth of the accuracy budget"""
    if a != a or b != b:
        return (a != a) and (b != b)
    if dt == 'float64':
        return abs(a - b) <= max(ulps * max(math.ulp(a), math.ulp(b)), CORR_ABS[dt])
    f = np.float32
    return abs(a - b) <= max(ulps * float(max(np.spacing(f(abs(a))), np.spacing(f(abs(b))))), CORR_ABS[dt])


def _cmp_rows(ctx, case, which, impl, model_vals, dt):
    """impl = ('ok', tt rows, phi rows|None, dtype, unit); model_vals flat list of floats (tt phi tt phi … or γ …)"""
    tt, ph = impl[1], impl[2]
    flat = []
    for i in range(len(tt)):
        for j in range(len(tt[i])):
            flat.append(tt[i][j])
            if ph is not None:
                flat.append(ph[i][j])
    if len(flat) != len(model_vals):
        ctx.disagree(case, len(flat), len(model_vals), f'{which}: number of results')
        return
    for k, (a, b) in enumerate(zip(flat, model_vals)):
        if not _ulp_close(a, b, dt):
            ctx.disagree(case, flat, model_vals, f'{which}: result {k} differs by more than 2 ulp')
            return
    if len(impl) > 5 and impl[5]:
        ctx.disagree(case, list(impl[5]), 'dims/shape of the broadcast operands', f'{which}: shape of the result')
    want_dt = dt
    if impl[3] != want_dt or impl[4] != 'rad':
        ctx.disagree(case, [impl[3], impl[4]], [want_dt, 'rad'], f'{which}: dtype/unit of result')


def correspond(ctx):
    rng = ctx.rng
    n = ctx.n(1200, 50000)
    scen = [gen_scenario(rng) for _ in range(n)]
    lines = []
    for sn in scen:
        a = driver_args(sn)
        lines += ['c04.angles ' + a, 'c04.generic ' + a, 'c04.orth ' + a, 'c04.yz ' + a]
        bs = sn['b1']
        lines.append('c04.frame ' + ' '.join(hp.bits(x) for x in sn['g']) + f' {len(bs)} ' + ' '.join(hp.bits(x) for b in bs for x in b))
        lines += ['c04.needs ' + ' '.join(hp.bits(x) for x in (*sn['g'], *b)) for b in bs]
    outs = iter(ctx.driver(lines))
    for sn in scen:
        model_lines = [next(outs) for _ in range(5 + len(sn['b1']))]
        try:
            _correspond_one(ctx, sn, model_lines)
        except Exception as e:  # noqa: BLE001
            ctx.disagree({k: sn[k] for k in ('g', 'gu', 'b1', 'b1u', 'b2', 'du', 'lam', 'lu', 'dtype', 'layout')},
                         f'raised {type(e).__name__}: {str(e)[:200]}', 'values', 'the implementation raised on valid input')
    _correspond_drop(ctx, scen)


def _correspond_one(ctx, sn, model_lines):
    outs = iter(model_lines)
    if True:
        dt = sn['dtype']
        U = _U(dt)
        case = {k: sn[k] for k in ('g', 'gu', 'b1', 'b1u', 'b2', 'du', 'lam', 'lu', 'dtype', 'layout', 'b1_kind', 'tilt')}
        ident = (driver_args(sn), sn['layout'], sn['gu'], sn['b1u'], sn['du'], sn['lu'])
        nvals = sum(len(r) for r in sn['lam'])
        o_pub, o_gen, o_orth, o_yz, o_frame = next(outs), next(outs), next(outs), next(outs), next(outs)
        o_needs = [next(outs) for _ in sn['b1']]
        for b in set(sn['b1_kind']):
            ctx.count('b1:' + b)
        ctx.count('layout:' + sn['layout'] + ':' + dt)
        # public function (dispatch + computation)
        impl = impl_call(sn, 'public')
        toks = o_pub.split()
        ctx.case(('public',) + ident, True, sample={'op': 'public', **case, 'impl': impl if isinstance(impl, str) else 'ok', 'model': toks[0]})
        if isinstance(impl, str) or toks[0].startswith('err'):
            ctx.count('public:' + (impl if isinstance(impl, str) else 'ok'))
            if impl != toks[0]:
                ctx.disagree({'op': 'public', **case}, impl if isinstance(impl, str) else 'ok', toks[0], 'error behaviour')
        else:
            ctx.count('public:path:' + toks[0])
            _cmp_rows(ctx, {'op': 'public', 'model_path': toks[0], **case}, 'public', impl, [U(h) for h in toks[1:]], dt)
            want = 'generic' if '1' in o_needs else 'orthogonal'
            if want != toks[0]:
                ctx.disagree({'op': 'public', **case}, want, toks[0], 'internal: dispatch of the model differs from its predicate')
        # both private implementations, forced
        for which, o in (('generic', o_gen), ('orth', o_orth)):
            impl = impl_call(sn, which)
            toks = o.split()
            ctx.case((which,) + ident, True)
            if isinstance(impl, str) or toks[0].startswith('err'):
                ctx.count(which + ':' + (impl if isinstance(impl, str) else 'ok'))
                if impl != toks[0]:
                    ctx.disagree({'op': which, **case}, impl if isinstance(impl, str) else 'ok', toks[0], 'error behaviour')
            else:
                ctx.count(which + ':ok')
                _cmp_rows(ctx, {'op': which, **case}, which, impl, [U(h) for h in toks[1:]], dt)
        # reflectometry variant
        impl = impl_call(sn, 'yz')
        toks = o_yz.split()
        ctx.case(('yz',) + ident, True)
        ctx.count('yz:' + (impl if isinstance(impl, str) else 'ok'))
        if isinstance(impl, str) or toks[0].startswith('err'):
            if impl != toks[0]:
                ctx.disagree({'op': 'yz', **case}, impl if isinstance(impl, str) else 'ok', toks[0], 'error behaviour')
        else:
            _cmp_rows(ctx, {'op': 'yz', **case}, 'yz', impl, [U(h) for h in toks[1:]], dt)
        # unit vectors
        fr = impl_frame(sn)
        toks = o_frame.split()
        ctx.case(('frame',) + ident, True)
        ctx.count('frame:' + (fr if isinstance(fr, str) else 'ok'))
        if isinstance(fr, str) or toks[0].startswith('err'):
            if fr != toks[0]:
                ctx.disagree({'op': 'frame', **case}, fr if isinstance(fr, str) else 'ok', toks[0], 'error behaviour')
        else:
            got = []
            for i in range(len(sn['b1'])):
                for k in range(3):
                    got += [hp.bits(x) for x in fr[k][0][i]]
            if got != toks[1:]:
                ctx.disagree({'op': 'frame', **case}, got, toks[1:], 'unit vectors differ bit-wise (only + − × ÷ √)')
            if any(u not in ('dimensionless', 'one', '') for _, u in fr):
                ctx.disagree({'op': 'frame', **case}, [u for _, u in fr], 'dimensionless', 'unit of unit vectors')


def _correspond_drop(ctx, scen):
    """the drop, on its own (only + − × and conversions: bit-exact)"""
    rng = ctx.rng
    m = ctx.n(400, 16000)
    picks = []
    for _ in range(m):
        sn = rng.choice(scen)
        i = rng.randrange(len(sn['lam']))
        if not sn['lam'][i]:
            continue
        picks.append((sn, i, rng.randrange(len(sn['lam'][i]))))
    lines = []
    for sn, i, j in picks:
        dist = math.sqrt((sn['b2'][i][0] * sn['b2'][i][0] + sn['b2'][i][1] * sn['b2'][i][1]) + sn['b2'][i][2] * sn['b2'][i][2])
        lines.append('c04.drop ' + ' '.join(['f64' if sn['dtype'] == 'float64' else 'f32', hp.bits(consts()[0]),
                     hp.bits(lam_scale(sn['lu'], sn['du'], sn['gu'])), hp.bits(dist), _H(sn['dtype'])(sn['lam'][i][j])]
                     + [hp.bits(x) for x in sn['g']]))
    outs = ctx.driver(lines)
    for (sn, i, j), o in zip(picks, outs):
        try:
            v, dt, unit = impl_drop(sn, i, j)
        except Exception as e:  # noqa: BLE001
            ctx.disagree({'op': 'drop', 'b2': sn['b2'][i], 'lam': sn['lam'][i][j], 'g': sn['g']}, f'raised {type(e).__name__}', o,
                         '_drop_due_to_gravity raised on valid input')
            continue
        ctx.case(('drop', o, sn['du'], sn['lu'], sn['gu']), True)
        ctx.count('drop:' + sn['dtype'] + ':' + sn['du'])
        got = _H(sn['dtype'])(v)
        du_names = {sn['du']}
        if got != o or dt != sn['dtype'] or unit not in du_names:
            ctx.disagree({'op': 'drop', 'distance_of_b2': sn['b2'][i], 'lam': sn['lam'][i][j], 'g': sn['g'],
                          'units': [sn['du'], sn['lu'], sn['gu']], 'dtype': sn['dtype']}, [got, dt, unit], [o, sn['dtype'], sn['du']],
                         'drop differs bit-wise / dtype / unit')


# ---------------------------------------------------------------------------------------------
# direct oracle: the documented construction in 70-digit decimals

def spec(sn, i, j):
    """high-precision specification for pixel i, wavelength j → dict(two_theta, phi, yz, tilt, cond_phi, delta…)"""
    c, m, h = consts()
    D = hp.D
    g = hp.V.of(sn['g']).scale(D(unit_scale(sn['gu'], 'm/s^2')))
    b1v = sn['b1'][i] if len(sn['b1']) > 1 else sn['b1'][0]
    b1 = hp.V.of(b1v).scale(D(unit_scale(sn['b1u'], 'm')))
    b2 = hp.V.of(sn['b2'][i]).scale(D(unit_scale(sn['du'], 'm')))
    lam = D(sn['lam'][i][j]) * D(unit_scale(sn['lu'], 'm'))
    gn = g.norm()
    delta = gn * D(m) ** 2 * lam ** 2 * b2.dot(b2) / (2 * D(h) ** 2)
    ey = (-g).scale(1 / gn)
    zp = b1 - ey.scale(b1.dot(ey))
    ez = zp.unit()
    ex = ey.cross(ez)
    b2r = b2 + ey.scale(delta)
    x, y, z = b2.dot(ex), b2r.dot(ey), b2.dot(ez)
    rho = (x * x + y * y).sqrt()
    tilt = hp.atan2(abs(b1.dot(ey)), zp.norm())
    return {
        'two_theta': hp.angle(b1, b2r), 'two_theta_0': hp.angle(b1, b2), 'two_theta_lowered': hp.angle(b1, b2 - ey.scale(delta)), 'phi': hp.atan2(y, x), 'phi_0': hp.atan2(b2.dot(ey), x),
        'yz': hp.atan2(abs(y), z), 'tilt': tilt, 'delta': delta, 'L2': b2.norm(), 'rho': rho, 'r': b2r.norm(),
        'zp_rel': zp.norm() / b1.norm(), 'x': x, 'y': y, 'z': z, 'yd': b2.dot(ey),
        'gdotb1_over_g': abs(hp.V.of(sn['g']).dot(hp.V.of(b1v))) / hp.V.of(sn['g']).norm(),
    }


def _angdiff(a, b):
    d = abs(hp.D(a) - hp.D(b))
    return min(d, abs(2 * hp.PI - d))


def _tols(sn, sp, path):
    base = hp.D(TOL64 if sn['dtype'] == 'float64' else TOL32)
    # two_theta: on the optimised path the angle is measured from ê_z; it differs from the construction by at most the tilt
    t_tt = base + (sp['tilt'] if path == 'orthogonal' else 0)
    # phi: ill-conditioned when the raised beam is close to the z axis or b1 close to vertical
    eps = hp.D(EPS if sn['dtype'] == 'float64' else 2.0 ** -23)
    cond = (sp['r'] / sp['rho'] if sp['rho'] > 0 else hp.D('1e300')) * (1 + 1 / sp['zp_rel'])
    t_phi = base + 64 * eps * cond
    return t_tt, t_phi


def _witness(sn, i, j, extra=None):
    w = {k: sn[k] for k in ('g', 'gu', 'b1', 'b1u', 'b2', 'du', 'lam', 'lu', 'dtype', 'layout')}
    w['bits'] = {'g': [hp.bits(x) for x in sn['g']], 'b1': [[hp.bits(x) for x in b] for b in sn['b1']],
                 'b2': [[hp.bits(x) for x in b] for b in sn['b2']], 'lam': [[_H(sn['dtype'])(x) for x in r] for r in sn['lam']]}
    w['pixel'], w['wavelength_index'] = i, j
    if extra:
        w.update(extra)
    return w


def check_scenario(ctx, sn, which, count=True):
    """evaluate one scenario through `which` and compare every element with the specification; returns #violations"""
    impl = impl_call(sn, which)
    nviol = 0
    parallel = any(k == 'parallel' for k in sn['b1_kind'])
    if isinstance(impl, str):
        if impl != 'err:value':
            ctx.violation('C04:unexpected-exception', f'{which} raised {impl}', _witness(sn, 0, 0, {'which': which}))
            return 1
        if which == 'yz':
            # refusing is required iff some beam is (clearly) not perpendicular; allowed when the frame cannot be built
            if not parallel:
                worst = max(spec_tilt_ratio(sn, i) for i in range(len(sn['b1'])))
                if clearly_perpendicular(sn):
                    ctx.violation('C04:yz-refuses-perpendicular-beam', 'scattering_angle_in_yz_plane raised ValueError although '
                                  f'|g·b1|/|g| = {float(worst):.6g} ≤ 1e-10', _witness(sn, 0, 0, {'which': which}))
                    return 1
            return 0
        if not parallel:
            ctx.violation('C04:unexpected-valueerror', f'{which} raised ValueError for an incident beam not parallel to gravity',
                          _witness(sn, 0, 0, {'which': which}))
            return 1
        return 0
    if parallel and any(zproj_norm(sn, i) < hp.D(THR) - thr_margin(sn, i) for i in range(len(sn['b1']))):
        ctx.violation('C04:parallel-beam-not-refused', f'{which} returned a result although an incident beam is parallel to gravity '
                      '(|z_proj| < 1e-10: the beam-aligned frame is undefined; the documentation promises a ValueError)',
                      _witness(sn, 0, 0, {'which': which}))
        return 1
    if which == 'yz':
        worst = max(spec_tilt_ratio(sn, i) for i in range(len(sn['b1'])))
        if clearly_tilted(sn):
            ctx.violation('C04:yz-accepts-tilted-beam', 'scattering_angle_in_yz_plane returned a result although '
                          f'|g·b1|/|g| = {float(worst):.6g} > 1e-10 (incident beam not perpendicular to gravity)',
                          _witness(sn, 0, 0, {'which': which}))
            return 1
    if impl[3] != sn['dtype'] or impl[4] != 'rad':
        ctx.violation('C04:result-dtype-unit', f'{which}: result has dtype {impl[3]} unit {impl[4]}, wavelength is {sn["dtype"]}',
                      _witness(sn, 0, 0, {'which': which}))
        nviol += 1
    path = which
    if which == 'public':
        path = 'generic' if clearly_tilted(sn) else 'orthogonal'
    elif which in ('orth', 'yz'):
        path = 'orthogonal'
    for i in range(len(sn['lam'])):
        for j in range(len(sn['lam'][i])):
            sp = spec(sn, i, j)
            if sp['r'] == 0:
                continue
            t_tt, t_phi = _tols(sn, sp, path)
            if count:
                ctx.case(('spec', which, driver_args(sn), i, j), True)
            if which == 'yz':
                got = impl[1][i][j]
                # γ = atan2(|y'|, z): conditioning as atan2 of in-plane components
                tol = t_phi if sp['z'] == 0 else hp.D(TOL64 if sn['dtype'] == 'float64' else TOL32) + 64 * hp.D(EPS if sn['dtype'] == 'float64' else 2.0 ** -23) * (sp['r'] / (sp['y'] ** 2 + sp['z'] ** 2).sqrt()) * (1 + 1 / sp['zp_rel'])
                if not (got == got) or abs(hp.D(got) - sp['yz']) > tol:
                    ctx.violation('C04:yz-definition', f'scattering_angle_in_yz_plane = {got!r}, atan2(|y_d+δ|, z_d) = {hp.fmt(sp["yz"])}',
                                  _witness(sn, i, j, {'which': which, 'got': got, 'expected': hp.fmt(sp['yz'], 30)}))
                    nviol += 1
                continue
            tt, ph = impl[1][i][j], impl[2][i][j]
            if not (tt == tt) or abs(hp.D(tt) - sp['two_theta']) > t_tt:
                # classify: the beam moved along gravity instead of against it (the defect fixed in 7aafc46)?
                lowered = (tt == tt) and abs(hp.D(tt) - sp['two_theta_lowered']) <= t_tt and sp['two_theta_lowered'] != sp['two_theta']
                key = 'C04:generic-path-drop-direction' if lowered else 'C04:two-theta-construction:' + path
                if which == 'orth' and sp['tilt'] > hp.D('1e-9'):
                    pass  # the optimised implementation is only specified for perpendicular beams; not a violation on its own
                else:
                    ctx.violation(key, f'{which}: two_theta = {tt!r} but ∠(b1, b2+δ·ê_y) = {hp.fmt(sp["two_theta"])} '
                                  f'(gravity-free {hp.fmt(sp["two_theta_0"])}, δ = {float(sp["delta"]):.3g} m, path {path})',
                                  _witness(sn, i, j, {'which': which, 'got': tt, 'expected': hp.fmt(sp['two_theta'], 30), 'path': path}))
                    nviol += 1
            if not (ph == ph) or _angdiff(ph, sp['phi']) > t_phi:
                ctx.violation('C04:phi-definition', f'{which}: phi = {ph!r} but atan2(y_d+δ, x_d) = {hp.fmt(sp["phi"])}',
                              _witness(sn, i, j, {'which': which, 'got': ph, 'expected': hp.fmt(sp['phi'], 30), 'path': path}))
                nviol += 1
    # shape of the results (after the element-wise comparison, so that a numeric witness comes first)
    if len(impl) > 5 and impl[5]:
        for msg in impl[5]:
            key = 'C04:phi-definition' if msg.startswith('phi') else ('C04:yz-definition' if msg.startswith('gamma') else 'C04:two-theta-shape')
            ctx.violation(key, f'{which}: {msg} — every wavelength has its own drop δ, so the angle must carry the wavelength dims/bins '
                          f'(layout {sn["layout"]}, {len(sn["lam"])} pixel(s), wavelengths per pixel {[len(r_) for r_ in sn["lam"]]})',
                          _witness(sn, 0, 0, {'which': which, 'shape': msg}))
            nviol += 1
    return nviol


def thr_margin(sn, i):
    """rounding uncertainty of the floating-point evaluation of |g·b1|/|g| against 1e-10: the dispatch is only specified
    outside THR ± margin"""
    return hp.D(16 * EPS) * hp.V.of(sn['b1'][i]).norm() + hp.D(THR) * hp.D('1e-12')


def clearly_tilted(sn):
    return any(spec_tilt_ratio(sn, i) > hp.D(THR) + thr_margin(sn, i) for i in range(len(sn['b1'])))


def clearly_perpendicular(sn):
    return all(spec_tilt_ratio(sn, i) < hp.D(THR) - thr_margin(sn, i) for i in range(len(sn['b1'])))


def zproj_norm(sn, i):
    """|b1 − (b1·ê_y)ê_y| on the values (unit of b1), as the check in beam_aligned_unit_vectors is written"""
    b1 = hp.V.of(sn['b1'][i])
    g = hp.V.of(sn['g'])
    ey = (-g).scale(1 / g.norm())
    return (b1 - ey.scale(b1.dot(ey))).norm()


def spec_tilt_ratio(sn, i):
    """|g·b1|/|g| on the *values* (unit of b1), exactly as the dispatch predicate is written"""
    b1 = hp.V.of(sn['b1'][i])
    g = hp.V.of(sn['g'])
    return abs(g.dot(b1)) / g.norm()


def load_corpus():
    import json
    import os

    d = os.path.join(os.path.dirname(os.path.dirname(os.path.dirname(os.path.abspath(__file__)))), 'corpus', 'C04')
    out = []
    if os.path.isdir(d):
        for fn in sorted(os.listdir(d)):
            if fn.endswith('.json'):
                with open(os.path.join(d, fn)) as f:
                    doc = json.load(f)
                for sn in doc['scenarios']:
                    sn = dict(sn)
                    sn.setdefault('b1_kind', ['tilt'] * len(sn['b1']))
                    sn.setdefault('tilt', [0.0] * len(sn['b1']))
                    sn['lam'] = [[float(np.dtype(sn['dtype']).type(x)) for x in row] for row in sn['lam']]
                    out.append(sn)
    return out


def oracle(ctx, deep):
    with hp.precision():
        try:
            _oracle(ctx, deep)
        except Exception as e:  # noqa: BLE001
            import traceback

            tb = traceback.extract_tb(e.__traceback__)
            if any('/scippneutron/' in f.filename or '/scipp/' in f.filename for f in tb):
                ctx.violation('C04:unexpected-exception', f'the implementation raised {type(e).__name__} on valid input: {str(e)[:200]}',
                              getattr(e, 'c04_witness', {}))
            else:
                raise


def _oracle(ctx, deep):
    rng = ctx.rng
    mult = 3 if deep else 1
    # ---- O0: corpus (minimised past failures), always first -----------------------------------
    for sn in load_corpus():
        ctx.count('oracle:corpus')
        for which in ('public', 'generic', 'yz') + (('orth',) if not clearly_tilted(sn) else ()):
            check_scenario(ctx, sn, which)
    # ---- O1: every code path against the construction --------------------------------------
    n = ctx.n(350, 12000) * mult
    for _ in range(n):
        sn = gen_scenario(rng)
        ctx.count('oracle:' + sn['b1_kind'][0])
        check_scenario(ctx, sn, 'public')
        if not any(k == 'parallel' for k in sn['b1_kind']):
            check_scenario(ctx, sn, 'generic')  # the general implementation is specified for every beam
            if not clearly_tilted(sn):
                check_scenario(ctx, sn, 'orth')
        check_scenario(ctx, sn, 'yz')
    # ---- O1a: φ on the general path where the drop matters for the azimuth ---------------------
    _oracle_phi_generic(ctx, ctx.n(120, 4000) * mult)
    # ---- O1b: every function twice on the same operand objects ------------------------------
    for sn in load_corpus():
        for which in ('public', 'yz', 'generic', 'orth'):
            check_repeat(ctx, sn, which)
    _oracle_repeat(ctx, ctx.n(150, 5000) * mult)
    # ---- O2: continuity across the dispatch threshold ---------------------------------------
    _oracle_continuity(ctx, ctx.n(150, 6000) * mult)
    # ---- O3: limits, monotonicity, sign of the correction ------------------------------------
    _oracle_limits(ctx, ctx.n(120, 5000) * mult)


def _oracle_phi_generic(ctx, n):
    """tilted incident beams (general implementation), long wavelengths, detectors near the horizontal plane (|y_d| ≲ δ): the
    azimuth of the raised beam atan2(y_d+δ, x_d) differs from the azimuth of the detected beam atan2(y_d, x_d) by far more than
    the tolerance, for every wavelength separately"""
    rng = ctx.rng
    for _ in range(n):
        g = gen_gravity(rng)
        if _norm(g) < 1.0:
            g = [c * 9.81 / _norm(g) for c in g]
        gn = _norm(g)
        gh = [c / gn for c in g]
        kind, tilt, b1 = gen_b1(rng, g, 'tilt')
        while abs(tilt) < 1e-6:
            kind, tilt, b1 = gen_b1(rng, g, 'tilt')
        dt = rng.choice(['float64', 'float64', 'float32'])
        layout = rng.choice(['dense1d', 'dense2d', 'binned', 'scalar'])
        npix = 1 if layout == 'scalar' else rng.randrange(1, 5)
        b2s = []
        for _k in range(npix):
            p = _perp_unit(rng, gh)
            L = _lu(rng, 1.0, 20.0)
            yd = rng.choice([0.0, 1e-6, 1e-4, 1e-3, 1e-2, -1e-6, -1e-4, -1e-3, -1e-2]) * L
            b2s.append([L * p[i] + yd * (-gh[i]) for i in range(3)])
        lam = lambda: float(np.dtype(dt).type(rng.uniform(8.0, 100.0)))  # noqa: E731
        if layout == 'dense1d':
            row = [lam() for _ in range(rng.randrange(2, 5))]
            lams = [list(row) for _ in range(npix)]
        elif layout == 'dense2d':
            nl = rng.randrange(2, 5)
            lams = [[lam() for _ in range(nl)] for _ in range(npix)]
        elif layout == 'binned':
            lams = [[lam() for _ in range(rng.randrange(1, 5))] for _ in range(npix)]
        else:
            lams = [[lam()]]
        sn = {'g': g, 'gu': 'm/s^2', 'b1': [b1], 'b1_kind': ['tilt'], 'tilt': [tilt], 'b1u': 'm', 'b2': b2s, 'du': 'm', 'lam': lams,
              'lu': 'angstrom', 'dtype': dt, 'layout': layout}
        decisive = 0
        for i in range(npix):
            for j in range(len(lams[i])):
                sp = spec(sn, i, j)
                if _angdiff(sp['phi'], sp['phi_0']) > 100 * _tols(sn, sp, 'generic')[1]:
                    decisive += 1
        ctx.count('oracle:phi-generic:' + ('decisive' if decisive else 'not-decisive'))
        for which in ('public', 'generic'):
            check_scenario(ctx, sn, which)


def _snap_var(v):
    """bit-level snapshot of a (possibly binned) variable"""
    if v.bins is not None:
        c = v.bins.constituents
        return ('binned', str(c['data'].dtype), str(c['data'].unit), np.array(c['data'].values).tobytes(),
                np.array(c['begin'].values).tobytes(), np.array(c['end'].values).tobytes())
    return (str(v.dtype), str(v.unit), tuple(v.dims), np.array(v.values).tobytes())


def _snap_result(r):
    if isinstance(r, dict):
        return {k: _snap_var(v) for k, v in sorted(r.items())}
    return _snap_var(r)


def check_repeat(ctx, sn, which, count=True):
    """call one function twice on the very same operand objects: the operands must be bit-identical afterwards and the
    second result bit-identical to the first"""
    from scippneutron.conversion import beamline as bl

    fn = {'public': bl.scattering_angles_with_gravity, 'generic': bl._scattering_angles_with_gravity_generic,
          'orth': bl._scattering_angles_with_gravity_orthogonal_coords, 'yz': bl.scattering_angle_in_yz_plane}[which]
    ib, sb, wl, gv = build_inputs(sn)
    ops = {'incident_beam': ib, 'scattered_beam': sb, 'wavelength': wl, 'gravity': gv}
    before = {k: _snap_var(v) for k, v in ops.items()}
    res = []
    for _ in range(2):
        try:
            r = fn(incident_beam=ib, scattered_beam=sb, wavelength=wl, gravity=gv)
            res.append(('ok', _snap_result(r), r))
        except Exception as e:  # noqa: BLE001
            res.append((_err(e), None, None))
        after = {k: _snap_var(v) for k, v in ops.items()}
        if after != before:
            changed = sorted(k for k in ops if after[k] != before[k])
            wl_after = None
            if 'wavelength' in changed and wl.bins is None:
                wl_after = [float(x) for x in np.ravel(wl.values)[:4]], str(wl.unit)
            ctx.violation('C04:operand-modified', f'{fn.__name__} overwrote its operand(s) {changed}'
                          + (f': wavelength is now {wl_after[0]} {wl_after[1]}' if wl_after else '')
                          + f' (wavelength {sn["dtype"]} in {sn["lu"]}, beams in {sn["b1u"]}/{sn["du"]}, gravity in {sn["gu"]}, {sn["layout"]})',
                          _witness(sn, 0, 0, {'which': which, 'kind': 'repeat', 'changed': changed}))
            return 1
    if count:
        ctx.case(('repeat', which, driver_args(sn), sn['layout'], sn['lu'], sn['du'], sn['gu'], sn['b1u']), True)
        ctx.count('oracle:repeat:' + which + (':noop-units' if (sn['lu'], sn['du'], sn['b1u'], sn['gu']) == ('m', 'm', 'm', 'm/s^2') else ''))
    if res[0][0] != res[1][0] or res[0][1] != res[1][1]:
        def first(r):
            if r[0] != 'ok':
                return r[0]
            v = r[2]['two_theta'] if isinstance(r[2], dict) else r[2]
            v = v.bins.constituents['data'] if v.bins is not None else v
            return [float(x) for x in np.ravel(v.values)[:3]]
        ctx.violation('C04:second-call-differs', f'{fn.__name__} called twice on the same operands returned {first(res[0])} and then '
                      f'{first(res[1])}', _witness(sn, 0, 0, {'which': which, 'kind': 'repeat'}))
        return 1
    return 0


def _oracle_repeat(ctx, n):
    rng = ctx.rng
    for _ in range(n):
        sn = gen_scenario(rng, noop_units=rng.random() < 0.6)
        if rng.random() < 0.5:
            # plain realistic numbers as well: neutrons of a few ångström, metres, standard gravity
            sn['dtype'] = rng.choice(['float64', 'float32'])
            sn['lam'] = [[float(np.dtype(sn['dtype']).type(x)) for x in row] for row in sn['lam']]
        for which in ('public', 'yz', 'generic', 'orth'):
            check_repeat(ctx, sn, which)


def _scalar_scenario(rng, g, b1, b2, lam, dt='float64'):
    return {'g': g, 'gu': 'm/s^2', 'b1': [b1], 'b1_kind': ['tilt'], 'tilt': [0.0], 'b1u': 'm', 'b2': [b2], 'du': 'm',
            'lam': [[float(np.dtype(dt).type(lam))]], 'lu': 'angstrom', 'dtype': dt, 'layout': 'scalar'}


def _oracle_continuity(ctx, n):
    """the same beamline evaluated with the incident beam tilted just below and just above the dispatch threshold: the two
    results come from different implementations and may differ by no more than the change of the construction itself
    (≤ the tilt difference) plus the documented 1e-10/|b1| slack of the optimised path"""
    rng = ctx.rng
    for _ in range(n):
        g = gen_gravity(rng)
        if _norm(g) < 0.5:
            g = [c * 9.81 / _norm(g) for c in g]
        gn = _norm(g)
        gh = [c / gn for c in g]
        p = _perp_unit(rng, gh)
        L = _lu(rng, 1, 100)
        rel = rng.choice([1e-6, 1e-3, 0.1, 0.5])
        s = rng.choice([-1.0, 1.0])
        lo = [L * p[i] + s * THR * (1 - rel) * gh[i] for i in range(3)]
        hi = [L * p[i] + s * THR * (1 + rel) * gh[i] for i in range(3)]
        b2 = [c * _lu(rng, 0.5, 20) for c in _dir(rng)]
        lam = rng.uniform(1.0, 30.0)
        dt = rng.choice(['float64', 'float64', 'float32'])
        a, b = _scalar_scenario(rng, g, lo, b2, lam, dt), _scalar_scenario(rng, g, hi, b2, lam, dt)
        ra, rb = impl_call(a, 'public'), impl_call(b, 'public')
        ctx.case(('cont', driver_args(a), driver_args(b)), True)
        ctx.count('oracle:continuity:' + dt)
        if isinstance(ra, str) or isinstance(rb, str):
            ctx.violation('C04:unexpected-valueerror', f'public function raised {ra if isinstance(ra, str) else rb} near the dispatch threshold',
                          _witness(a, 0, 0))
            continue
        sa, sb = spec(a, 0, 0), spec(b, 0, 0)
        base = hp.D(TOL64 if dt == 'float64' else TOL32)
        allowed = abs(sa['two_theta'] - sb['two_theta']) + sa['tilt'] + sb['tilt'] + 2 * base
        jump = abs(hp.D(ra[1][0][0]) - hp.D(rb[1][0][0]))
        if jump > allowed:
            ctx.violation('C04:generic-path-drop-direction',
                          f'two_theta jumps by {float(jump):.3g} rad (from {ra[1][0][0]!r} to {rb[1][0][0]!r}) when the incident beam is tilted '
                          f'across the dispatch threshold (|g·b1|/|g| from {THR * (1 - rel):.4g} to {THR * (1 + rel):.4g}); the construction '
                          f'changes by {float(abs(sa["two_theta"] - sb["two_theta"])):.3g} rad',
                          _witness(a, 0, 0, {'other_b1': hi, 'other_b1_bits': [hp.bits(x) for x in hi], 'kind': 'continuity'}))
        # and the two implementations on the very same (perpendicular up to 1e-10) input
        rg, ro = impl_call(a, 'generic'), impl_call(a, 'orth')
        if not isinstance(rg, str) and not isinstance(ro, str):
            d = abs(hp.D(rg[1][0][0]) - hp.D(ro[1][0][0]))
            if d > sa['tilt'] + 2 * base:
                ctx.violation('C04:generic-path-drop-direction',
                              f'the general and the optimised implementation differ by {float(d):.3g} rad in two_theta on an incident beam '
                              f'tilted by {float(sa["tilt"]):.3g} rad ({rg[1][0][0]!r} vs {ro[1][0][0]!r}; construction {hp.fmt(sa["two_theta"])})',
                              _witness(a, 0, 0, {'kind': 'paths-agree'}))
            dphi = _angdiff(rg[2][0][0], ro[2][0][0])
            if dphi > 2 * _tols(a, sa, 'generic')[1]:
                ctx.violation('C04:phi-definition', f'the two implementations differ by {float(dphi):.3g} rad in phi', _witness(a, 0, 0, {'kind': 'paths-agree'}))


def _oracle_limits(ctx, n):
    rng = ctx.rng
    from scippneutron.conversion import beamline as bl

    for _ in range(n):
        g = gen_gravity(rng)
        tilt_kind = rng.choice(['exact', 'tilt'])
        kind, tilt, b1 = gen_b1(rng, g, tilt_kind)
        b2 = [c * _lu(rng, 0.5, 20) for c in _dir(rng)]
        ib, sb, _, _ = build_inputs(_scalar_scenario(rng, g, b1, b2, 1.0))
        tt0 = float(bl.two_theta(incident_beam=ib, scattered_beam=sb).value)
        prev = None
        # λ → 0 and g → 0 along decreasing sequences: |2θ_g − 2θ_0| ≤ asin(δ/|b2|) ≤ 1.01 δ/|b2| (δ ≤ 0.1|b2|)
        for mode in ('lambda', 'gravity'):
            for k in range(0, 9):
                f = 10.0 ** (-k)
                lam = 20.0 * f if mode == 'lambda' else 20.0
                gg = g if mode == 'lambda' else [c * f for c in g]
                sn = _scalar_scenario(rng, gg, b1, b2, lam)
                r = impl_call(sn, 'public')
                ctx.case(('limit', mode, k, driver_args(sn)), True)
                ctx.count('oracle:limit:' + mode)
                if isinstance(r, str):
                    ctx.violation('C04:unexpected-valueerror', f'public function raised {r}', _witness(sn, 0, 0))
                    break
                sp = spec(sn, 0, 0)
                bound = hp.D('1.01') * sp['delta'] / sp['L2'] + sp['tilt'] + hp.D(TOL64)
                if sp['delta'] <= sp['L2'] / 10 and abs(hp.D(r[1][0][0]) - hp.D(tt0)) > bound + hp.D(4e-15):
                    ctx.violation('C04:limit-gravity-free', f'two_theta = {r[1][0][0]!r} is further than δ/L2 = {float(sp["delta"] / sp["L2"]):.3g} '
                                  f'from the gravity-free angle {tt0!r} ({mode} scaled by {f})', _witness(sn, 0, 0, {'kind': 'limit', 'tt0': tt0}))
                    break
        # λ = 0 exactly: the gravity-free angles
        sn = _scalar_scenario(rng, g, b1, b2, 0.0)
        r = impl_call(sn, 'public')
        if not isinstance(r, str):
            sp = spec(sn, 0, 0)
            if abs(hp.D(r[1][0][0]) - hp.D(tt0)) > sp['tilt'] + hp.D(TOL64) or _angdiff(r[2][0][0], sp['phi_0']) > _tols(sn, sp, 'generic')[1]:
                ctx.violation('C04:limit-gravity-free', f'at λ = 0: two_theta = {r[1][0][0]!r}, gravity-free {tt0!r}; phi = {r[2][0][0]!r}, '
                              f'gravity-free {hp.fmt(sp["phi_0"])}', _witness(sn, 0, 0, {'kind': 'lambda0', 'tt0': tt0}))
        # detector above a horizontal beam, forward hemisphere: the correction increases 2θ, monotonically in λ
        kind, tilt, b1h = gen_b1(rng, g, 'exact' if sum(1 for c in g if c != 0.0) == 1 else 'tilt')
        if kind != 'exact':
            gn = _norm(g)
            gh = [c / gn for c in g]
            pp = _perp_unit(rng, gh)
            b1h = [c * _lu(rng, 1, 100) for c in pp]
        prev = None
        for lam in (0.0, 0.5, 2.0, 8.0, 30.0, 100.0):
            sn = _scalar_scenario(rng, g, b1h, b2, lam)
            sp = spec(sn, 0, 0)
            if not (sp['yd'] >= 0 and sp['z'] > sp['L2'] / 1000):
                break
            r = impl_call(sn, 'public')
            ctx.case(('raise', lam, driver_args(sn)), True)
            ctx.count('oracle:raises-above-horizontal')
            if isinstance(r, str):
                break
            tt = r[1][0][0]
            slack = float(sp['tilt']) * 2 + TOL64
            if lam > 0 and sp['two_theta'] - sp['two_theta_0'] > hp.D(10 * slack) and not tt > float(sp['two_theta_0']):
                ctx.violation('C04:raises-angle', f'detector above a horizontal beam (y_d = {float(sp["yd"]):.3g} ≥ 0, z_d > 0), δ = {float(sp["delta"]):.3g} m: '
                              f'two_theta = {tt!r} is not larger than the gravity-free angle {hp.fmt(sp["two_theta_0"])}',
                              _witness(sn, 0, 0, {'kind': 'raises'}))
                break
            if prev is not None and tt < prev - slack:
                ctx.violation('C04:raises-angle', f'two_theta decreases from {prev!r} to {tt!r} when λ grows to {lam} Å for a detector above a horizontal beam',
                              _witness(sn, 0, 0, {'kind': 'monotone', 'prev': prev}))
                break
            prev = tt


# ---------------------------------------------------------------------------------------------

def replay(ctx, payload):
    w = payload.get('witness', {})
    key = payload.get('key', '')
    if 'bits' not in w:
        print('witness carries no inputs')
        return False
    dt = w['dtype']
    U = _U(dt)
    sn = {k: w[k] for k in ('gu', 'b1u', 'du', 'lu', 'dtype', 'layout')}
    sn['g'] = [hp.unbits(h) for h in w['bits']['g']]
    sn['b1'] = [[hp.unbits(h) for h in b] for b in w['bits']['b1']]
    sn['b2'] = [[hp.unbits(h) for h in b] for b in w['bits']['b2']]
    sn['lam'] = [[U(h) for h in r] for r in w['bits']['lam']]
    sn['b1_kind'] = ['tilt'] * len(sn['b1'])
    sn['tilt'] = [0.0] * len(sn['b1'])
    with hp.precision():
        for i in range(len(sn['b1'])):
            b1 = hp.V.of(sn['b1'][i])
            g = hp.V.of(sn['g'])
            ey = (-g).scale(1 / g.norm())
            if (b1 - ey.scale(b1.dot(ey))).norm() < hp.D('1e-9'):
                sn['b1_kind'][i] = 'parallel'

        class Sink:
            def __init__(self):
                self.v = []

            def violation(self, key, what, witness):
                print('  ', key, '—', what)
                self.v.append(key)

            def case(self, *a, **k):
                pass

            def count(self, *a, **k):
                pass
        sink = Sink()
        kind = w.get('kind')
        if kind == 'repeat':
            return check_repeat(sink, sn, w.get('which', 'public'), count=False) > 0
        if kind == 'continuity':
            other = dict(sn)
            other['b1'] = [[hp.unbits(h) for h in w['other_b1_bits']]]
            ra, rb = impl_call(sn, 'public'), impl_call(other, 'public')
            if isinstance(ra, str) or isinstance(rb, str):
                return True
            sa, sb = spec(sn, 0, 0), spec(other, 0, 0)
            base = hp.D(TOL64 if dt == 'float64' else TOL32)
            jump = abs(hp.D(ra[1][0][0]) - hp.D(rb[1][0][0]))
            print(f'two_theta below threshold {ra[1][0][0]!r}, above {rb[1][0][0]!r}; construction {hp.fmt(sa["two_theta"])} / {hp.fmt(sb["two_theta"])}')
            return jump > abs(sa['two_theta'] - sb['two_theta']) + sa['tilt'] + sb['tilt'] + 2 * base
        if kind == 'paths-agree':
            rg, ro = impl_call(sn, 'generic'), impl_call(sn, 'orth')
            if isinstance(rg, str) or isinstance(ro, str):
                return True
            sa = spec(sn, 0, 0)
            base = hp.D(TOL64 if dt == 'float64' else TOL32)
            print(f'general {rg[1][0][0]!r}, optimised {ro[1][0][0]!r}, construction {hp.fmt(sa["two_theta"])}')
            return abs(hp.D(rg[1][0][0]) - hp.D(ro[1][0][0])) > sa['tilt'] + 2 * base or \
                _angdiff(rg[2][0][0], ro[2][0][0]) > 2 * _tols(sn, sa, 'generic')[1]
        if kind in ('limit', 'lambda0', 'raises', 'monotone'):
            r = impl_call(sn, 'public')
            if isinstance(r, str):
                return True
            sp = spec(sn, 0, 0)
            tt = r[1][0][0]
            print(f'two_theta = {tt!r}; construction {hp.fmt(sp["two_theta"])}; gravity-free {hp.fmt(sp["two_theta_0"])}')
            if kind in ('limit', 'lambda0'):
                bound = hp.D('1.01') * sp['delta'] / sp['L2'] + sp['tilt'] + hp.D(TOL64) + hp.D(4e-15)
                return abs(hp.D(tt) - sp['two_theta_0']) > bound + hp.D(TOL64)
            if kind == 'raises':
                return not tt > float(sp['two_theta_0'])
            return tt < w['prev'] - (float(sp['tilt']) * 2 + TOL64)
        which = w.get('which', 'public')
        n = check_scenario(sink, sn, which, count=False)
        return n > 0


LEVEL_TEXT = (
    'Lean 4 theorems over ℝ about a transcription of the gravity code: the beam-aligned unit vectors are a right-handed '
    'orthonormal frame with ê_y antiparallel to gravity; the drop equals |g|·m_n²/(2h²)·λ²·L2² for all unit scales; the general '
    'implementation equals the documented construction (2θ = ∠(b1, b2+δê_y), φ = atan2(y_d+δ, x_d)) for every incident beam; '
    'the optimised implementation equals it when g·b1 = 0, and for any tilt returns the angle to ê_z, which differs from the '
    'construction by at most the tilt τ, sin τ ≤ 1e-10/|b1| whenever the dispatch selects it (continuity across the dispatch '
    'threshold); the public function on arrays (sc.any dispatch, both ValueErrors) equals the construction element-wise; '
    'δ = 0 gives the gravity-free angles and 2θ → gravity-free as λ → 0 and as |g| → 0; the correction increases 2θ for '
    'forward detectors above a horizontal beam (and provably not for back-scattering ones); the reflectometry variant '
    'equals atan2(|y_d+δ|, z_d) and refuses exactly when its predicate says. The model runs against the Python code '
    '(public function, both private implementations, reflectometry variant, unit vectors, drop; float32/float64; '
    'dense/binned; scalar/per-pixel incident beam) on every check run, bit-exact up to 2 ulp of libm atan2. The oracle '
    'compares every path with a 70-digit evaluation of the construction, including tilts straddling the threshold.'
)
LEVEL_NOTE = (
    'Trusted: Lean kernel, propext/Classical.choice/Quot.sound, the hand transcription Model/Gravity.lean (tied by the '
    'correspondence on every run), scipp broadcasting and dtype/unit conversion, scipp.constants, the decimal reference. '
    'Floating-point accuracy (incl. the float32 path) is validated, not proved.'
)
TECHNIQUE = 'Lean 4 proof over ℝ of an executable two-carrier model + bit-level correspondence on every code path + high-precision construction oracle'
