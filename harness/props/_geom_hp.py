"""High-precision (decimal, 70 digits) geometry on *exact* floating-point inputs — the reference of
the C03/C04 oracles.  Inputs are Python floats (or Fractions); every float is taken at its exact
binary value, so the reference has no input rounding.  No dependency on the Lean model."""
from __future__ import annotations

import struct
from decimal import Decimal, getcontext, localcontext
from fractions import Fraction

PREC = 70


def precision():
    """`with precision():` — decimal context of PREC digits (local to the block, nothing global is changed)"""
    return localcontext(prec=PREC)


PI = Decimal('3.14159265358979323846264338327950288419716939937510582097494459230781640628620899862803482534211706798')


def D(x) -> Decimal:
    """exact decimal value of a float / Fraction / int (exact for floats; 70 digits for general fractions)"""
    if isinstance(x, Decimal):
        return x
    if isinstance(x, Fraction):
        return Decimal(x.numerator) / Decimal(x.denominator)
    if isinstance(x, int):
        return Decimal(x)
    x = float(x)
    if x != x or x in (float('inf'), float('-inf')):
        # non-finite results of the code under test: map to a huge finite value so that every comparison with a
        # reference fails loudly instead of raising inside the oracle
        return Decimal('-1e9999') if x == float('-inf') else Decimal('1e9999')
    f = Fraction(x)
    with localcontext() as c:
        c.prec = 1200  # exact: a double has at most ~1075 significant decimal digits
        return Decimal(f.numerator) / Decimal(f.denominator)


def bits(x: float) -> str:
    return struct.pack('>d', float(x)).hex()


def unbits(h: str) -> float:
    if h == 'nan':
        return float('nan')
    return struct.unpack('>d', bytes.fromhex(h))[0]


def bits32(x) -> str:
    return struct.pack('>f', float(x)).hex()


def unbits32(h: str) -> float:
    if h == 'nan':
        return float('nan')
    return struct.unpack('>f', bytes.fromhex(h))[0]


def _atan_small(x: Decimal) -> Decimal:
    # Taylor series, |x| <= ~0.1
    x2 = x * x
    term = x
    s = x
    n = 1
    eps = Decimal(10) ** (-(PREC + 5))
    while True:
        term = -term * x2
        n += 2
        t = term / n
        s += t
        if abs(t) < eps * max(abs(s), Decimal(10) ** -300):
            return s


def atan(x: Decimal) -> Decimal:
    if x < 0:
        return -atan(-x)
    if x > 1:
        return PI / 2 - atan(1 / x)
    k = 0
    while x > Decimal('0.05'):
        x = x / (1 + (1 + x * x).sqrt())
        k += 1
    return _atan_small(x) * (2 ** k)


def atan2(y: Decimal, x: Decimal) -> Decimal:
    if x > 0:
        return atan(y / x)
    if x < 0:
        return (PI if y >= 0 else -PI) + atan(y / x)
    if y > 0:
        return PI / 2
    if y < 0:
        return -PI / 2
    return Decimal(0)


class V:
    """3-vector of Decimals"""
    __slots__ = ('x', 'y', 'z')

    def __init__(self, x, y, z):
        self.x, self.y, self.z = D(x), D(y), D(z)

    @staticmethod
    def of(seq):
        return V(seq[0], seq[1], seq[2])

    def __add__(self, o):
        return V(self.x + o.x, self.y + o.y, self.z + o.z)

    def __sub__(self, o):
        return V(self.x - o.x, self.y - o.y, self.z - o.z)

    def __neg__(self):
        return V(-self.x, -self.y, -self.z)

    def scale(self, c):
        c = D(c)
        return V(self.x * c, self.y * c, self.z * c)

    def dot(self, o) -> Decimal:
        return self.x * o.x + self.y * o.y + self.z * o.z

    def cross(self, o):
        return V(self.y * o.z - self.z * o.y, self.z * o.x - self.x * o.z, self.x * o.y - self.y * o.x)

    def norm(self) -> Decimal:
        return self.dot(self).sqrt()

    def unit(self):
        return self.scale(1 / self.norm())


def angle(a: V, b: V) -> Decimal:
    """Euclidean angle between two vectors, well conditioned everywhere: atan2(|a×b|, a·b)"""
    return atan2(a.cross(b).norm(), a.dot(b))


def ulp(x: float) -> float:
    import math

    return math.ulp(x)


def fmt(d, n: int = 22) -> str:
    """decimal → scientific text with n significant digits"""
    return f'{D(d):.{n - 1}E}'
