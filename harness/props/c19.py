"""C19 — plateau finding and in-phase filtering return exactly the defined selections."""
from __future__ import annotations

import json
import math
import os
import re
import struct
from fractions import Fraction

import numpy as np

PROP = 'C19'
LEAN_TARGETS = ['ScnVerif.Props.C19']
PROPS_FILE = 'ScnVerif/Props/C19.lean'
TRANSLATORS = []
RULE = (
    'series of 2..500 points: coordinate kind float64 / int64 / datetime64 (s, ms, ns), non-uniform ascending steps '
    '(log-uniform, small dyadic, occasionally repeated coordinates), data = piecewise levels + noise + drift ramps, '
    'with a "tie" mode that builds successive slopes exactly equal to the tolerance and its floating-point '
    'neighbours, and an "exact-tie" stream of dyadic series (float / int / datetime coordinates) whose slopes are '
    'exactly +-atol, 0, atol/2 or 2..3 atol with no rounding anywhere (the oracle decides exact ties: not a split); '
    'the dimension coordinate and the further numeric coordinates are stored in 64 or 32 bits (float32 / int32: differences, '
    'min / max and the successor are taken in the coordinate\'s own precision); about half of the series carry 0-3 further per-point coordinates (float / int / datetime / string), 0-2 masks, '
    'variances on the data and an unrelated 0-d coordinate (the further coordinates are random, descending, constant, '
    'few-valued with repeated extremes, noisy or zig-zag along the series, i.e. not ascending inside a plateau; '
    'collapse_plateaus is run with coord= the dimension coordinate and each of them), and every bin is compared in full (value, variance, every '
    'coordinate, every mask) with the input slice; min_n_points 1..n (+ n+1), int or Variable; a malformed stream of unsorted coordinates. In-phase: '
    'data and reference dtype independent in {float64, float32, int64, int32} (both integer included, inexact integer '
    'multiples / divisors inside and outside rtol), frequencies of either sign, 0, multiples / divisors n and n*(1 +- rtol) with exact ties, reference of either sign and 0. '
    'A case is distinct by its full input bit pattern; it is non-trivial when the slope list contains both a slope within '
    'and a slope above the tolerance (plateaus) or both a kept and a dropped element (in-phase).'
)
ASSUMPTIONS = [
    'scipp: bins.mean skips points masked by any mask; value = seq-sum * (1/k), variance = seq-sum(var) * (1/k) * (1/k) over the k '
    'unmasked points (NaN for k = 0); coordinate min/max of a bin ignore masks — mirrored and compared bit for bit',
    'scipp: sc.mean / bins.mean is the left-to-right sum from 0 times 1/n; group() on a non-decreasing int64 label '
    'makes one bin per run of equal labels in label order; issorted(ascending) is non-strict; sc.round is '
    'round-half-even — mirrored in the model and compared bit for bit on every run',
    'x < next(x) for float64 coordinates (np.nextafter) is a hypothesis of collapse_interval_contains; proved for '
    'integer / datetime ticks (next = +1); validated by the oracle for floats',
    'integer coordinates and their differences stay below 2^53 (exactly convertible to float64)',
    'atol is given in the unit of the derivative (no unit conversion inside find_plateaus)',
]
TRUSTED = [
    'modelled, not verified: scippneutron.chopper.filtering (find_plateaus, _derive, _check_total_tolerance, '
    'collapse_plateaus, _next_highest, _is_approximate_multiple, filter_in_phase) transcribed into Model/Filtering.lean',
    'Lean Float arithmetic (+ - * / floor, comparisons) is IEEE binary64 as in numpy/scipp',
]
LEVEL_TEXT = (
    'Lean 4 theorems (induction over the slope list, for every series length): the bins returned by the model of '
    'find_plateaus are exactly, in order, the maximal index intervals without an exceeding slope inside, bounded by '
    'exceeding slopes or the ends, of length >= min_n_points; they are disjoint, in input order, none is missing, '
    'each holds the input points of its interval; the group-id formulation (cumulative count) and the run formulation '
    'coincide; collapsing gives sum/n and an interval [min, next(max)) containing every point (any carrier with '
    'x < next x; proved for integers); in-phase filtering keeps x iff x/ref or ref/x is within rtol of an integer '
    '(over the reals, rtol <= 1/2), and keeps exactly those elements in order. The model is executed at IEEE '
    'binary64 and compared bit for bit with the implementation (bins, contents, collapsed values, edges, kept '
    'indices, RuntimeError / CoordError) on seeded series including slopes exactly at the tolerance.'
)
LEVEL_NOTE = (
    'Trusted: Lean kernel, the hand transcription of filtering.py (tied by the bit-exact correspondence), scipp '
    'engine facts listed under assumptions (mean = seq-sum * 1/n, group on monotone labels).'
)
TECHNIQUE = 'Lean 4 proof (induction over slope lists; reals for the in-phase predicate) + bit-exact model/implementation correspondence'


# ---------------------------------------------------------------------------------------------
def bits(x: float) -> str:
    return struct.pack('>d', float(x)).hex()


def unbits(h: str) -> float:
    if h == 'nan':
        return float('nan')
    return struct.unpack('>d', bytes.fromhex(h))[0]


def _err(e: Exception) -> str:
    import scipp as sc

    if isinstance(e, RuntimeError) and not isinstance(e, NotImplementedError):
        # scipp errors derive from RuntimeError: test them first
        if isinstance(e, sc.CoordError):
            return 'err:coord'
        if isinstance(e, sc.DimensionError):
            return 'err:dimension'
        if isinstance(e, sc.UnitError):
            return 'err:unit'
        if isinstance(e, (sc.DTypeError, sc.VariableError, sc.VariancesError, sc.BinEdgeError)):
            return 'err:other:' + type(e).__name__
        return 'err:runtime'
    if isinstance(e, NotImplementedError):
        return 'err:notimpl'
    if isinstance(e, ValueError):
        return 'err:value'
    return 'err:other:' + type(e).__name__



def _report(ctx, key, what, witness, per_key=4):
    """Record at most `per_key` witnesses per violation class, so that a frequent (e.g. known) class cannot
    fill the framework's witness buffer and hide a different class; the rest is only counted."""
    seen = ctx.__dict__.setdefault('_per_key', {}) if hasattr(ctx, '__dict__') else {}
    seen[key] = seen.get(key, 0) + 1
    if seen[key] <= per_key:
        ctx.violation(key, what, witness)
    else:
        ctx.count('violation-more:' + key)


# ---- generators ------------------------------------------------------------------------------

DT_UNITS = ['s', 'ms', 'ns']


def gen_series(rng, max_n):
    """One plateau case: dict with kind, unit, x (list of float or int), y (list of float), atol, minn, minn_var."""
    r = rng.random()
    if r < 0.35:
        n = rng.randint(2, 12)
    elif r < 0.85:
        n = rng.randint(2, min(80, max_n))
    else:
        n = rng.randint(2, max_n)
    kind = rng.choice(['float', 'float', 'int', 'datetime'])
    mode = rng.choice(['noise', 'noise', 'tie', 'tie', 'drift'])
    unit = rng.choice(DT_UNITS)
    # coordinate steps
    if kind == 'float':
        style = rng.choice(['log', 'dyadic', 'dup'])
        steps = []
        for _ in range(n - 1):
            if style == 'log':
                steps.append(math.exp(rng.uniform(math.log(1e-3), math.log(1e3))))
            elif style == 'dyadic':
                steps.append(rng.choice([0.25, 0.5, 1.0, 2.0, 3.0, 4.0, 1.5]))
            else:
                steps.append(rng.choice([0.0, 0.5, 1.0, 2.0]))
        x0 = rng.choice([0.0, -3.5, 1000.0, rng.uniform(-10, 10)])
        x = [x0]
        for s in steps:
            x.append(x[-1] + s)
    else:
        scale = rng.choice([1, 1, 7, 1000, 10**6])
        lo = 0 if rng.random() < 0.1 else 1
        steps = [rng.randint(lo, 5) * scale for _ in range(n - 1)]
        x0 = rng.choice([0, -5, 1_600_000_000, 17])
        x = [x0]
        for s in steps:
            x.append(x[-1] + s)
    # tolerance
    if mode == 'tie':
        atol = rng.choice([0.25, 0.5, 1.0, 0.125, 3.0, 0.1, 1e-3])
    else:
        atol = math.exp(rng.uniform(math.log(1e-4), math.log(1e2)))
    # data
    y = [rng.choice([0.0, 1.0, -2.0, 14.0, rng.uniform(-50, 50)])]
    level_noise = atol * rng.choice([0.0, 0.01, 0.3, 0.6])
    for i in range(n - 1):
        dx = float(x[i + 1] - x[i])
        u = rng.random()
        if mode == 'noise':
            if u < 0.18:
                dy = rng.choice([-1, 1]) * atol * max(dx, 1e-3) * math.exp(rng.uniform(math.log(1.5), math.log(200)))
            else:
                dy = rng.gauss(0, 1) * level_noise * min(dx, 1.0) if level_noise else 0.0
        elif mode == 'drift':
            if u < 0.1:
                dy = rng.choice([-1, 1]) * atol * max(dx, 1e-3) * rng.uniform(2, 50)
            elif u < 0.6:
                dy = rng.choice([0.9, 0.7, -0.9, 0.5, 0.3]) * atol * dx
            else:
                dy = 0.0
        else:  # tie
            c = rng.choice([0.0, 1.0, 1.0, -1.0, 1.0, 2.0, 0.5, -0.5, 1.0 + 2.0**-40, 1.0 - 2.0**-40, 3.0, -7.0])
            dy = c * atol * dx
        yn = y[-1] + dy
        if mode == 'tie' and rng.random() < 0.3 and math.isfinite(yn):
            for _ in range(rng.randint(1, 2)):
                yn = float(np.nextafter(yn, rng.choice([-math.inf, math.inf])))
        y.append(yn)
    ydtype = 'float64'
    if mode != 'tie' and rng.random() < 0.08:
        y = [float(round(v)) for v in y]
        ydtype = 'int64'
    u = rng.random()
    if u < 0.55:
        minn = rng.randint(1, min(n, 6))
    elif u < 0.9:
        minn = rng.randint(1, n)
    else:
        minn = rng.choice([n, n + 1, 1])
    case = dict(kind=kind, unit=unit, x=x, y=y, atol=atol, minn=minn, minn_var=rng.random() < 0.2, mode=mode,
                ydtype=ydtype)
    if rng.random() < 0.04 and n >= 3:  # malformed: unsorted coordinate
        i = rng.randrange(1, n)
        x2 = list(x)
        x2[i], x2[i - 1] = x2[i - 1], x2[i]
        case['x'] = x2
        case['mode'] = 'unsorted'
    return case


def gen_exact_tie(rng):
    """series built from dyadic numbers only, so that every difference and quotient is exact: a large share of the
    slopes is exactly +-atol (must NOT split a plateau), the rest 0, atol/2 (within) or 2..3 atol (exceeding).
    Tie steps zig-zag around the current level so that the total-drift guard rarely fires."""
    kind = rng.choice(['float', 'int', 'datetime'])
    unit = rng.choice(DT_UNITS)
    n = rng.randint(2, 40) if rng.random() < 0.9 else rng.randint(41, 300)
    atol = rng.choice([0.5, 0.25, 1.0, 2.0, 0.125])
    const_dx = rng.random() < 0.6
    if kind == 'float':
        pool = [0.25, 0.5, 1.0, 2.0, 4.0]
        x0 = rng.choice([0.0, -3.5, 1024.0, 0.75])
    else:
        scale = rng.choice([1, 1, 1000])
        pool = [1 * scale, 2 * scale, 4 * scale, 8 * scale]
        x0 = rng.choice([0, -5, 1_600_000_000, 17])
    d0 = rng.choice(pool)
    x = [x0]
    y = [rng.choice([0.0, 1.0, -2.0, 14.0, 0.5])]
    level = y[0]
    for _ in range(n - 1):
        dx = d0 if const_dx else rng.choice(pool)
        u = rng.random()
        if u < 0.45:
            sgn = -1.0 if y[-1] > level else (1.0 if y[-1] < level else rng.choice([-1.0, 1.0]))
            c = sgn
        elif u < 0.65:
            c = 0.0
        elif u < 0.8:
            c = rng.choice([0.5, -0.5])
        else:
            c = rng.choice([2.0, -2.0, 3.0, -3.0])
        yn = y[-1] + c * atol * float(dx)
        if abs(c) > 1:
            level = yn
        x.append(x[-1] + dx)
        y.append(yn)
    minn = rng.choice([1, 1, 2, 2, 3, rng.randint(1, n)])
    return dict(kind=kind, unit=unit, x=x, y=y, atol=atol, minn=minn, minn_var=rng.random() < 0.2, mode='exact-tie',
                ydtype='float64')


EXTRA_NAMES = ['phase', 'pulse', 'label', 'stamp', 'temperature']


def decorate(rng, c):
    """Give the series what real chopper logs carry besides the dimension coordinate: 0-3 further per-point
    coordinates (float / int / datetime / string), 0-2 masks, variances on the data, an unrelated 0-d coordinate.
    JSON-able: floats as bit patterns."""
    n = len(c['y'])
    extras = []
    for name in rng.sample(EXTRA_NAMES, rng.randint(0, 3)):
        kind = rng.choice(['float', 'int', 'datetime', 'string'])
        # shape of a numeric coordinate along the series: it need not be ascending inside a plateau
        style = rng.choice(['random', 'descending', 'constant', 'few-values', 'noisy-ascending', 'zigzag'])
        if kind in ('float', 'int', 'datetime'):
            if style == 'random':
                raw = [rng.randint(-3, 1000) for _ in range(n)]
            elif style == 'descending':
                raw = [5 * (n - i) + rng.choice([0, 0, 1]) for i in range(n)]
            elif style == 'constant':
                raw = [rng.randint(-3, 50)] * n
            elif style == 'few-values':      # repeated extremes inside a plateau
                pool = rng.sample(range(-3, 40), 3)
                raw = [rng.choice(pool) for _ in range(n)]
            elif style == 'noisy-ascending':
                raw = [3 * i + rng.randint(-5, 5) for i in range(n)]
            else:
                raw = [(i % 2) * 10 - i for i in range(n)]
        if kind == 'float':
            sc_ = rng.choice([1.0, 0.5, 0.1, 1e-3])
            vals = [bits(rng.choice([0.0, -0.0]) if v == 0 and rng.random() < 0.5 else v * sc_) for v in raw]
        elif kind == 'int':
            vals = list(raw)
        elif kind == 'datetime':
            vals = [10**6 + v for v in raw]
        else:
            vals = [rng.choice(['', 'a', 'open', 'closed', 'x y', 'é']) for _ in range(n)]
        extras.append({'name': name, 'kind': kind, 'values': vals})
    masks = []
    for name in rng.sample(['bad', 'm2'], rng.randint(0, 2)):
        pm = rng.choice([0.0, 0.2, 0.5, 1.0])
        masks.append({'name': name, 'values': [1 if rng.random() < pm else 0 for _ in range(n)]})
    variances = None
    if c.get('ydtype', 'float64') == 'float64' and rng.random() < 0.5:
        variances = [bits(rng.choice([0.0, 1.0, 0.25, rng.uniform(0, 4)])) for _ in range(n)]
    scalar = {'name': 'run', 'value': rng.randint(0, 99999)} if rng.random() < 0.5 else None
    c['deco'] = {'extras': extras, 'masks': masks, 'variances': variances, 'scalar': scalar}
    return c


def _tok(parts):
    import hashlib

    return hashlib.blake2b('|'.join(parts).encode(), digest_size=8).hexdigest()


def _canon_values(var):
    """canonical per-element strings of a 1-d scipp variable, tagged with its dtype"""
    import scipp as sc

    dt = str(var.dtype)
    if dt == 'float64':
        return ['f:' + bits(v) for v in var.values]
    if dt == 'float32':
        return ['f32:' + repr(float(v)) for v in var.values]
    if dt in ('int64', 'int32'):
        return ['i:' + str(int(v)) for v in var.values]
    if dt == 'datetime64':
        return ['d:' + str(int(v)) for v in var.values.astype('int64')]
    if dt == 'string':
        return ['s:' + str(v).encode().hex() for v in var.values]
    if dt == 'bool':
        return ['b:' + str(int(bool(v))) for v in var.values]
    return [dt + ':' + repr(v) for v in var.values]


def _record_tokens(da):
    """one token per point of a 1-d data array: value, variance, every coordinate, every mask (names sorted).
    Also the signature (which coordinates / masks / variances exist)."""
    n = da.sizes[da.dim]
    cols = [['y=' + v for v in _canon_values(da.data)]]
    if da.variances is not None:
        cols.append(['v=' + bits(v) for v in da.variances])
    else:
        cols.append(['v=-'] * n)
    cnames = sorted(k for k in da.coords if da.coords[k].ndim == 1)
    for k in cnames:
        cols.append([f'c.{k}=' + v for v in _canon_values(da.coords[k])])
    mnames = sorted(da.masks)
    for k in mnames:
        cols.append([f'm.{k}=' + v for v in _canon_values(da.masks[k])])
    toks = [_tok([col[i] for col in cols]) for i in range(n)]
    sig = {'coords': cnames, 'masks': mnames, 'variances': da.variances is not None}
    return toks, sig


def _scalar_coords(da):
    return sorted((k, _canon_values(da.coords[k].flatten(to='_'))[0] if da.coords[k].ndim == 0 else '?')
                  for k in da.coords if da.coords[k].ndim == 0)


def _masked_union(c):
    n = len(c['y'])
    d = c.get('deco')
    if not d:
        return [0] * n
    return [1 if any(m['values'][i] for m in d['masks']) else 0 for i in range(n)]


def narrow(rng, c):
    """store the dimension coordinate and some of the further coordinates in 32 bits (float32 / int32)"""
    if c['kind'] == 'float' and rng.random() < 0.3 and c.get('ydtype', 'float64') == 'float64':
        # (integer data over a float32 coordinate would make the slopes themselves single precision: out of scope)
        c['xdtype'] = 'float32'
        c['x'] = [float(np.float32(v)) for v in c['x']]
    elif c['kind'] == 'int' and rng.random() < 0.3 and all(abs(int(v)) < 2**31 - 1 for v in c['x']):
        c['xdtype'] = 'int32'
    for e in (c.get('deco') or {}).get('extras', []):
        if e['kind'] == 'float' and rng.random() < 0.4:
            e['kind'] = 'float32'
            e['values'] = [bits(float(np.float32(unbits(h)))) for h in e['values']]
        elif e['kind'] == 'int' and rng.random() < 0.4:
            e['kind'] = 'int32'
    return c


def make_da(c):
    import scipp as sc

    y = np.array(c['y'], dtype=c.get('ydtype', 'float64'))
    data = sc.array(dims=['time'], values=y, unit='Hz')
    if c['kind'] == 'float':
        coord = sc.array(dims=['time'], values=np.array(c['x'], dtype=c.get('xdtype', 'float64')), unit='s')
        aunit = 'Hz/s'
    elif c['kind'] == 'int':
        coord = sc.array(dims=['time'], values=np.array(c['x'], dtype=c.get('xdtype', 'int64')), unit=c['unit'])
        aunit = f"Hz/{c['unit']}"
    else:
        coord = sc.epoch(unit=c['unit']) + sc.array(dims=['time'], values=np.array(c['x'], dtype='int64'), unit=c['unit'])
        aunit = f"Hz/{c['unit']}"
    d = c.get('deco')
    if d and d['variances'] is not None:
        data = sc.array(dims=['time'], values=y, variances=np.array([unbits(h) for h in d['variances']]), unit='Hz')
    da = sc.DataArray(data, coords={'time': coord})
    if d:
        for e in d['extras']:
            if e['kind'] in ('float', 'float32'):
                v = sc.array(dims=['time'], values=np.array([unbits(h) for h in e['values']],
                                                            dtype='float32' if e['kind'] == 'float32' else 'float64'), unit='deg')
            elif e['kind'] in ('int', 'int32'):
                v = sc.array(dims=['time'], values=np.array(e['values'], dtype='int32' if e['kind'] == 'int32' else 'int64'), unit=None)
            elif e['kind'] == 'datetime':
                v = sc.epoch(unit='us') + sc.array(dims=['time'], values=np.array(e['values'], dtype='int64'), unit='us')
            else:
                v = sc.array(dims=['time'], values=list(e['values']))
            da.coords[e['name']] = v
        for m in d['masks']:
            da.masks[m['name']] = sc.array(dims=['time'], values=np.array(m['values'], dtype=bool))
        if d['scalar'] is not None:
            da.coords[d['scalar']['name']] = sc.scalar(d['scalar']['value'])
    atol = sc.scalar(c['atol'], unit=aunit)
    minn = sc.index(c['minn']) if c['minn_var'] else c['minn']
    return da, atol, minn


def _coord_raw(var, kind):
    """coordinate values as python floats (bit-compared) or ints (datetime: ticks since epoch)"""
    if kind == 'float':
        return [bits(v) for v in var.values]
    if kind == 'int':
        return [int(v) for v in var.values]
    return [int(v) for v in var.values.astype('int64')]


def run_impl(c):
    """canonical result of find_plateaus + collapse_plateaus on the real code"""
    from scippneutron.chopper import filtering as F

    da, atol, minn = make_da(c)
    try:
        r = F.find_plateaus(da, atol=atol, min_n_points=minn)
    except Exception as e:  # noqa: BLE001
        return (_err(e),)
    cons = r.bins.constituents
    begin = [int(v) for v in cons['begin'].values]
    end = [int(v) for v in cons['end'].values]
    buf = cons['data']
    yb = buf.data.values
    xb = _coord_raw(buf.coords['time'], c['kind'])
    bins = []
    btoks, sig = _record_tokens(buf)
    bins_tok = []
    for b, e in zip(begin, end):
        bins.append((tuple(xb[b:e]), tuple(bits(float(v)) for v in yb[b:e])))
        bins_tok.append(tuple(btoks[b:e]))
    extra = (list(r.dims), [int(v) for v in r.coords['plateau'].values] if 'plateau' in r.coords else None,
             str(buf.data.unit), str(buf.data.dtype), _scalar_coords(r), sorted(r.masks))
    try:
        col = F.collapse_plateaus(r, coord='time')
        vals = [bits(v) for v in col.data.values]
        edges = col.coords['time']
        if c['kind'] == 'float':
            ev = [(bits(a), bits(b)) for a, b in edges.values.reshape(-1, 2)]
        else:
            ev = [(int(a), int(b)) for a, b in edges.values.astype('int64').reshape(-1, 2)]
        cvars = None if col.data.variances is None else [('nan' if math.isnan(v) else bits(v)) for v in col.data.variances]
        collapsed = ('ok', vals, ev, list(col.dims), list(edges.dims), cvars, _scalar_coords(col))
    except Exception as e:  # noqa: BLE001
        collapsed = (_err(e),)
    other = {}
    for e in (c.get('deco') or {}).get('extras', []):
        try:
            col = F.collapse_plateaus(r, coord=e['name'])
            edges = col.coords[e['name']]
            if str(edges.dtype) != {'float': 'float64', 'float32': 'float32', 'int': 'int64', 'int32': 'int32',
                                    'datetime': 'datetime64'}.get(e['kind'], str(edges.dtype)):
                other[e['name']] = ('dtype', str(edges.dtype))
            elif e['kind'] in ('float', 'float32'):
                other[e['name']] = [(bits(float(a) + 0.0), bits(float(b))) for a, b in edges.values.reshape(-1, 2)]
            elif e['kind'] in ('int', 'int32', 'datetime'):
                other[e['name']] = [(int(a), int(b)) for a, b in edges.values.astype('int64').reshape(-1, 2)]
            else:
                other[e['name']] = 'returned'
            if list(edges.dims) != ['plateau', e['name']]:
                other[e['name']] = ('dims', list(edges.dims))
        except Exception as ex:  # noqa: BLE001
            other[e['name']] = 'err' if e['kind'] == 'string' else _err(ex)
    return ('ok', bins, extra, collapsed, bins_tok, sig, other)


def line_for(c, op='c19.plateaus'):
    k = 'f' if c['kind'] == 'float' else 'i'
    xs = [bits(v) for v in c['x']] if k == 'f' else [str(int(v)) for v in c['x']]
    if c.get('xdtype') == 'float32':
        k = 'g'
        xs = [f32bits(v) for v in c['x']]
    ys = [bits(v) for v in c['y']]
    n = len(c['y'])
    if op == 'c19.plateaus':
        head = f"c19.plateaus {k} {c['minn']} {bits(c['atol'])} {n}"
    elif op == 'c19.contents':
        toks, _ = _record_tokens(make_da(c)[0])
        return f"c19.contents {k} {c['minn']} {bits(c['atol'])} {n} " + ' '.join(xs) + ' ' + ' '.join(ys) + ' ' + ' '.join(toks)
    elif op.startswith('c19.interval:'):
        e = next(x for x in c['deco']['extras'] if x['name'] == op.split(':', 1)[1])
        if e['kind'] == 'float':
            ek, es = 'f', e['values']
        elif e['kind'] == 'float32':
            ek, es = 'g', [f32bits(unbits(h)) for h in e['values']]
        else:
            ek, es = 'i', [str(int(v)) for v in e['values']]
        return (f"c19.interval {k} {c['minn']} {bits(c['atol'])} {n} " + ' '.join(xs) + ' ' + ' '.join(ys) + ' '
                + ek + ' ' + ' '.join(es))
    elif op == 'c19.collapsem':
        d = c.get('deco') or {}
        vs = d.get('variances') or [bits(0.0)] * n
        ms = [str(v) for v in _masked_union(c)]
        return (f"c19.collapsem {k} {c['minn']} {bits(c['atol'])} {n} " + ' '.join(xs) + ' ' + ' '.join(ys) + ' ' + ' '.join(vs)
                + ' ' + ' '.join(ms))
    elif op == 'c19.slopes':
        head = f'c19.slopes {k} {n}'
    else:
        head = f"c19.groupids {bits(c['atol'])} {k} {n}"
    return head + ' ' + ' '.join(xs) + ' ' + ' '.join(ys)


def model_result(c, out, out_contents=None, out_col=None, out_int=None):
    """canonical result from the driver lines, in the same shape as run_impl. For decorated series the bin contents
    come from the model's `binContents` over the opaque per-point records (`c19.contents`) and the collapsed value /
    variance from `collapseMasked`; for plain series from the index ranges."""
    if out.startswith('err:runtime'):
        return ('err:runtime',)
    if out.startswith('err:'):
        return (out,)
    if not out.startswith('ok'):
        return ('bad:' + out,)
    items = out.split()[1:]
    xs = [bits(v) for v in c['x']] if c['kind'] == 'float' else [int(v) for v in c['x']]
    ys = [bits(v) for v in c['y']]
    in_toks, in_sig = _record_tokens(make_da(c)[0])
    d = c.get('deco')
    bins, vals, ev, bins_tok = [], [], [], []
    for it in items:
        s, l, m, lo, hi = it.split(':')
        s, l = int(s), int(l)
        bins.append((tuple(xs[s:s + l]), tuple(ys[s:s + l])))
        bins_tok.append(tuple(in_toks[s:s + l]))
        vals.append('nan' if m == 'nan' else m)
        ev.append((lo, hi) if c['kind'] == 'float' else (int(lo), int(hi)))
    cvars = None
    if d is not None:
        if out_contents is None or not out_contents.startswith('ok') or out_col is None or not out_col.startswith('ok'):
            return ('bad:' + str(out_contents)[:80] + '/' + str(out_col)[:80],)
        bins_tok = [tuple(t.split(',')) for t in out_contents.split()[1:]]
        mv = [t.split(':') for t in out_col.split()[1:]]
        vals = [a for a, _ in mv]
        if d['variances'] is not None:
            cvars = [b for _, b in mv]
    scal = sorted([(d['scalar']['name'], 'i:' + str(d['scalar']['value']))]) if d and d['scalar'] else []
    extra = (['plateau'], list(range(len(bins))), 'Hz', 'float64' if c.get('ydtype', 'float64') == 'float64' else 'int64',
             scal, [])
    other = {}
    for e in (d or {}).get('extras', []):
        if e['kind'] == 'string':
            other[e['name']] = 'err'      # _next_highest has no successor for strings: collapse_plateaus raises
            continue
        o = (out_int or {}).get(e['name'], 'missing')
        if not o.startswith('ok'):
            other[e['name']] = 'bad:' + o[:60]
        elif e['kind'] in ('float', 'float32'):
            other[e['name']] = [(bits(unbits(t.split(':')[0]) + 0.0), t.split(':')[1]) for t in o.split()[1:]]
        else:
            other[e['name']] = [(int(t.split(':')[0]), int(t.split(':')[1])) for t in o.split()[1:]]
    return ('ok', bins, extra, ('ok', vals, ev, ['plateau'], ['plateau', 'time'], cvars, scal), bins_tok, in_sig, other)


def _norm_impl(res):
    """NaN collapsed means are written 'nan' by the driver"""
    if res[0] != 'ok' or res[3][0] != 'ok':
        return res
    vals = ['nan' if math.isnan(unbits(v)) else v for v in res[3][1]]
    return (res[0], res[1], res[2], ('ok', vals, *res[3][2:]), *res[4:])


def impl_slopes(c):
    from scippneutron.chopper import filtering as F

    da, _, _ = make_da(c)
    with np.errstate(all='ignore'):
        d = F._derive(da)
    return [('nan' if math.isnan(v) else bits(v)) for v in d.values]


# ---- in-phase --------------------------------------------------------------------------------

def gen_inphase(rng):
    ref = rng.choice([14.0, 14.0, -14.0, 1.0, 50.0, 0.1, 60.0, 0.0, 3.0, 1e-3])
    rtol = rng.choice([1e-2, 1e-3, 1e-8, 0.25, 0.5, 2.0**-10, 0.1])
    n = rng.randint(1, 40)
    xs = []
    for _ in range(n):
        u = rng.random()
        k = rng.choice([1, 1, 2, 3, 4, 5, 8, 10, 100])
        if u < 0.08:
            v = 0.0
        elif u < 0.3:
            v = ref * k
        elif u < 0.45:
            v = ref / k
        elif u < 0.7:
            sgn = rng.choice([-1, 1])
            f = rng.choice([1.0, 0.999, 1.001, 0.5, 2.0, 1.0 + 2.0**-30])
            m = k + sgn * rtol * f
            v = ref * m if (rng.random() < 0.5 or m == 0) else ref / m
        elif u < 0.8:
            v = ref * (k + 0.5)
        else:
            v = rng.uniform(-5, 5) * (abs(ref) if ref else 1.0)
        if rng.random() < 0.25:
            v = -v
        if rng.random() < 0.15 and math.isfinite(v):
            v = float(np.nextafter(v, rng.choice([-math.inf, math.inf])))
        xs.append(float(v))
    # dtype of the data and of the reference are independent
    xdtype = rng.choice(IP_DTYPES)
    rdtype = rng.choice(IP_DTYPES)
    if rng.random() < 0.3:
        # integer-valued series: inexact multiples / divisors of the reference inside and outside rtol
        ref = float(rng.choice([14, 14, 10, 60, 3, -14, 7, 100]))
        rtol = rng.choice([0.1, 0.05, 0.25, 0.01, 0.2])
        xs = []
        for _ in range(n):
            k = rng.choice([1, 2, 3, 4, 5, 8])
            base = ref * k if rng.random() < 0.7 else float(int(ref / k))
            xs.append(float(base + rng.choice([0, 0, 1, -1, 2, -2, 3, -3, 5])) * rng.choice([1, 1, 1, -1]))
        if rng.random() < 0.5:
            xdtype = rng.choice(['int64', 'int32', 'int64'])
            rdtype = rng.choice(['int64', 'int32', 'int64', 'float64'])
    return _cast_inphase(dict(ref=float(ref), rtol=float(rtol), xs=xs, xdtype=xdtype, rdtype=rdtype))


IP_DTYPES = ['float64', 'float64', 'float32', 'int64', 'int32']


def _cast_value(v, dtype):
    if dtype in ('int64', 'int32'):
        if not math.isfinite(v):
            return 0.0
        return float(max(-2**30, min(2**30, round(v))))
    if dtype == 'float32':
        return float(np.float32(v))
    return float(v)


def _cast_inphase(c):
    """store the numbers the typed scipp variables will hold (as python floats: all are exact)"""
    c['xs'] = [_cast_value(v, c['xdtype']) for v in c['xs']]
    c['ref'] = _cast_value(c['ref'], c['rdtype'])
    return c


def _quot_is_f32(c):
    """dtype of `x / ref` in scipp: single precision iff no operand is float64 / both-integer"""
    xd, rd = c.get('xdtype', 'float64'), c.get('rdtype', 'float64')
    if xd == 'float32':
        return rd != 'float64'
    return xd in ('int64', 'int32') and rd == 'float32'


def f32bits(x: float) -> str:
    return struct.pack('>f', float(x)).hex()


def inphase_line(c):
    if _quot_is_f32(c):
        return 'c19.inphase32 ' + f32bits(c['ref']) + ' ' + bits(c['rtol']) + ' ' + ' '.join(f32bits(v) for v in c['xs'])
    return 'c19.inphase ' + bits(c['ref']) + ' ' + bits(c['rtol']) + ' ' + ' '.join(bits(v) for v in c['xs'])


def impl_inphase(c):
    import scipp as sc
    from scippneutron.chopper import filtering as F

    xd = c.get('xdtype', 'int64' if c.get('intdata') else 'float64')
    vals = np.array(c['xs'], dtype=xd)
    idx = sc.arange('time', len(vals), unit=None)
    da = sc.DataArray(sc.array(dims=['time'], values=vals, unit='Hz'), coords={'time': idx})
    try:
        with np.errstate(all='ignore'):
            rd = c.get('rdtype', 'float64')
            ref = sc.scalar(int(c['ref']) if rd.startswith('int') else c['ref'], unit='Hz', dtype=rd)
            r = F.filter_in_phase(da, reference=ref, rtol=sc.scalar(c['rtol']))
    except Exception as e:  # noqa: BLE001
        return _err(e)
    kept = [int(v) for v in r.coords['time'].values]
    # the values must be the ones at those indices
    same = [bits(float(a)) for a in r.data.values] == [bits(float(vals[i])) for i in kept]
    return ('ok', kept, same)


# ---- corpus ----------------------------------------------------------------------------------

def _corpus(ctx):
    d = os.path.join(os.path.dirname(os.path.dirname(os.path.dirname(os.path.abspath(__file__)))), 'corpus', PROP)
    out = []
    if os.path.isdir(d):
        for fn in sorted(os.listdir(d)):
            if fn.endswith('.json'):
                with open(os.path.join(d, fn)) as f:
                    out.append(json.load(f))
    return out


def _decode_case(j):
    c = dict(j)
    if c['kind'] == 'float':
        c['x'] = [unbits(h) for h in c['x']]
    c['y'] = [unbits(h) for h in c['y']]
    c['atol'] = unbits(c['atol'])
    return c


def _encode_case(c):
    j = dict(c)
    if c['kind'] == 'float':
        j['x'] = [bits(v) for v in c['x']]
    j['y'] = [bits(v) for v in c['y']]
    j['atol'] = bits(c['atol'])
    return j


# ---- correspondence --------------------------------------------------------------------------

def correspond(ctx):
    rng = ctx.rng
    cases = [_decode_case(j['case']) for j in _corpus(ctx) if j.get('op') == 'plateaus']
    n_series = ctx.n(700, 40000)
    max_n = 500
    cases += [gen_series(rng, max_n) for _ in range(n_series)]
    cases += [gen_exact_tie(rng) for _ in range(ctx.n(150, 5000))]
    # a few fixed shapes: all-within, all-exceeding, two points
    cases.append(dict(kind='float', unit='s', x=[0.0, 1.0], y=[0.0, 0.0], atol=0.5, minn=1, minn_var=False, mode='fixed', ydtype='float64'))
    cases.append(dict(kind='float', unit='s', x=[0.0, 1.0], y=[0.0, 5.0], atol=0.5, minn=1, minn_var=False, mode='fixed', ydtype='float64'))
    cases.append(dict(kind='int', unit='s', x=list(range(500)), y=[float(i % 7 == 0) * 10 for i in range(500)], atol=0.5, minn=2,
                      minn_var=True, mode='fixed', ydtype='float64'))
    for c in cases:
        if 'deco' not in c and c['mode'] != 'fixed' and rng.random() < 0.5:
            decorate(rng, c)
    for c in cases:
        if c['mode'] not in ('fixed', 'unsorted') and 'xdtype' not in c:
            narrow(rng, c)
    cases.append(decorate(rng, dict(kind='datetime', unit='ms', x=[0, 2, 4, 6, 8, 10], y=[0.0, 0.1, 0.0, 9.0, 9.1, 9.0], atol=1.0, minn=2,
                                    minn_var=False, mode='fixed', ydtype='float64')))
    lines = [line_for(c) for c in cases]
    slope_cases = cases[: ctx.n(250, 10000)]
    lines += [line_for(c, 'c19.slopes') for c in slope_cases]
    deco_idx = [i for i, c in enumerate(cases) if c.get('deco') is not None]
    nbase = len(lines)
    lines += [line_for(cases[i], 'c19.contents') for i in deco_idx]
    lines += [line_for(cases[i], 'c19.collapsem') for i in deco_idx]
    int_idx = [(i, e['name']) for i in deco_idx for e in cases[i]['deco']['extras'] if e['kind'] != 'string']
    nint = len(lines)
    lines += [line_for(cases[i], 'c19.interval:' + nm) for i, nm in int_idx]
    outs = _drive(ctx, lines)
    out_contents = {i: outs[nbase + k] for k, i in enumerate(deco_idx)}
    out_col = {i: outs[nbase + len(deco_idx) + k] for k, i in enumerate(deco_idx)}
    out_int = {}
    for k, (i, nm) in enumerate(int_idx):
        out_int.setdefault(i, {})[nm] = outs[nint + k]
    with np.errstate(all='ignore'):
        for ci, (c, out) in enumerate(zip(cases, outs)):
            impl = _norm_impl(run_impl(c))
            model = model_result(c, out, out_contents.get(ci), out_col.get(ci), out_int.get(ci))
            d = c.get('deco')
            if d is not None and impl[0] == 'ok':
                for e in d['extras']:
                    ctx.count(f"collapse-coord:{e['kind']}:" + ('err' if impl[6].get(e['name']) == 'err' else 'ok'))
            if d is not None:
                ctx.count(f"deco:extras={len(d['extras'])}:masks={len(d['masks'])}:var={int(d['variances'] is not None)}:scalar={int(d['scalar'] is not None)}")
            else:
                ctx.count('deco:none')
            ident = ('pl', c['kind'], c['minn'], bits(c['atol']), tuple(map(str, c['x'])), tuple(bits(v) for v in c['y']),
                     json.dumps(c.get('deco'), sort_keys=True))
            n = len(c['y'])
            nb = len(impl[1]) if impl[0] == 'ok' else -1
            nontrivial = n >= 3 and (impl[0] != 'ok' or 0 < sum(len(b[0]) for b in impl[1]) or nb == 0)
            ctx.case(ident, nontrivial, sample={'op': 'plateaus', 'kind': c['kind'], 'mode': c['mode'], 'n': n, 'minn': c['minn'],
                                                'atol': c['atol'], 'result': impl[0], 'bins': nb})
            ctx.count(f"plateaus:{c['kind']}:{c['mode']}:{impl[0]}")
            ctx.count('size:' + ('2-12' if n <= 12 else '13-80' if n <= 80 else '81-500'))
            if impl[0] == 'ok':
                ctx.count('bins:' + ('0' if nb == 0 else '1' if nb == 1 else '2-5' if nb <= 5 else '6+'))
            if c.get('xdtype'):
                ctx.count('xdtype:' + c['xdtype'])
            if c.get('xdtype') == 'float32' and {impl[0], model[0]} == {'ok', 'err:runtime'} and _guard_at_boundary(
                    c, impl[1] if impl[0] == 'ok' else model[1]):
                ctx.count('float32-guard-at-threshold:not-compared')
                continue
            if impl != model:
                ctx.disagree({'op': 'plateaus', 'case': _encode_case(c)}, _short(impl), _short(model),
                             'find_plateaus/collapse_plateaus differ from the model')
        for c, out in zip(slope_cases, outs[len(cases):len(cases) + len(slope_cases)]):
            if c['mode'] == 'unsorted':
                continue
            impl = impl_slopes(c)
            model = out.split()[1:]
            at = bits(c['atol'])
            ctx.count('slope:eq-atol', sum(1 for s in impl if s != 'nan' and abs(unbits(s)) == c['atol']))
            ctx.count('slope:ulp-neighbour', sum(1 for s in impl if s != 'nan' and c['atol'] != abs(unbits(s)) and
                                                  abs(abs(unbits(s)) - c['atol']) <= 2 * math.ulp(c['atol'])))
            ctx.case(('slopes', at, tuple(map(str, c['x'])), tuple(bits(v) for v in c['y'])), len(impl) > 1)
            if impl != model:
                ctx.disagree({'op': 'slopes', 'case': _encode_case(c)}, impl[:20], model[:20], '_derive differs bitwise from the model')
    # in-phase
    pcs = [j['case'] for j in _corpus(ctx) if j.get('op') == 'inphase']
    pcs += [gen_inphase(rng) for _ in range(ctx.n(1500, 100000))]
    plines = [inphase_line(c) for c in pcs]
    pouts = _drive(ctx, plines, 20000)
    for c, out in zip(pcs, pouts):
        impl = impl_inphase(c)
        kept_m = [int(t) for t in out[3:].split(',') if t] if out.startswith('ok') else out
        model = ('ok', kept_m, True) if out.startswith('ok') else out
        k = len(impl[1]) if isinstance(impl, tuple) else -1
        ctx.case(('inphase', bits(c['ref']), bits(c['rtol']), tuple(bits(v) for v in c['xs'])), 0 < k < len(c['xs']),
                 sample={'op': 'inphase', 'ref': c['ref'], 'rtol': c['rtol'], 'n': len(c['xs']), 'kept': k})
        ctx.count('inphase:' + ('all' if k == len(c['xs']) else 'none' if k == 0 else 'some' if k > 0 else 'error'))
        ctx.count(f"inphase-dtype:{c.get('xdtype', 'float64')}/{c.get('rdtype', 'float64')}")
        if impl != model:
            ctx.disagree({'op': 'inphase', 'case': c}, impl, model, 'filter_in_phase keeps other elements than the model')
    # rint ties
    rl = [v + 0.5 for v in range(-6, 7)] + [0.49999999999999994, -0.49999999999999994, 2.5000000000000004, 1e15 + 0.5, 4503599627370495.5,
                                             -0.0, 0.0, 1e300, -1e300, 0.2, -0.7]
    rl += [rng.uniform(-100, 100) for _ in range(200)]
    routs = ctx.driver(['c19.rint ' + bits(v) for v in rl])
    import scipp as sc

    rimpl = sc.round(sc.array(dims=['x'], values=np.array(rl))).values
    for v, a, b in zip(rl, rimpl, routs):
        ctx.case(('rint', bits(v)), False)
        if bits(a) != b:
            ctx.disagree({'op': 'rint', 'x': v}, bits(a), b, 'sc.round differs from round-half-even model')


def _guard_at_boundary(c, bins):
    """float32 dimension coordinate: scipp's single-precision mean of the steps is only mirrored to ~1e-7, so a
    RuntimeError decision is compared only when (max - min) / mean step is not within 1e-5 of 2 atol"""
    for bx, by in bins:
        if len(by) < 2:
            continue
        ys = [Fraction(unbits(h)) for h in by]
        xs_ = [Fraction(unbits(h)) for h in bx]
        step = (xs_[-1] - xs_[0]) / (len(xs_) - 1)
        if step == 0:
            continue
        ratio = (max(ys) - min(ys)) / step / (2 * Fraction(c['atol']))
        if abs(ratio - 1) < Fraction(1, 10**5):
            return True
    return False


def _drive(ctx, lines, chunk=4000):
    out = []
    for i in range(0, len(lines), chunk):
        out += ctx.driver(lines[i:i + chunk])
    return out


def _short(res):
    s = json.dumps(res, default=str)
    return s if len(s) < 1500 else s[:1500] + '…'


# ---- direct oracle ---------------------------------------------------------------------------

def _frac(v):
    return Fraction(v)


def _exactly_representable(q):
    """is the rational q a binary64 number (so that the floating-point difference computing it is exact)?"""
    try:
        return Fraction(float(q)) == q
    except OverflowError:
        return False


def _slope_flags(c, with_ties=False):
    """3-valued: True = certainly exceeding, False = certainly within, None = too close to the tolerance to
    prescribe (the floating-point slope may fall on either side), from exact rational arithmetic.
    An EXACT tie is decided: when dy/dx equals the tolerance exactly as rationals and both differences are binary64
    numbers, the code's dy and dx are computed without rounding and the correctly rounded quotient is the
    tolerance itself, so "|slope| > atol" is false without any ambiguity: the slope stays within the tolerance.
    with_ties=True also returns the list of positions decided that way."""
    x, y = c['x'], c['y']
    atol = Fraction(c['atol'])
    f32 = c.get('xdtype') == 'float32'     # coordinate differences are rounded to binary32 by the code
    band = Fraction(1, 2**20) if f32 else Fraction(1, 2**48)
    flags = []
    ties = []
    for i in range(len(y) - 1):
        dx = Fraction(x[i + 1]) - Fraction(x[i])
        dy = Fraction(y[i + 1]) - Fraction(y[i])
        if dx == 0:
            flags.append(None if dy == 0 else True)   # 0/0 = NaN: not prescribed
            continue
        s = abs(dy / dx)
        if s > atol * (1 + band):
            flags.append(True)
        elif s < atol * (1 - band):
            flags.append(False)
        elif s == atol and _exactly_representable(dx) and _exactly_representable(dy) and (
                not f32 or Fraction(float(np.float32(float(dx)))) == dx):
            flags.append(False)
            ties.append(i)
        else:
            flags.append(None)
    return (flags, set(ties)) if with_ties else flags


def _locate(bins, xs, ys):
    """map each returned bin (its coordinate/data contents) to an index interval of the input, scanning forward;
    returns list of (i, j) inclusive or None if a bin is not a contiguous slice at or after the previous one."""
    pos = 0
    out = []
    n = len(ys)
    for bx, by in bins:
        l = len(by)
        found = None
        for s in range(pos, n - l + 1):
            if tuple(ys[s:s + l]) == tuple(by) and tuple(xs[s:s + l]) == tuple(bx):
                found = s
                break
        if found is None or l == 0:
            return None
        out.append((found, found + l - 1))
        pos = found + l
    return out


def check_plateaus_property(c, impl):
    """The property statement evaluated on the real output. Returns list of (key, what)."""
    probs = []
    if impl[0] != 'ok':
        return probs   # the property speaks about the cases in which find_plateaus returns
    xs = [bits(v) for v in c['x']] if c['kind'] == 'float' else [int(v) for v in c['x']]
    ys = [bits(v) for v in c['y']]
    n = len(ys)
    bins = impl[1]
    ivs = _locate(bins, xs, ys)
    if ivs is None:
        # either contents changed or order/disjointness broken: distinguish
        allpts = set(zip(xs, ys))
        if any((a, b) not in allpts for bx, by in bins for a, b in zip(bx, by)):
            return [('C19:points-changed', 'a bin holds a point (coordinate, value) that is not an input point')]
        return [('C19:not-disjoint-ordered-slices', 'bins are not disjoint contiguous slices of the input in input order')]
    # every bin holds its points unchanged: value, variance, EVERY coordinate and mask of the input slice
    in_toks, in_sig = _record_tokens(make_da(c)[0])
    out_sig = impl[5]
    missing = ([f'coordinate {k!r}' for k in in_sig['coords'] if k not in out_sig['coords']]
               + [f'mask {k!r}' for k in in_sig['masks'] if k not in out_sig['masks']]
               + (['variances'] if in_sig['variances'] and not out_sig['variances'] else []))
    if missing:
        probs.append(('C19:coords-dropped', 'the plateau bins lack ' + ', '.join(missing) + ' of the input points'))
    else:
        for (i, j), bt in zip(ivs, impl[4]):
            if tuple(in_toks[i:j + 1]) != tuple(bt):
                k = next(t for t in range(j - i + 1) if in_toks[i + t] != bt[t])
                probs.append(('C19:points-changed',
                              f'point {i + k} in bin [{i},{j}] differs from the input point (value, variance, a coordinate or a mask)'))
                break
    flags, ties = _slope_flags(c, with_ties=True)
    minn = c['minn']
    for (i, j) in ivs:
        if j - i + 1 < minn:
            probs.append(('C19:too-short', f'bin [{i},{j}] has fewer than min_n_points={minn} points'))
        if any(flags[k] is True for k in range(i, j)):
            probs.append(('C19:exceeding-slope-inside', f'bin [{i},{j}] contains a slope above the tolerance'))
        if i > 0 and flags[i - 1] is False:
            if (i - 1) in ties:
                probs.append(('C19:split-at-exact-tolerance',
                              f'bin [{i},{j}] begins after slope {i - 1}, which equals the tolerance exactly (not above it)'))
            else:
                probs.append(('C19:not-maximal', f'bin [{i},{j}] could be extended to the left (slope {i - 1} is within tolerance)'))
        if j < n - 1 and flags[j] is False:
            if j in ties:
                probs.append(('C19:split-at-exact-tolerance',
                              f'bin [{i},{j}] ends before slope {j}, which equals the tolerance exactly (not above it)'))
            else:
                probs.append(('C19:not-maximal', f'bin [{i},{j}] could be extended to the right (slope {j} is within tolerance)'))
    # none missing: O(n^2) enumeration of all maximal runs with prescribed flags
    have = set(ivs)
    for i in range(n):
        if not (i == 0 or flags[i - 1] is True):
            continue
        for j in range(i, n):
            if j > i and flags[j - 1] is not False:
                break
            if (j == n - 1 or flags[j] is True) and j - i + 1 >= minn and (i, j) not in have:
                # make sure no ambiguous flag is adjacent (then the run is prescribed)
                probs.append(('C19:missing-plateau', f'maximal run [{i},{j}] of length {j - i + 1} >= {minn} is not returned'))
    # collapse
    col = impl[3]
    if col[0] != 'ok':
        probs.append(('C19:collapse-error', f'collapse_plateaus raised {col[0]}'))
        return probs
    if len(col[1]) != len(ivs):
        probs.append(('C19:collapse-count', 'collapse_plateaus does not return one element per plateau'))
        return probs
    masked = _masked_union(c)
    for (i, j), mv, (lo, hi) in zip(ivs, col[1], col[2]):
        pts = [Fraction(v) for k, v in enumerate(c['y'][i:j + 1]) if not masked[i + k]]
        if not pts:
            continue   # every point masked: no mean is defined
        exact = sum(pts) / len(pts)
        scale = max(abs(p) for p in pts)
        got = Fraction(unbits(mv)) if mv != 'nan' else None
        # floating-point mean of n points: relative 1e-13*n of the largest point, plus a few subnormal steps
        if got is None or abs(got - exact) > Fraction(1, 10**13) * len(pts) * max(scale, abs(exact)) + Fraction(8, 2**1074):
            probs.append(('C19:collapse-mean', f'collapsed value of bin [{i},{j}] is not the mean of its points'))
        if c['kind'] == 'float':
            lo_v, hi_v = Fraction(unbits(lo)), Fraction(unbits(hi))
        else:
            lo_v, hi_v = Fraction(lo), Fraction(hi)
        for k in range(i, j + 1):
            xv = Fraction(c['x'][k])
            if not (lo_v <= xv < hi_v):
                probs.append(('C19:collapse-interval', f'point {k} of bin [{i},{j}] lies outside its half-open interval'))
                break
    # collapse_plateaus(coord=<any other per-point coordinate>): [min, next(max)) of THAT coordinate over the bin
    other = impl[6] if len(impl) > 6 else {}
    for e in (c.get('deco') or {}).get('extras', []):
        if e['kind'] == 'string':
            continue    # no successor for strings: not an accepted choice of coord
        got = other.get(e['name'])
        if not isinstance(got, list):
            probs.append(('C19:collapse-error', f"collapse_plateaus(coord={e['name']!r}) failed: {got}"))
            continue
        if len(got) != len(ivs):
            probs.append(('C19:collapse-count', f"collapse_plateaus(coord={e['name']!r}) does not return one interval per plateau"))
            continue
        if e['kind'] in ('float', 'float32'):
            vals = [Fraction(unbits(h)) for h in e['values']]
        else:
            vals = [Fraction(int(v)) for v in e['values']]
        for (i, j), (lo, hi) in zip(ivs, got):
            pts = vals[i:j + 1]
            if e['kind'] == 'float32':      # the successor in the coordinate's OWN precision
                lo_v, hi_v = Fraction(unbits(lo)), Fraction(unbits(hi))
                nxt = Fraction(float(np.nextafter(np.float32(float(max(pts))), np.float32(np.inf))))
            elif e['kind'] == 'float':
                lo_v, hi_v = Fraction(unbits(lo)), Fraction(unbits(hi))
                nxt = Fraction(float(np.nextafter(float(max(pts)), math.inf)))
            else:
                lo_v, hi_v = Fraction(lo), Fraction(hi)
                nxt = max(pts) + 1
            bad = next((k for k, xv in enumerate(pts) if not (lo_v <= xv < hi_v)), None)
            if bad is not None:
                probs.append(('C19:collapse-interval',
                              f"coord={e['name']!r}: point {i + bad} of bin [{i},{j}] (value {float(pts[bad])!r}) lies outside "
                              f'its interval [{float(lo_v)!r}, {float(hi_v)!r})'))
                break
            if lo_v != min(pts) or hi_v != nxt:
                probs.append(('C19:collapse-interval',
                              f"coord={e['name']!r}: interval of bin [{i},{j}] is [{float(lo_v)!r}, {float(hi_v)!r}), not "
                              f'[min, next(max)) = [{float(min(pts))!r}, {float(nxt)!r})'))
                break
    return probs


def _inphase_expected(c):
    """exact rational evaluation; None where within rounding distance of the boundary or undefined"""
    ref = Fraction(c['ref'])
    rtol = Fraction(c['rtol'])
    out = []
    for v in c['xs']:
        x = Fraction(v)
        if ref == 0:
            out.append(None)
            continue
        q = x / ref

        def dist(z):
            f = math.floor(z)
            return min(z - f, f + 1 - z)

        ds = [(dist(q), abs(q))]
        if q != 0:
            ds.append((dist(1 / q), abs(1 / q)))
        verdicts = []
        for d, mag in ds:
            prec = Fraction(1, 2**20) if _quot_is_f32(c) else Fraction(1, 2**49)
            band = prec * max(mag, 1) + prec * rtol
            if d < rtol - band:
                verdicts.append(True)
            elif d >= rtol + band:
                verdicts.append(False)
            else:
                verdicts.append(None)
        if any(v is True for v in verdicts):
            out.append(True)
        elif all(v is False for v in verdicts):
            out.append(False)
        else:
            out.append(None)
    return out


def oracle(ctx, deep):
    rng = ctx.rng
    n_series = 4000 if deep else ctx.n(500, 20000)
    corpus = [_decode_case(j['case']) for j in _corpus(ctx) if j.get('op') == 'plateaus']
    with np.errstate(all='ignore'):
        ties = [gen_exact_tie(rng) for _ in range(1500 if deep else ctx.n(250, 5000))]
        for c in corpus + ties + [gen_series(rng, 500 if not ctx.quick or deep else 200) for _ in range(n_series)]:
            if c['mode'] == 'unsorted':
                continue
            if 'deco' not in c and rng.random() < 0.6:
                decorate(rng, c)
            if 'xdtype' not in c and c['mode'] != 'fixed':
                narrow(rng, c)
            impl = run_impl(c)
            ctx.case(('oracle-pl', c['kind'], c['minn'], bits(c['atol']), tuple(map(str, c['x'])), tuple(bits(v) for v in c['y']),
                      json.dumps(c.get('deco'), sort_keys=True)), len(c['y']) >= 3)
            ctx.count('oracle:plateaus:' + impl[0])
            seen = set()
            for key, what in check_plateaus_property(c, impl):
                if key in seen:
                    continue
                seen.add(key)
                _report(ctx, key, what, {'op': 'plateaus', 'case': _encode_case(c)})
        for c in [gen_inphase(rng) for _ in range(6000 if deep else ctx.n(1200, 50000))]:
            impl = impl_inphase(c)
            ctx.case(('oracle-ip', bits(c['ref']), bits(c['rtol']), tuple(bits(v) for v in c['xs'])), True)
            if not isinstance(impl, tuple):
                _report(ctx, 'C19:inphase-error', f'filter_in_phase raised {impl}', {'op': 'inphase', 'case': c})
                continue
            if not impl[2]:
                _report(ctx, 'C19:inphase-values-changed', 'kept elements are not the input elements at the kept positions',
                              {'op': 'inphase', 'case': c})
            kept = set(impl[1])
            if sorted(impl[1]) != impl[1] or len(kept) != len(impl[1]):
                _report(ctx, 'C19:inphase-order', 'kept elements are not in input order', {'op': 'inphase', 'case': c})
            for i, e in enumerate(_inphase_expected(c)):
                if e is None:
                    continue
                if e != (i in kept):
                    _report(ctx, 'C19:inphase-wrong-selection',
                                  f'element {i} (x={c["xs"][i]!r}, ref={c["ref"]!r}, rtol={c["rtol"]!r}) is '
                                  f'{"dropped" if e else "kept"} but is {"" if e else "not "}within rtol of an integer multiple/divisor',
                                  {'op': 'inphase', 'case': {**c, 'xs': [c['xs'][i]]}})
                    break


def replay(ctx, payload):
    w = payload.get('witness', {})
    key = payload.get('key', '')
    with np.errstate(all='ignore'):
        if w.get('op') == 'plateaus':
            c = _decode_case(w['case'])
            return any(k == key for k, _ in check_plateaus_property(c, run_impl(c)))
        if w.get('op') == 'inphase':
            c = w['case']
            impl = impl_inphase(c)
            if not isinstance(impl, tuple):
                return True
            if not impl[2]:
                return True
            kept = set(impl[1])
            return any(e is not None and e != (i in kept) for i, e in enumerate(_inphase_expected(c)))
    print('no specific replay for key', key)
    return False
