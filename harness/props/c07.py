"""C07 — kernels are unit-equivariant and keep the documented dtype contract."""
from __future__ import annotations

import itertools
import math
from decimal import Decimal

import numpy as np

from .. import tofkernels as tk
from . import c01

PROP = 'C07'
LEAN_TARGETS = ['ScnVerif.Props.C07']
PROPS_FILE = 'ScnVerif/Props/C07.lean'
TRANSLATORS = []
RULE = (
    'per kernel, the Cartesian grid of (unit per argument) x (dtype per numeric argument in float64/float32/int64/int32); units: '
    'ps/ns/us/ms/s, fm/pm/angstrom/nm/um/mm/cm/m/km for every length-like argument (flight paths, beams, wavelengths), '
    'neV/ueV/meV/eV/keV/J, 1/pm..1/m, deg/rad, gravity in mm,cm,m,km per s^2 (units scipp cannot convert are dropped and counted): '
    'every cell is one call of the real kernel on 2 elements (float operands log-uniform over moderate physical ranges '
    'expressed in the cell\'s units; integer operands 1..2000 in the cell\'s unit, angles 1..180 deg / 1..3 rad), checked for '
    'documented output unit, dtype contract, value against the exact physical formula (which is unit-free, so agreement in '
    'every cell is unit equivariance), plus one direct re-expression of a randomly chosen argument in another unit of the grid. '
    'thorough: every cell of every kernel (exhaustive); quick: every cell of the kernels with <= 3000 cells, a seeded sample of '
    '1500 cells of the larger grids. Cells scipp itself cannot evaluate (int32 base of pow) are detected by probing the scipp '
    'primitive, skipped and counted. Call-twice cells: for every kernel, every cell whose units are the SI unit or the unit the '
    'kernel works in (s/us, m, angstrom, J/meV, 1/m,1/angstrom, rad) x all dtype combinations (always exhaustive), plus 10 % of '
    'the ordinary cells: the kernel is called twice on the same operand objects; operands must be bit-identical afterwards and '
    'the second result bit-identical to the first. A cell is non-trivial when the kernel returned a finite value that was compared; distinct '
    '= distinct (kernel, units, dtypes).'
)
ASSUMPTIONS = [
    'unit equivariance is proved over the reals (exact arithmetic); "no more than rounding" in floating point is validated on the '
    'grid at the tolerances of the property (1e-11 for a float64 result, 1e-5 for a float32 result), not proved, for C07',
    'tolerance by the dtype of the RESULT: a float64 result must be within 1e-11 of the exact formula on the inputs as given '
    '(a float32 or integer operand is an exactly representable input), a float32 result within 1e-5; in the direct re-expression '
    'test the re-expressed operand is rounded once in its own element type, so a float32 operand re-expressed allows 2e-5',
    'moderate physical ranges (tofkernels.MODERATE) so that no float32 intermediate of a *value* overflows or underflows; a folded '
    'constant that is itself below the float32 normal range for some unit choice is NOT excused: it is reported under its own key '
    '(C07:f32-constant-underflow:<kernel>)',
    'inelastic kernels: error measured relative to |E_i| + |E_f| (the result is a difference of the two); values are only '
    'compared where (t - t0) >= 0.05 t0 (below that the subtraction amplifies rounding more than 20-fold; such cells are counted '
    'as skipped:ill-conditioned) and NaN is only demanded where t0 - t >= 1e-6 t0',
    'angles (two_theta, phi, gamma): absolute error relative to max(|angle|, 0.1 rad)',
    'data operands: first argument for the elastic kernels, (tof, energy) for the inelastic kernels, wavelength for '
    'Q_elements_from_wavelength and the gravity kernels; propagate_times and time_at_sample_from_tof: float32 iff ALL numeric '
    'operands are float32 (the rule the code documents), every other dtype pattern float64; every dtype pattern of these two is '
    'checked in every tier, with pulse times up to three days',
    'integer operands span the whole range the unchanged code supports (int32 to 2^31-1, int64 to 1e15 < 2^53) in cells with a '
    'float64 result; they are capped at sqrt(max) only for the operands the code squares as raw integers (energy_from_wavelength: '
    'wavelength; inelastic: L2 resp. L1) and kept small in cells with a float32 result (a huge integer overflows float32 there)',
]
TRUSTED = [
    'modelled in Lean (Model/TofKernels.lean): the 9 elastic kernels, time_at_sample_from_tof, one component of '
    'Q_elements_from_wavelength; scipp dtype promotion',
    'not modelled here but by C03/C04/C05/C08/C11 (Model/Beamline, Gravity, Inelastic, QVec, Cascade): L1, L2, Ltotal, two_theta, the '
    'gravity kernels, _drop_due_to_gravity, energy_transfer_{direct,indirect}_from_tof, propagate_times, Q vector, hkl; C07 proves '
    'unit equivariance / output unit / dtype table about THOSE definitions (Props/C07.lean imports them) and ties them to the code '
    'only through its own oracle on the grid; the model/implementation correspondence of those models is run by their own checks',
    'exact reference: 60-digit decimal arithmetic with Taylor sin / arctan and Machin pi (harness/tofkernels.py)',
]

#: inelastic kernels: (t - t0) / t0 below which the subtraction t - t0 amplifies rounding by more than 20x
MIN_MARGIN = Decimal('0.05')
VEC_UNITS = list(tk.UNITS['length'])
#: fraction of the ordinary grid cells that additionally get the call-twice test (the no-op-candidate cells always do)
TWICE_FRACTION = 0.1
#: pulse times up to three days
PULSE_RANGES = {**tk.MODERATE, 'time': (1e-3, 3e5)}
GRAV_UNITS = ['m/s^2', 'mm/s^2', 'cm/s^2', 'km/s^2']
NUM_DTYPES = tk.DTYPES


# ---- generic kernel specs (everything that is not one of the 9 elastic kernels) --------------------

class Arg:
    def __init__(self, name, kind, dtypes=None, units=None, dims=True):
        self.name, self.kind = name, kind
        self.vector = kind in ('beam', 'gravity')
        self.dtypes = ['float64'] if self.vector else (dtypes or NUM_DTYPES)
        self.units = units or (VEC_UNITS if kind == 'beam' else GRAV_UNITS if kind == 'gravity' else tk.UNITS[kind])
        self.dims = dims  # carries dim 'x' (one value per element) or is a 0-d value shared by the elements


class Spec:
    def __init__(self, name, args, fn, outputs, ref, out_unit, dtype_rule, data=(), angle=False, norm=None, tied=(), orthogonal=False):
        self.name, self.args, self.fn, self.outputs = name, args, fn, outputs
        self.ref, self.out_unit, self.dtype_rule, self.data = ref, out_unit, dtype_rule, list(data)
        self.angle, self.norm, self.tied, self.orthogonal = angle, norm, tied, orthogonal  # tied: groups of args that must share a unit

    def cells(self):
        free = [a for a in self.args]
        unit_choices = []
        for a in free:
            unit_choices.append(a.units)
        for units in itertools.product(*unit_choices):
            u = dict(zip([a.name for a in free], units))
            if any(len({u[n] for n in grp}) > 1 for grp in self.tied):
                continue
            for dts in itertools.product(*[a.dtypes for a in free]):
                yield u, dict(zip([a.name for a in free], dts))

    def n_cells(self):
        return sum(1 for _ in self.cells())


def _mn_h(h, mn):
    return tk.exact(mn) / tk.exact(h)


def _ref_qel(p, h, mn):
    ib, sb = p['incident_beam'], p['scattered_beam']
    ni, ns = tk.vnorm(ib), tk.vnorm(sb)
    k = 2 * tk.PI / p['wavelength']
    return {n: k * (ib[i] / ni - sb[i] / ns) for i, n in enumerate(('Qx', 'Qy', 'Qz'))}


def _drop(p, h, mn, dist):
    return tk.vnorm(p['gravity']) * _mn_h(h, mn) ** 2 / 2 * dist ** 2 * p['wavelength'] ** 2


def _frame(p):
    g, b1 = p['gravity'], p['incident_beam']
    ng = tk.vnorm(g)
    ey = tuple(-c / ng for c in g)
    d = tk.vdot(b1, ey)
    z = tuple(b - d * e for b, e in zip(b1, ey))
    nz = tk.vnorm(z)
    ez = tuple(c / nz for c in z)
    ex = tk.vcross(ey, ez)
    return ex, ey, ez


def _ref_gravity(p, h, mn):
    ex, ey, ez = _frame(p)
    b2 = p['scattered_beam']
    drop = _drop(p, h, mn, tk.vnorm(b2))
    y = tk.vdot(b2, ey) + drop
    x = tk.vdot(b2, ex)
    b2p = tuple(b + drop * e for b, e in zip(b2, ey))
    return {'two_theta': tk.vangle(p['incident_beam'], b2p), 'phi': tk.datan2(y, x)}


def _ref_yz(p, h, mn):
    ex, ey, ez = _frame(p)
    b2 = p['scattered_beam']
    y = tk.vdot(b2, ey) + _drop(p, h, mn, tk.vnorm(b2))
    return {None: tk.datan2(abs(y), tk.vdot(b2, ez))}


def _ref_direct(p, h, mn):
    m = tk.exact(mn)
    t0 = p['L1'] * (m / (2 * p['incident_energy'])).sqrt()
    dt = p['tof'] - t0
    if dt <= 0:
        return {None: 'nan', '_margin': abs(dt) / t0}
    ef = m * p['L2'] ** 2 / (2 * dt ** 2)
    return {None: p['incident_energy'] - ef, '_norm': p['incident_energy'] + ef, '_margin': abs(dt) / t0}


def _ref_indirect(p, h, mn):
    m = tk.exact(mn)
    t0 = p['L2'] * (m / (2 * p['final_energy'])).sqrt()
    dt = p['tof'] - t0
    if dt <= 0:
        return {None: 'nan', '_margin': abs(dt) / t0}
    ei = m * p['L1'] ** 2 / (2 * dt ** 2)
    return {None: ei - p['final_energy'], '_norm': p['final_energy'] + ei, '_margin': abs(dt) / t0}


def _specs():
    from scippneutron.conversion import beamline as B
    from scippneutron.conversion import tof as K
    from scippneutron.tof import chopper_cascade as CC

    rad = lambda u: {None: 'rad'}  # noqa: E731
    S = {}

    def add(s):
        S[s.name] = s

    add(Spec('Q_elements_from_wavelength',
             [Arg('wavelength', 'wavelength'), Arg('incident_beam', 'beam', dims=False), Arg('scattered_beam', 'beam')],
             K.Q_elements_from_wavelength, ['Qx', 'Qy', 'Qz'], _ref_qel,
             lambda u: {k: '1/' + u['wavelength'] for k in ('Qx', 'Qy', 'Qz')}, 'strict', data=['wavelength'],
             norm=lambda p, r: 2 * tk.PI / p['wavelength']))
    add(Spec('L1', [Arg('incident_beam', 'beam')], B.L1, [None], lambda p, h, mn: {None: tk.vnorm(p['incident_beam'])},
             lambda u: {None: u['incident_beam']}, 'float64'))
    add(Spec('L2', [Arg('scattered_beam', 'beam')], B.L2, [None], lambda p, h, mn: {None: tk.vnorm(p['scattered_beam'])},
             lambda u: {None: u['scattered_beam']}, 'float64'))
    add(Spec('two_theta', [Arg('incident_beam', 'beam', dims=False), Arg('scattered_beam', 'beam')], B.two_theta, [None],
             lambda p, h, mn: {None: tk.vangle(p['incident_beam'], p['scattered_beam'])}, rad, 'float64', angle=True))
    grav_args = lambda: [Arg('incident_beam', 'beam', dims=False), Arg('scattered_beam', 'beam'),  # noqa: E731
                         Arg('wavelength', 'wavelength'), Arg('gravity', 'gravity', dims=False)]
    add(Spec('scattering_angles_with_gravity', grav_args(), B.scattering_angles_with_gravity, ['two_theta', 'phi'],
             _ref_gravity, lambda u: {'two_theta': 'rad', 'phi': 'rad'}, 'strict', data=['wavelength'], angle=True))
    add(Spec('scattering_angle_in_yz_plane', grav_args(), B.scattering_angle_in_yz_plane, [None], _ref_yz, rad, 'strict',
             data=['wavelength'], angle=True, orthogonal=True))
    add(Spec('_drop_due_to_gravity',
             [Arg('distance', 'length'), Arg('wavelength', 'wavelength'), Arg('gravity', 'gravity', dims=False)],
             B._drop_due_to_gravity, [None], lambda p, h, mn: {None: _drop(p, h, mn, p['distance'])},
             lambda u: {None: u['distance']}, 'strict', data=['wavelength']))
    add(Spec('energy_transfer_direct_from_tof',
             [Arg('tof', 'time'), Arg('L1', 'length'), Arg('L2', 'length'), Arg('incident_energy', 'energy')],
             K.energy_transfer_direct_from_tof, [None], _ref_direct, lambda u: {None: u['incident_energy']}, 'strict',
             data=['tof', 'incident_energy']))
    add(Spec('energy_transfer_indirect_from_tof',
             [Arg('tof', 'time'), Arg('L1', 'length'), Arg('L2', 'length'), Arg('final_energy', 'energy')],
             K.energy_transfer_indirect_from_tof, [None], _ref_indirect, lambda u: {None: u['final_energy']}, 'strict',
             data=['tof', 'final_energy']))
    add(Spec('propagate_times', [Arg('time', 'time'), Arg('wavelength', 'wavelength'), Arg('distance', 'length')],
             CC.propagate_times, [None],
             lambda p, h, mn: {None: p['time'] + p['distance'] * p['wavelength'] * _mn_h(h, mn)},
             lambda u: {None: u['time']}, 'all'))
    add(Spec('time_at_sample_from_tof',
             [Arg('pulse_time', 'time'), Arg('tof', 'time'), Arg('L2', 'length'), Arg('wavelength', 'wavelength', units=['angstrom'])],
             K.time_at_sample_from_tof, [None],
             lambda p, h, mn: {None: p['pulse_time'] + p['tof'] - p['L2'] * p['wavelength'] * _mn_h(h, mn),
                               '_norm': p['pulse_time'] + p['tof'] + p['L2'] * p['wavelength'] * _mn_h(h, mn)},
             lambda u: {None: u['tof']}, 'all', tied=[('pulse_time', 'tof')]))
    return S


# ---- values ----------------------------------------------------------------------------------------

def _draw_vec(rng, lo, hi, mostly_z):
    L = tk.log_uniform(rng, lo, hi)
    if mostly_z:
        d = np.array([rng.uniform(-0.02, 0.02), rng.uniform(-0.02, 0.02), 1.0])
    else:
        th = rng.uniform(0.15, 2.9)
        ph = rng.uniform(-3.0, 3.0)
        if abs(abs(ph) - math.pi / 2) < 0.1 or abs(ph) < 0.1:
            ph += 0.3
        d = np.array([math.sin(th) * math.cos(ph), math.sin(th) * math.sin(ph), math.cos(th)])
    return (d / np.linalg.norm(d) * L).tolist()


def draw_cell_values(rng, spec, units, dtypes, n):
    vals = {}
    generic = rng.random() < 0.5 and not spec.orthogonal
    for a in spec.args:
        s = tk.scale_float(units[a.name]) if not a.vector or a.kind == 'beam' else float(tk.SCALE[units[a.name]])
        if a.kind == 'beam':
            if a.name == 'incident_beam':
                v = [0.0, 0.0, tk.log_uniform(rng, 1.0, 100.0)]
                if generic:
                    v[1] = v[2] * rng.uniform(-0.05, 0.05)
                vs = [v]
            else:
                vs = [_draw_vec(rng, 0.5, 50.0, False) for _ in range(n)]
            vals[a.name] = [[c / s for c in v] for v in vs]
        elif a.kind == 'gravity':
            g = rng.uniform(1.0, 20.0)
            vals[a.name] = [[0.0, -g / s, 0.0]]
        else:
            k = n if a.dims else 1
            numeric = {x.name: dtypes[x.name] for x in spec.args if not x.vector}
            single = expected_dtype(spec.dtype_rule, spec.data, numeric) == {'float32'}
            rngs = PULSE_RANGES if a.name == 'pulse_time' else tk.MODERATE
            vals[a.name] = [tk.draw_value(rng, a.kind, units[a.name], dtypes[a.name], rngs,
                                          tk.int_cap(spec.name, a.name, dtypes[a.name], single)) for _ in range(k)]
    if spec.name.startswith('energy_transfer') and all(dtypes[a.name].startswith('float') for a in spec.args):
        # physically consistent neutrons: tof = t0 + time of the other leg at a final/incident energy 0.2..5 x the given one
        e_name = 'incident_energy' if '_direct_' in spec.name else 'final_energy'
        first, second = ('L1', 'L2') if '_direct_' in spec.name else ('L2', 'L1')
        _, mn = tk.constants()
        for i in range(n):
            E = vals[e_name][i] * tk.scale_float(units[e_name])
            la = vals[first][i] * tk.scale_float(units[first])
            lb = la * rng.uniform(0.3, 3.0)  # comparable legs: t - t0 is not a small difference of large numbers
            v2 = lb / tk.scale_float(units[second])
            vals[second][i] = float(np.float32(v2)) if dtypes[second] == 'float32' else v2
            t0 = la * math.sqrt(mn / (2 * E))
            t = t0 + lb * math.sqrt(mn / (2 * E * rng.uniform(0.2, 5.0)))
            v = t / tk.scale_float(units['tof'])
            vals['tof'][i] = float(np.float32(v)) if dtypes['tof'] == 'float32' else v
    return vals


def build_vars(spec, units, dtypes, vals):
    import scipp as sc

    kw = {}
    for a in spec.args:
        v = vals[a.name]
        if a.vector:
            if a.dims and len(v) > 1 or (a.dims and a.name == 'scattered_beam'):
                kw[a.name] = sc.vectors(dims=['x'], values=np.array(v, dtype='float64'), unit=units[a.name])
            elif a.dims:
                kw[a.name] = sc.vectors(dims=['x'], values=np.array(v, dtype='float64'), unit=units[a.name])
            else:
                kw[a.name] = sc.vector(np.array(v[0], dtype='float64'), unit=units[a.name])
        elif a.dims:
            kw[a.name] = tk.make_var(v, units[a.name], dtypes[a.name], ['x'], [len(v)])
        else:
            kw[a.name] = tk.make_var(v[:1], units[a.name], dtypes[a.name], [], [])
    return kw


def physical_of(spec, units, vals, i):
    p = {}
    for a in spec.args:
        v = vals[a.name]
        s = tk.SCALE[units[a.name]]
        if a.vector:
            vec = v[i] if (a.dims and len(v) > i) else v[0]
            p[a.name] = tuple(tk.exact(c) * s for c in vec)
        else:
            p[a.name] = tk.exact(v[i] if a.dims else v[0]) * s
    return p


def call_spec(spec, units, dtypes, vals):
    kw = build_vars(spec, units, dtypes, vals)
    try:
        r = spec.fn(**kw)
    except Exception as e:  # noqa: BLE001
        return {'ok': False, 'err': tk.err_kind(e)}
    outs = r if isinstance(r, dict) else {None: r}
    return {'ok': True, 'outs': {k: (v.unit, str(v.dtype), np.asarray(v.values).reshape(-1)) for k, v in outs.items()}}


# ---- the contract ------------------------------------------------------------------------------------

scipp_pow_supported = tk.scipp_pow_supported
SQUARED = tk.SQUARED
unsupported_by_scipp = tk.unsupported_by_scipp


def expected_dtype(rule, data, dtypes):
    """-> set of acceptable result dtypes.  'strict': float32 iff every data operand is float32; 'all'
    (time_at_sample_from_tof, propagate_times: the code documents "single precision only if all operands are single
    precision"): float32 iff EVERY numeric operand is float32"""
    if rule == 'float64':
        return {'float64'}
    if rule == 'strict':
        return {'float32'} if all(dtypes[a] == 'float32' for a in data) else {'float64'}
    return {'float32'} if all(d == 'float32' for d in dtypes.values()) else {'float64'}


def dtype_class(rule, data, dtypes):
    """short description of the operands' dtypes for the violation key"""
    if rule == 'all':
        return '+'.join(tk.SHORT[d] for d in dtypes.values())
    return '+'.join(tk.SHORT[dtypes[a]] for a in data) if data else 'f64'


F32_MIN_NORMAL = Decimal(2) ** -126


def f32_constant_underflow(name, units, dtypes) -> bool:
    """inelastic kernels with a float32 energy: `_energy_transfer_t0` casts the folded constant
    m_n/2 in [energy unit * (tof unit / length unit)^2] to float32 (mechanism named in the property's anchors);
    True when that constant is not a normal float32 number for this unit choice (J with angstrom and ms or s)"""
    if name == 'energy_transfer_direct_from_tof':
        e, length = 'incident_energy', 'L1'
    elif name == 'energy_transfer_indirect_from_tof':
        e, length = 'final_energy', 'L2'
    else:
        return False
    if dtypes[e] != 'float32':
        return False
    _, mn = tk.constants()
    c = tk.exact(mn) / 2 / (tk.SCALE[units[e]] * (tk.SCALE[units['tof']] / tk.SCALE[units[length]]) ** 2)
    return c < F32_MIN_NORMAL


def _wit(name, units, dtypes, vals, extra=None):
    w = {'kernel': name, 'units': units, 'dtypes': dtypes, 'values': vals}
    if extra:
        w.update(extra)
    return w


def _angle_err(got: float, want: Decimal) -> float:
    if not math.isfinite(got):
        return math.inf
    return float(abs(tk.exact(got) - want) / max(abs(want), Decimal('0.1')))


def check_generic_cell(ctx, spec, units, dtypes, vals, h, mn, report=True):
    """evaluate one grid cell of an oracle-only kernel; returns list of (key, what, witness)"""
    found = []
    name = spec.name
    numeric = {a.name: dtypes[a.name] for a in spec.args if not a.vector}
    res = call_spec(spec, units, dtypes, vals)
    dcls = dtype_class(spec.dtype_rule, spec.data, numeric)
    if not res['ok']:
        if res['err'] == 'err:dtype' and unsupported_by_scipp(name, dtypes):
            if report:
                ctx.count(f'skipped:scipp-has-no-int32-pow:{name}')
            return found, None
        if res['err'] == 'err:dtype':
            found.append((f'C07:dtype:{name}:{dcls}->raises', f'{name} raises DTypeError for operand dtypes {numeric} although scipp '
                          'defines every primitive the formula needs; the contract asks for a '
                          f'{"/".join(sorted(expected_dtype(spec.dtype_rule, spec.data, numeric)))} result', _wit(name, units, dtypes, vals)))
        else:
            found.append((f'C07:raises:{name}', f'{name} raised {res["err"]}', _wit(name, units, dtypes, vals)))
        return found, None
    want_units = spec.out_unit(units)
    want_dt = expected_dtype(spec.dtype_rule, spec.data, numeric)
    n = max(len(vals[a.name]) for a in spec.args if a.dims)
    phys_results = []
    for out in spec.outputs:
        unit, dtype, arr = res['outs'][out]
        oname = out or name
        if not tk.unit_is(unit, want_units[out]):
            found.append((f'C07:unit:{name}', f'{name} returns {oname} in {unit}, documented {want_units[out]}', _wit(name, units, dtypes, vals)))
            continue
        if dtype not in want_dt:
            found.append((f'C07:dtype:{name}:{dcls}->{dtype}',
                          f'{name}: operand dtypes {numeric} give a {dtype} result, the contract asks for {"/".join(sorted(want_dt))}',
                          _wit(name, units, dtypes, vals, {'output': oname})))
        u = want_units[out]
        oscale = (1 / tk.SCALE[u[2:]]) if u.startswith('1/') else tk.SCALE[u]
        cls = tk.result_class(dtype)  # tolerance of the RESULT dtype
        for i in range(n):
            ref = spec.ref(physical_of(spec, units, vals, i), h, mn)
            want = ref[out]
            got = float(arr[i]) if len(arr) > i else float(arr[0])
            if want == 'nan':
                if ref.get('_margin', 1) < Decimal('1e-6'):
                    if report:
                        ctx.count(f'skipped:at-nan-boundary:{name}')
                    continue
                if not math.isnan(got):
                    found.append((f'C07:value:{name}', f'{name}: unphysical point (t <= t0) must give NaN, got {got!r}',
                                  _wit(name, units, dtypes, vals, {'element': i})))
                phys_results.append(None)
                continue
            if ref.get('_margin', 1) < MIN_MARGIN:
                if report:
                    ctx.count(f'skipped:ill-conditioned(t-t0<{MIN_MARGIN}*t0):{name}')
                continue
            if dtype.startswith('int'):
                continue  # already reported as a dtype violation; the value of an integer result is not meaningful
            wantv = want / oscale
            if spec.angle:
                err = _angle_err(got, want)
            else:
                normv = (spec.norm(physical_of(spec, units, vals, i), ref) if spec.norm else ref.get('_norm', want)) / oscale
                err = float(abs(tk.exact(got) - wantv) / abs(normv)) if math.isfinite(got) and normv != 0 else math.inf
            phys_results.append(got)
            if report:
                ctx.count(f'oracle:{name}:{cls}')
            if not err < tk.TOL[cls]:
                under = f32_constant_underflow(name, units, dtypes)
                mixed = tk.mixed_precision_key('C07', name, numeric, dtype, err)
                found.append((f'C07:f32-constant-underflow:{name}' if under else (mixed or f'C07:value:{name}'),
                              (f'{name}: the folded constant m_n/2 underflows float32 for energy in {units[spec.data[1]]} (float32), tof in '
                               f'{units["tof"]} and flight path in angstrom; ' if under else '') +
                              (f'the float32 operand(s) {tk.f32_operands(numeric)} are combined in single precision before the promotion; ' if mixed else '') +
                              f'{name}: {oname} ({dtype}) differs from the physical formula by {err:.3e} (allowed {tk.TOL[cls]}) for units {units}',
                              _wit(name, units, dtypes, vals, {'element': i, 'output': oname, 'got': repr(got), 'expected': f'{wantv:.17E}'})))
    return found, res


def reexpress(rng, arg_kind, vector, unit_from, units_avail, dtype, values, int_limit=46340):
    """the same physical values in another unit of the grid (None when an integer operand cannot be re-expressed exactly)"""
    others = [u for u in units_avail if u != unit_from]
    if not others:
        return None
    unit_to = rng.choice(others)
    ratio = tk.SCALE[unit_from] / tk.SCALE[unit_to]
    if dtype.startswith('int'):
        if arg_kind == 'angle':
            return None
        if ratio != ratio.to_integral_value():
            return None  # only a finer unit with an integer ratio re-expresses an integer exactly
        new = [int(v) * int(ratio) for v in values]
        lim = int_limit
        if any(abs(x) > lim for x in new):
            return None
        return unit_to, new
    f = float(ratio)
    if vector:
        return unit_to, [[c * f for c in v] for v in values]
    new = [v * f for v in values]
    if dtype == 'float32':
        new = [float(np.float32(x)) for x in new]
    return unit_to, new


def check_reexpression(ctx, spec, units, dtypes, vals, res, report=True):
    found, units2 = _check_reexpression(ctx, spec, units, dtypes, vals, res, report)
    return _classify(found, spec.name, dtypes, units, units2 or units)


def _check_reexpression(ctx, spec, units, dtypes, vals, res, report=True):
    """the property statement itself: one argument in another unit, physical result unchanged up to rounding"""
    found = []
    rng = ctx.rng
    a = rng.choice(spec.args)
    group = next((g for g in spec.tied if a.name in g), (a.name,))
    re = reexpress(rng, a.kind, a.vector, units[a.name], a.units, dtypes[a.name], vals[a.name],
                   tk.int_cap(spec.name, a.name, dtypes[a.name], False) or 46340)
    if re is None:
        if report:
            ctx.count('reexpress:skipped(no exact integer re-expression)')
        return found, None
    unit_to, newvals = re
    units2, vals2 = dict(units), dict(vals)
    ok = True
    for g in group:
        if g == a.name:
            units2[g], vals2[g] = unit_to, newvals
        else:
            ratio = tk.SCALE[units[g]] / tk.SCALE[unit_to]
            if dtypes[g].startswith('int'):
                if ratio != ratio.to_integral_value() or any(abs(int(v) * int(ratio)) > (tk.int_cap(spec.name, g, dtypes[g], False) or 46340) for v in vals[g]):
                    ok = False
                    break
                units2[g], vals2[g] = unit_to, [int(v) * int(ratio) for v in vals[g]]
            else:
                nv = [v * float(ratio) for v in vals[g]]
                units2[g], vals2[g] = unit_to, [float(np.float32(x)) for x in nv] if dtypes[g] == 'float32' else nv
    if not ok:
        ctx.count('reexpress:skipped(no exact integer re-expression)')
        return found, units2
    res2 = call_spec(spec, units2, dtypes, vals2)
    # the re-expressed operand is rounded once in its own element type: that rounding is part of "no more than rounding"
    arg_single = any(dtypes[g] == 'float32' for g in group)
    if not res2['ok']:
        found.append((f'C07:reexpress:{spec.name}', f'{spec.name} raised {res2["err"]} after re-expressing {a.name} from {units[a.name]} in {unit_to}',
                      _wit(spec.name, units, dtypes, vals, {'argument': a.name, 'unit_to': unit_to, 'values_to': newvals, 'units_to': units2, 'values_all_to': vals2})))
        return found, units2
    wu1, wu2 = spec.out_unit(units), spec.out_unit(units2)
    for out in spec.outputs:
        u1, d1, a1 = res['outs'][out]
        u2, d2, a2 = res2['outs'][out]
        if d1.startswith('int') or d2.startswith('int'):
            continue
        if not (tk.unit_is(u1, wu1[out]) and tk.unit_is(u2, wu2[out])):
            continue
        s1 = (1 / tk.SCALE[wu1[out][2:]]) if wu1[out].startswith('1/') else tk.SCALE[wu1[out]]
        s2 = (1 / tk.SCALE[wu2[out][2:]]) if wu2[out].startswith('1/') else tk.SCALE[wu2[out]]
        cls = 'single' if (arg_single or d1 == 'float32') else 'double'
        if d1 != d2:
            found.append((f'C07:reexpress:{spec.name}', f'{spec.name}: result dtype changes from {d1} to {d2} when {a.name} is given in {unit_to}',
                          _wit(spec.name, units, dtypes, vals, {'argument': a.name, 'unit_to': unit_to, 'units_to': units2, 'values_all_to': vals2})))
        for i in range(min(len(a1), len(a2))):
            x1, x2 = float(a1[i]), float(a2[i])
            if math.isnan(x1) and math.isnan(x2):
                continue
            if not (math.isfinite(x1) and math.isfinite(x2)):
                found.append((f'C07:reexpress:{spec.name}', f'{spec.name}: {x1!r} vs {x2!r} after re-expressing {a.name} in {unit_to}',
                              _wit(spec.name, units, dtypes, vals, {'argument': a.name, 'unit_to': unit_to, 'values_to': newvals, 'units_to': units2, 'values_all_to': vals2})))
                continue
            p1, p2 = tk.exact(x1) * s1, tk.exact(x2) * s2
            ref = spec.ref(physical_of(spec, units, vals, i), *tk.constants())
            if ref.get('_margin', 1) < MIN_MARGIN:
                continue
            if spec.angle:
                scale = max(abs(p1), Decimal('0.1'))
            elif spec.norm is not None:
                scale = abs(spec.norm(physical_of(spec, units, vals, i), ref))
            else:
                scale = abs(ref.get('_norm', p1)) or abs(p1)
            err = float(abs(p1 - p2) / scale) if scale != 0 else (0.0 if p1 == p2 else math.inf)
            if report:
                ctx.count(f'reexpress:{spec.name}')
            if not err < 2 * tk.TOL[cls]:
                under = f32_constant_underflow(spec.name, units, dtypes) or f32_constant_underflow(spec.name, units2, dtypes)
                numeric = {x.name: dtypes[x.name] for x in spec.args if not x.vector}
                mixed = tk.mixed_precision_key('C07', spec.name, numeric, d1, err)
                found.append((f'C07:f32-constant-underflow:{spec.name}' if under else (mixed or f'C07:reexpress:{spec.name}'),
                              f'{spec.name}: physical result changes by {err:.3e} relative when {a.name} is given in {unit_to} instead of {units[a.name]}'
                              + (' (folded float32 constant underflows)' if under else ''),
                              _wit(spec.name, units, dtypes, vals, {'argument': a.name, 'unit_to': unit_to, 'values_to': newvals, 'units_to': units2, 'values_all_to': vals2, 'element': i,
                                                                     'got_from': repr(x1), 'got_to': repr(x2)})))
    return found, units2


# ---- calling a kernel twice on the same operand objects ----------------------------------------------------

def _snap(v):
    """bit-level snapshot of a variable: dtype, unit, dims, shape and the bytes of its values"""
    return (str(v.dtype), str(v.unit), tuple(v.dims), tuple(v.shape), np.ascontiguousarray(v.values).tobytes())


def _snap_result(r):
    outs = r if isinstance(r, dict) else {None: r}
    return {k: _snap(v) for k, v in outs.items()}


def check_twice(name, fn, kw, wit):
    """the kernel is called TWICE on the same operand objects: the operands must be bit-identical afterwards and the
    second result bit-identical to the first.  (A kernel that converts an operand with copy=False and then works in place
    passes every single-call check but fails here in exactly the cells whose units make the conversion a no-op.)"""
    found = []
    if name.startswith('_'):
        # Private helpers (e.g. _drop_due_to_gravity, which squares the `distance` temporary its public callers hand it)
        # may work in place on their arguments by design; that is not observable through any public entry point and
        # demanding otherwise would go beyond the property. Their public callers are tested.
        return found
    before = {k: _snap(v) for k, v in kw.items()}
    try:
        s1 = _snap_result(fn(**kw))
    except Exception:  # noqa: BLE001
        return found  # raising cells are judged by the single-call checks
    mid = {k: _snap(v) for k, v in kw.items()}
    changed = [k for k in kw if mid[k] != before[k]]
    for k in changed:
        found.append((f'C07:operand-modified:{name}',
                      f'{name} modified its operand `{k}` in place: {before[k][0]} [{before[k][1]}] values '
                      f'{np.frombuffer(before[k][4], dtype=before[k][0])[:3].tolist()} became {mid[k][0]} [{mid[k][1]}] '
                      f'{np.frombuffer(mid[k][4], dtype=mid[k][0])[:3].tolist()}', {**wit, 'operand': k}))
    try:
        s2 = _snap_result(fn(**kw))
    except Exception as e:  # noqa: BLE001
        found.append((f'C07:second-call-differs:{name}', f'{name}: the second call on the same operands raised {tk.err_kind(e)}', wit))
        return found
    if s1 != s2:
        out = next(k for k in s1 if s1[k] != s2.get(k))
        a, b = s1[out], s2[out]
        found.append((f'C07:second-call-differs:{name}',
                      f'{name}: second call on the same operand objects returns {b[0]} [{b[1]}] '
                      f'{np.frombuffer(b[4], dtype=b[0])[:3].tolist()}, the first returned {a[0]} [{a[1]}] '
                      f'{np.frombuffer(a[4], dtype=a[0])[:3].tolist()}' + (f' (operand(s) {changed} were overwritten by the first call)' if changed else ''),
                      {**wit, 'output': out}))
    after = {k: _snap(v) for k, v in kw.items()}
    for k in kw:
        if after[k] != mid[k] and k not in changed:
            found.append((f'C07:operand-modified:{name}', f'{name} modified its operand `{k}` in place on the second call', {**wit, 'operand': k}))
    return found


def _noop_units(kind, avail):
    out = []
    for table in (tk.SI_UNIT, tk.NATURAL_UNIT):
        u = table[kind]
        if u in avail and u not in out:
            out.append(u)
    return out or [avail[0]]


def noop_cells_elastic(kernel):
    """cells in which every argument comes in its SI unit or in the unit the kernel documents / works in (s or us, m,
    angstrom, J or meV, 1/m or 1/angstrom, rad): the candidates for internal unit conversions that are no-ops"""
    names = [a for a, _ in kernel.args]
    for units in itertools.product(*[_noop_units(k, tk.UNITS[k]) for _, k in kernel.args]):
        for dts in itertools.product(*[tk.DTYPES for _ in names]):
            yield dict(zip(names, units)), dict(zip(names, dts))


def noop_cells_spec(spec):
    names = [a.name for a in spec.args]
    for units in itertools.product(*[_noop_units(a.kind, a.units) for a in spec.args]):
        u = dict(zip(names, units))
        if any(len({u[n] for n in grp}) > 1 for grp in spec.tied):
            continue
        for dts in itertools.product(*[a.dtypes for a in spec.args]):
            yield u, dict(zip(names, dts))


def twice_elastic(kernel, units, dtypes, values):
    kw, _, _ = c01.build_operands(kernel, units, dtypes, '1d', values)
    return check_twice(kernel.name, kernel.func(), kw, _wit(kernel.name, units, dtypes, values))


def twice_spec(spec, units, dtypes, vals):
    return check_twice(spec.name, spec.fn, build_vars(spec, units, dtypes, vals), _wit(spec.name, units, dtypes, vals))


def _oracle_twice(ctx, h, mn):
    """every no-op-candidate cell of every kernel (all dtype combinations), always exhaustive"""
    rng = ctx.rng
    for name in tk.ELASTIC:
        kernel = tk.KERNELS[name]
        for units, dtypes in noop_cells_elastic(kernel):
            values = draw_elastic_values(rng, kernel, units, dtypes, 2)
            ctx.case(('twice', name, tuple(sorted(units.items())), tuple(sorted(dtypes.items()))), True)
            ctx.count(f'twice:{name}')
            _report(ctx, twice_elastic(kernel, units, dtypes, values))
    for name, spec in _specs().items():
        for units, dtypes in noop_cells_spec(spec):
            vals = draw_cell_values(rng, spec, units, dtypes, 2)
            ctx.case(('twice', name, tuple(sorted(units.items())), tuple(sorted(dtypes.items()))), True)
            ctx.count(f'twice:{name}')
            found = twice_spec(spec, units, dtypes, vals)
            if spec.dtype_rule == 'all':
                # time_at_sample_from_tof, propagate_times: EVERY dtype pattern of all operands, in every tier, gets the
                # dtype and value check as well (pulse times up to three days, integers over their whole range)
                ctx.count(f'dtype-patterns:{name}')
                f2, _ = check_generic_cell(ctx, spec, units, dtypes, vals, h, mn)
                found += f2
            _report(ctx, found)


# ---- elastic kernels (modelled in Lean): grid cells ---------------------------------------------------

def draw_elastic_values(rng, kernel, units, dtypes, n):
    single = tk.expected_dtype(kernel, dtypes) == 'float32'
    return {a: [tk.draw_value(rng, kind, units[a], dtypes[a], tk.MODERATE, tk.int_cap(kernel.name, a, dtypes[a], single))
                for _ in range(n)] for a, kind in kernel.args}


def elastic_cells(kernel):
    names = [a for a, _ in kernel.args]
    for units in itertools.product(*[tk.UNITS[k] for _, k in kernel.args]):
        for dts in itertools.product(*[tk.DTYPES for _ in names]):
            yield dict(zip(names, units)), dict(zip(names, dts))


def check_elastic_cell(ctx, kernel, units, dtypes, values, h, mn, report=True):
    found = []
    name = kernel.name
    res = c01.call_kernel(kernel, units, dtypes, '1d', values)
    cls = tk.result_class(res.get('dtype', 'float64'))  # tolerance of the RESULT dtype
    dcls = '+'.join(tk.SHORT[dtypes[a]] for a in kernel.data)
    vals = {a: values[a] for a in values}
    if not res['ok']:
        if res['err'] == 'err:dtype' and unsupported_by_scipp(name, dtypes):
            if report:
                ctx.count(f'skipped:scipp-has-no-int32-pow:{name}')
            return found, res
        key = f'C07:dtype:{name}:{dcls}->raises' if res['err'] == 'err:dtype' else f'C07:raises:{name}'
        found.append((key, f'{name} raised {res["err"]} for operand dtypes {dtypes}, units {units}', _wit(name, units, dtypes, vals)))
        return found, res
    want_unit = kernel.out_unit(units)
    if not tk.unit_is(res['unit'], want_unit):
        found.append((f'C07:unit:{name}', f'{name} returns {res["unit"]}, documented {want_unit}', _wit(name, units, dtypes, vals)))
        return found, res
    want_dt = tk.expected_dtype(kernel, dtypes)
    if res['dtype'] != want_dt:
        found.append((f'C07:dtype:{name}:{dcls}->{res["dtype"]}',
                      f'{name}: operand dtypes {dtypes} give a {res["dtype"]} result, the contract asks for {want_dt}', _wit(name, units, dtypes, vals)))
    for i, elem in enumerate(res['elems']):
        want = c01.exact_value(kernel, units, elem, h, mn)
        got = float(res['out'][i])
        err = tk.rel_err(got, want)
        if report:
            ctx.count(f'oracle:{name}:{cls}')
        if not err < tk.TOL[cls]:
            mixed = tk.mixed_precision_key('C07', name, dtypes, res['dtype'], err)
            found.append((mixed or f'C07:value:{name}',
                          (f'the float32 operand(s) {tk.f32_operands(dtypes)} are combined in single precision before the promotion; ' if mixed else '') +
                          f'{name} ({res["dtype"]}) differs from the physical formula by {err:.3e} (allowed {tk.TOL[cls]}) for units {units}',
                          _wit(name, units, dtypes, vals, {'element': i, 'got': repr(got), 'expected': f'{want:.17E}'})))
    return found, res


def reexpress_elastic(ctx, kernel, units, dtypes, values, res, h, mn, report=True):
    found = []
    rng = ctx.rng
    a, kind = rng.choice(kernel.args)
    re = reexpress(rng, kind, False, units[a], tk.UNITS[kind], dtypes[a], values[a],
                   tk.int_cap(kernel.name, a, dtypes[a], False) or 46340)
    if re is None:
        if report:
            ctx.count('reexpress:skipped(no exact integer re-expression)')
        return found
    unit_to, newvals = re
    units2, values2 = {**units, a: unit_to}, {**values, a: newvals}
    res2 = c01.call_kernel(kernel, units2, dtypes, '1d', values2)
    # the re-expressed operand is rounded once in its own element type; otherwise the tolerance of the result dtype
    cls = 'single' if (dtypes[a] == 'float32' or res['dtype'] == 'float32') else 'double'
    w = _wit(kernel.name, units, dtypes, values, {'argument': a, 'unit_to': unit_to, 'values_to': newvals})
    if not res2['ok']:
        found.append((f'C07:reexpress:{kernel.name}', f'{kernel.name} raised {res2["err"]} after re-expressing {a} in {unit_to}', w))
        return found
    if res2['dtype'] != res['dtype']:
        found.append((f'C07:reexpress:{kernel.name}', f'{kernel.name}: result dtype changes from {res["dtype"]} to {res2["dtype"]} when {a} is given in {unit_to}', w))
    if not (tk.unit_is(res['unit'], kernel.out_unit(units)) and tk.unit_is(res2['unit'], kernel.out_unit(units2))):
        return found
    s1, s2 = tk.out_scale(kernel, units), tk.out_scale(kernel, units2)
    for i in range(len(res['out'])):
        x1, x2 = float(res['out'][i]), float(res2['out'][i])
        if not (math.isfinite(x1) and math.isfinite(x2)):
            found.append((f'C07:reexpress:{kernel.name}', f'{kernel.name}: {x1!r} vs {x2!r} after re-expressing {a} in {unit_to}', w))
            continue
        p1, p2 = tk.exact(x1) * s1, tk.exact(x2) * s2
        err = float(abs(p1 - p2) / abs(p1)) if p1 != 0 else (0.0 if p2 == 0 else math.inf)
        if report:
            ctx.count(f'reexpress:{kernel.name}')
        if not err < 2 * tk.TOL[cls]:
            found.append((tk.mixed_precision_key('C07', kernel.name, dtypes, res['dtype'], err) or f'C07:reexpress:{kernel.name}',
                          f'{kernel.name}: physical result changes by {err:.3e} relative when {a} is given in {unit_to} instead of {units[a]}',
                          {**w, 'element': i, 'got_from': repr(x1), 'got_to': repr(x2)}))
    return found


def _sample_cells(ctx, cells, limit):
    cells = list(cells)
    if limit is None or len(cells) <= limit:
        return cells, True
    idx = sorted(ctx.rng.sample(range(len(cells)), limit))
    return [cells[i] for i in idx], False


# ---- correspondence ------------------------------------------------------------------------------------

def correspond(ctx):
    """implementation vs Lean model on every cell of the grids of the 9 elastic kernels (value, dtype, failure),
    on time_at_sample_from_tof and on the components of Q_elements_from_wavelength; the abstract dtype evaluation
    (`c07.dt`) against the implementation's result dtype on every dtype combination"""
    h, mn = tk.constants()
    rng = ctx.rng
    for b in tk.check_scales_against_scipp():
        ctx.disagree('unit scale table', b, '', 'scipp unit scale differs from the exact table of the harness')
    jobs, lines = [], []
    for name in tk.ELASTIC:
        kernel = tk.KERNELS[name]
        cells, _ = _sample_cells(ctx, elastic_cells(kernel), None if not ctx.quick else 1500)
        for units, dtypes in cells:
            values = draw_elastic_values(rng, kernel, units, dtypes, 2)
            res = c01.call_kernel(kernel, units, dtypes, '1d', values)
            jobs.append((kernel, units, dtypes, res))
            for elem in res['elems']:
                lines.append(tk.lean_line('c07', kernel, units, {a: tk.tok(elem[a], dtypes[a]) for a, _ in kernel.args}, h, mn))
    outs = ctx.driver(lines)
    k = 0
    maxdev = {'double': 0.0, 'single': 0.0}
    for kernel, units, dtypes, res in jobs:
        cls = tk.result_class(res.get('dtype', 'float64'))
        ident = ('corr', kernel.name, tuple(sorted(units.items())), tuple(sorted(dtypes.items())))
        ctx.case(ident, True, sample={'kernel': kernel.name, 'units': units, 'dtypes': dtypes,
                                      'impl': res.get('dtype', res.get('err')), 'model': outs[k]})
        ctx.count(f'corr:{kernel.name}')
        for i, elem in enumerate(res['elems']):
            tag, mval = tk.untok(outs[k])
            k += 1
            w = c01.witness(kernel, units, dtypes, elem)
            if not res['ok']:
                ctx.count(f'corr:impl-{res["err"]}')
                if tag != 'err' or res['err'] != 'err:dtype':
                    ctx.disagree(w, res['err'], outs[k - 1], 'implementation raised, model did not (or other error kind)')
                continue
            if tag == 'err':
                ctx.disagree(w, res['dtype'], outs[k - 1], 'model fails (dtype error), implementation returned a value')
                continue
            if tk.LONG.get(tag) != res['dtype']:
                ctx.disagree(w, res['dtype'], tag, 'result dtype')
                continue
            ival = float(res['out'][i])
            if not (math.isfinite(mval) and mval != 0.0):
                ctx.count('corr:model-nonfinite')
                continue
            dev = abs(ival - mval) / abs(mval) if math.isfinite(ival) else math.inf
            maxdev[cls] = max(maxdev[cls], dev)
            if not dev <= 0.9 * tk.TOL[cls]:
                ctx.disagree({**w, 'got': repr(ival)}, repr(ival), repr(mval), f'relative difference {dev:.3e} above 0.9*{tk.TOL[cls]}')
    ctx.note(f'largest relative deviation implementation vs Lean model on the grid: double {maxdev["double"]:.3e}, single {maxdev["single"]:.3e}')
    # abstract dtype evaluation on all dtype combinations (units do not matter for dtypes: one unit choice)
    dt_jobs, dt_lines = [], []
    for name in tk.ELASTIC:
        kernel = tk.KERNELS[name]
        units = {a: tk.UNITS[kind][-1] for a, kind in kernel.args}
        for dts in itertools.product(tk.DTYPES, repeat=len(kernel.args)):
            dtypes = dict(zip([a for a, _ in kernel.args], dts))
            values = {a: [tk.draw_value(rng, kind, units[a], dtypes[a], tk.MODERATE)] for a, kind in kernel.args}
            res = c01.call_kernel(kernel, units, dtypes, 'scalar', values)
            dt_jobs.append((kernel, dtypes, res))
            dt_lines.append(tk.lean_dtype_line('c07', kernel, dtypes))
    for (kernel, dtypes, res), out in zip(dt_jobs, ctx.driver(dt_lines)):
        impl = tk.SHORT[res['dtype']] if res['ok'] else res['err']
        ctx.case(('corr-dt', kernel.name, tuple(dtypes.values())), True)
        ctx.count('corr:dtype-table')
        if impl != out:
            ctx.disagree({'kernel': kernel.name, 'dtypes': dtypes}, impl, out, 'abstract dtype evaluation (DTy carrier) vs implementation')
    _correspond_extra(ctx, h, mn)


def _correspond_extra(ctx, h, mn):
    """time_at_sample_from_tof and Q_elements_from_wavelength against their Lean models"""
    import scipp as sc
    from scippneutron.conversion import tof as K

    rng = ctx.rng
    f = lambda x: 'f64:' + tk.bits64(x)  # noqa: E731
    jobs, lines = [], []
    n = ctx.n(300, 3000)
    for _ in range(n):
        ut, uL = rng.choice(tk.UNITS['time']), rng.choice(tk.UNITS['length'])
        dts = [rng.choice(tk.DTYPES) for _ in range(4)]
        single = all(d == 'float32' for d in dts)
        vals = [tk.draw_value(rng, kind, u, d, r, tk.int_cap('time_at_sample_from_tof', nm, d, single)) for nm, kind, u, d, r in
                (('pulse_time', 'time', ut, dts[0], PULSE_RANGES), ('tof', 'time', ut, dts[1], tk.MODERATE),
                 ('L2', 'length', uL, dts[2], tk.MODERATE), ('wavelength', 'wavelength', 'angstrom', dts[3], tk.MODERATE))]
        vs = [tk.make_var([v], u, d, ['x'], [1]) for v, u, d in zip(vals, (ut, ut, uL, 'angstrom'), dts)]
        try:
            r = K.time_at_sample_from_tof(pulse_time=vs[0], tof=vs[1], L2=vs[2], wavelength=vs[3])
            impl = (str(r.dtype), float(r.values[0]))
        except Exception as e:  # noqa: BLE001
            impl = tk.err_kind(e)
        jobs.append(('tas', (ut, uL, tuple(dts), tuple(vals)), impl, 'tas'))
        lines.append('c07.k tas ' + ' '.join([f(h), f(mn), f(tk.scale_float('angstrom')), f(tk.scale_float(uL)), f(tk.scale_float(ut))]
                                             + [tk.tok(v, d) for v, d in zip(vals, dts)]))
    for _ in range(n):
        uw = rng.choice(tk.UNITS['wavelength'])
        d = rng.choice(tk.DTYPES)
        w = tk.draw_value(rng, 'wavelength', uw, d, tk.MODERATE)
        ib = np.array([0.0, rng.uniform(-0.5, 0.5), rng.uniform(1, 50)])
        sb = np.array(_draw_vec(rng, 0.5, 50.0, False))
        r = K.Q_elements_from_wavelength(wavelength=tk.make_var([w], uw, d, ['x'], [1]), incident_beam=sc.vector(ib, unit='m'),
                                         scattered_beam=sc.vectors(dims=['x'], values=sb.reshape(1, 3), unit=rng.choice(VEC_UNITS)))
        e = (sc.vector(ib, unit='m') / sc.norm(sc.vector(ib, unit='m')) - sc.vector(sb, unit='m') / sc.norm(sc.vector(sb, unit='m'))).value
        for comp, idx in (('Qx', 0), ('Qy', 1), ('Qz', 2)):
            jobs.append(('qel', (uw, d, w, comp), (str(r[comp].dtype), float(r[comp].values[0])), 'qel'))
            lines.append(f'c07.k qel {tk.tok(w, d)} {f(float(e[idx]))}')
    outs = ctx.driver(lines)
    for (kind, ident, impl, _), out in zip(jobs, outs):
        tag, mval = tk.untok(out)
        ctx.case(('corr', kind, ident), True)
        ctx.count(f'corr:{kind}')
        if isinstance(impl, str):
            if not (tag == 'err' and impl == 'err:dtype'):
                ctx.disagree({'kernel': kind, 'case': ident}, impl, out, 'implementation raised')
            continue
        if tk.LONG.get(tag) != impl[0]:
            ctx.disagree({'kernel': kind, 'case': ident}, impl[0], tag, 'result dtype')
            continue
        tol = tk.TOL[tk.result_class(impl[0])]  # tolerance of the RESULT dtype
        if kind == 'tas':
            scale = sum(abs(float(x)) for x in ident[3][:2]) or 1.0
            dev = abs(impl[1] - mval) / max(scale, abs(mval))
        else:
            dev = abs(impl[1] - mval) / abs(mval) if mval != 0 else abs(impl[1])
        if not dev <= 0.9 * tol:
            ctx.disagree({'kernel': kind, 'case': ident}, repr(impl[1]), repr(mval), f'relative difference {dev:.3e}')


# ---- oracle ------------------------------------------------------------------------------------------

def _classify(found, name, dtypes, *unit_sets):
    """value / re-expression failures of an inelastic kernel in a cell whose folded float32 constant underflows get
    their own, specific key"""
    if not any(f32_constant_underflow(name, u, dtypes) for u in unit_sets):
        return found
    out = []
    for key, what, w in found:
        if key.startswith(('C07:value:', 'C07:reexpress:')):
            key = f'C07:f32-constant-underflow:{name}'
            what = what + ' [the folded constant m_n/2 is below the float32 normal range for this unit choice]'
        out.append((key, what, w))
    return out


def _report(ctx, found):
    """at most 2 witnesses per key go to the framework (it keeps 200 in all and writes one replay per key); the
    rest are counted"""
    seen = ctx.__dict__.setdefault('_c07_seen', {})
    for key, what, w in found:
        seen[key] = seen.get(key, 0) + 1
        if seen[key] <= 2:
            ctx.violation(key, what, w)
        else:
            ctx.count('violation(further witnesses):' + key)


def oracle(ctx, deep):
    h, mn = tk.constants()
    rng = ctx.rng
    tk.check_scales_against_scipp()
    for u in tk.UNSUPPORTED:
        ctx.count(f'skipped:unit-not-convertible-by-scipp:{u}')
    limit = None if (not ctx.quick and not deep) else (3000 if not deep else 1200)
    all_exhaustive = True
    for name in tk.ELASTIC:
        kernel = tk.KERNELS[name]
        cells, full = _sample_cells(ctx, elastic_cells(kernel), limit)
        all_exhaustive &= full
        for units, dtypes in cells:
            values = draw_elastic_values(rng, kernel, units, dtypes, 2)
            found, res = check_elastic_cell(ctx, kernel, units, dtypes, values, h, mn)
            ctx.case(('oracle', name, tuple(sorted(units.items())), tuple(sorted(dtypes.items()))), res['ok'])
            ctx.count(f'cells:{name}')
            if res['ok']:
                found += reexpress_elastic(ctx, kernel, units, dtypes, values, res, h, mn)
                if rng.random() < TWICE_FRACTION:
                    ctx.count(f'twice:{name}')
                    found += twice_elastic(kernel, units, dtypes, values)
            _report(ctx, found)
    specs = _specs()
    big_limit = None if (not ctx.quick and not deep) else (1500 if not deep else 800)
    for name, spec in specs.items():
        ncell = spec.n_cells()
        lim = limit if ncell <= 3000 else big_limit
        cells, full = _sample_cells(ctx, spec.cells(), lim)
        all_exhaustive &= full
        ctx.count(f'grid-size:{name}', ncell)
        for units, dtypes in cells:
            vals = draw_cell_values(rng, spec, units, dtypes, 2)
            found, res = check_generic_cell(ctx, spec, units, dtypes, vals, h, mn)
            ctx.case(('oracle', name, tuple(sorted(units.items())), tuple(sorted(dtypes.items()))), res is not None)
            ctx.count(f'cells:{name}')
            found = _classify(found, name, dtypes, units)
            if res is not None and res['ok']:
                found += check_reexpression(ctx, spec, units, dtypes, vals, res)
                if rng.random() < TWICE_FRACTION:
                    ctx.count(f'twice:{name}')
                    found += twice_spec(spec, units, dtypes, vals)
            _report(ctx, found)
    _oracle_twice(ctx, h, mn)
    _oracle_unit_rejections(ctx)
    if not deep:
        ctx.exhaustive = bool(all_exhaustive)


def _oracle_unit_rejections(ctx):
    """time_at_sample_from_tof only accepts the wavelength in angstrom: any other unit must be *rejected* (UnitError),
    never silently give a different physical result"""
    import scipp as sc
    from scippneutron.conversion import tof as K

    for uw in tk.UNITS['wavelength']:
        if uw == 'angstrom':
            continue
        w = 2.0 * 1e-10 / tk.scale_float(uw)
        args = dict(pulse_time=sc.scalar(5.0, unit='us'), tof=sc.scalar(1000.0, unit='us'), L2=sc.scalar(2.0, unit='m'))
        ref = K.time_at_sample_from_tof(**args, wavelength=sc.scalar(2.0, unit='angstrom'))
        ctx.case(('tas-wavelength-unit', uw), True)
        try:
            r = K.time_at_sample_from_tof(**args, wavelength=sc.scalar(w, unit=uw))
        except sc.UnitError:
            ctx.count('time_at_sample_from_tof:non-angstrom-wavelength-rejected(UnitError)')
            continue
        except Exception as e:  # noqa: BLE001
            ctx.count(f'time_at_sample_from_tof:non-angstrom-wavelength-rejected({type(e).__name__})')
            continue
        try:
            same = abs(float(sc.to_unit(r, 'us').value) - float(ref.value)) <= 1e-11 * 2000
        except Exception:  # noqa: BLE001
            same = False
        if not same:
            ctx.violation('C07:value:time_at_sample_from_tof', f'wavelength given in {uw} silently changes the result: {r.value!r} {r.unit} vs {ref.value!r} {ref.unit}',
                          {'kernel': 'time_at_sample_from_tof', 'wavelength_unit': uw})


# ---- replay ------------------------------------------------------------------------------------------

class _NullCtx:
    def __init__(self, seed=0):
        import random

        self.rng = random.Random(seed)

    def count(self, *a, **k):
        pass

    def case(self, *a, **k):
        pass


def replay(ctx, payload):
    w = payload.get('witness', {})
    key = payload.get('key', '')
    h, mn = tk.constants()
    name = w.get('kernel')
    nc = _NullCtx()
    if key.startswith(('C07:operand-modified:', 'C07:second-call-differs:')):
        if name in tk.KERNELS:
            found = twice_elastic(tk.KERNELS[name], w['units'], w['dtypes'], w['values'])
        else:
            found = twice_spec(_specs()[name], w['units'], w['dtypes'], w['values'])
        for k, what, _ in found:
            print(k, '-', what)
        return any(k == key for k, _, _ in found)
    if name in tk.KERNELS:
        kernel = tk.KERNELS[name]
        found, res = check_elastic_cell(nc, kernel, w['units'], w['dtypes'], w['values'], h, mn, report=False)
        if 'unit_to' in w and res.get('ok'):
            found += _replay_reexpress_elastic(kernel, w, res)
    elif name in (specs := _specs()):
        spec = specs[name]
        if 'wavelength_unit' in w:
            class _C(_NullCtx):
                v = []

                def violation(self, *a):
                    self.v.append(a)

            c = _C()
            _oracle_unit_rejections(c)
            return bool(c.v)
        found, res = check_generic_cell(nc, spec, w['units'], w['dtypes'], w['values'], h, mn, report=False)
        found = _classify(found, name, w['dtypes'], w['units'])
        if 'units_to' in w and res is not None and res.get('ok'):
            found += _classify(_replay_reexpress_generic(spec, w, res), name, w['dtypes'], w['units'], w['units_to'])
    else:
        print('no specific replay for', key)
        return False
    for k, what, _ in found:
        print(k, '-', what)
    return any(k == key for k, _, _ in found)


def _replay_reexpress_elastic(kernel, w, res):
    a, unit_to, newvals = w['argument'], w['unit_to'], w['values_to']
    units2, values2 = {**w['units'], a: unit_to}, {**w['values'], a: newvals}
    res2 = c01.call_kernel(kernel, units2, w['dtypes'], '1d', values2)
    found = []
    if not res2['ok']:
        return [(f'C07:reexpress:{kernel.name}', 'raised', w)]
    s1, s2 = tk.out_scale(kernel, w['units']), tk.out_scale(kernel, units2)
    cls = 'single' if (w['dtypes'][a] == 'float32' or res['dtype'] == 'float32') else 'double'
    if res2['dtype'] != res['dtype']:
        found.append((f'C07:reexpress:{kernel.name}', 'dtype changes', w))
    for i in range(len(res['out'])):
        p1, p2 = tk.exact(float(res['out'][i])) * s1, tk.exact(float(res2['out'][i])) * s2
        err = float(abs(p1 - p2) / abs(p1)) if p1 != 0 else math.inf
        if not err < 2 * tk.TOL[cls]:
            found.append((tk.mixed_precision_key('C07', kernel.name, w['dtypes'], res['dtype'], err) or f'C07:reexpress:{kernel.name}',
                          f'changes by {err:.3e}', w))
    return found


def _replay_reexpress_generic(spec, w, res):
    units2, vals2 = w['units_to'], w['values_all_to']
    res2 = call_spec(spec, units2, w['dtypes'], vals2)
    if not res2['ok']:
        return [(f'C07:reexpress:{spec.name}', 'raised', w)]
    found = []
    group = next((g for g in spec.tied if w['argument'] in g), (w['argument'],))
    arg_single = any(w['dtypes'][g] == 'float32' for g in group)
    wu1, wu2 = spec.out_unit(w['units']), spec.out_unit(units2)
    for out in spec.outputs:
        u1, d1, a1 = res['outs'][out]
        u2, d2, a2 = res2['outs'][out]
        s1 = (1 / tk.SCALE[wu1[out][2:]]) if wu1[out].startswith('1/') else tk.SCALE[wu1[out]]
        s2 = (1 / tk.SCALE[wu2[out][2:]]) if wu2[out].startswith('1/') else tk.SCALE[wu2[out]]
        for i in range(min(len(a1), len(a2))):
            x1, x2 = float(a1[i]), float(a2[i])
            if math.isnan(x1) and math.isnan(x2):
                continue
            p1, p2 = tk.exact(x1) * s1, tk.exact(x2) * s2
            cls = 'single' if (arg_single or d1 == 'float32') else 'double'
            scale = max(abs(p1), Decimal('0.1')) if spec.angle else abs(p1)
            err = float(abs(p1 - p2) / scale) if scale else math.inf
            if not err < 2 * tk.TOL[cls]:
                numeric = {x.name: w['dtypes'][x.name] for x in spec.args if not x.vector}
                found.append((tk.mixed_precision_key('C07', spec.name, numeric, d1, err) or f'C07:reexpress:{spec.name}',
                              f'changes by {err:.3e}', w))
    return found


LEVEL_TEXT = (
    'Lean 4 theorems about the kernels of Model/TofKernels.lean (the definitions executed against the Python code): unit '
    'equivariance over the reals for arbitrary positive unit scales of every operand (9 elastic kernels, time_at_sample_from_tof, '
    'Q_elements_from_wavelength; and, about the models of C03/C04/C05/C08/C11: L1, L2, Ltotal, two_theta, _drop_due_to_gravity, the '
    'gravity angle kernels on both code paths and the yz variant, both inelastic kernels, propagate_times, hkl) with the result in the '
    'documented unit (unit algebra of scale x dimension replayed per kernel); one table theorem all_kernels_dtype_contract; the dtype contract decided over '
    '{float64,float32,int64,int32}^arity on the abstract (dtype-only) evaluation of the same kernel definitions, and for all '
    'values the executable model\'s dtype tag equals that abstract evaluation. Tied to the code by a correspondence over the full '
    'units x dtypes grid; an independent exact-decimal oracle covers the full grid of every conversion/geometry kernel including '
    'beamline.py (L1, L2, two_theta, gravity kernels, _drop_due_to_gravity), the inelastic kernels and propagate_times.'
)
LEVEL_NOTE = (
    'Proved: equivariance in exact arithmetic and the dtype decision logic of the modelled kernels. Validated on the exhaustive grid '
    '(thorough) / seeded sample (quick): "no more than rounding" in floating point, and everything about the kernels that are not '
    'modelled in Lean here (beamline.py, inelastic, propagate_times). Trusted: Lean kernel, the hand transcription, the harness.'
)
TECHNIQUE = 'Lean 4 proof (algebra over the reals + exhaustive case analysis of an abstract dtype interpretation) + grid correspondence + exact decimal oracle'
