"""C10 — disk-chopper open/close times are exactly the openings of the rotating disk."""
from __future__ import annotations

import ast
import json
import math
import os
import struct
from fractions import Fraction

import numpy as np

PROP = 'C10'
LEAN_TARGETS = ['ScnVerif.Props.C10']
PROPS_FILE = 'ScnVerif/Props/C10.lean'
TRANSLATORS = []
RULE = (
    'disks: frequency ratio in {1/4,1/3,1/2,1,2,..,8} x sign, pulse frequency in Hz / kHz / 1/min (frequency possibly '
    'in another of these units), 1..6 slits cut from 2k distinct points of one turn starting at a random base angle '
    '(so the last slit may span top-dead-centre), shuffled; beam position and phase over [-3,3] turns; 1..4 pulses. '
    'Dtype and unit are chosen INDEPENDENTLY per operand: phase, beam_position, slit_begin/slit_end each in '
    '{float64, float32, int64, int32} x {deg, rad, mrad} (integer degrees that are not whole radians, e.g. 45 deg, '
    'integer radians, integer mrad), frequency and pulse_frequency each in {float64, float32, int64, int32} x '
    '{Hz, kHz, 1/min} where the stored number is exact and scipp converts the pulse frequency exactly (else float64); '
    'the model and the oracle take the exact value of the typed input. Object-reuse histories: ONE DiskChopper queried 2-4 '
    'times with different pulse frequencies (chopper frequency / ratio, or / an out-of-phase number; Hz, kHz, 1/min; float64 '
    'or exact int), methods interleaved (open, close, duration, from_disk_chopper) and dataclasses.replace copies; every '
    'answer must equal that of a fresh chopper, the model, and the exact disk oracle. Rejection streams: ratios r(1+d) for d in '
    '{0,+-1e-9,+-1e-8,+-1.1e-8,+-1e-7,...}, non-integer ratios, pulse frequency <= 0; slit sets that overlap, touch, '
    'are inverted, have different lengths, or overlap only across top-dead-centre. A case is distinct by its exact '
    'typed inputs; it is non-trivial when it has at least one slit and a non-zero beam position or phase (times), or '
    'reaches the comparison branch of a rejection test.'
)
ASSUMPTIONS = [
    'the implementation computes in radians with floating-point 2*pi; the model computes in turns over the rationals: '
    'times must agree within 1e-12 relative + 2e-14*(1+largest angle in turns)*rotation period (error budget of ~8 '
    'roundings at 1.1e-16 each on the largest intermediate)',
    'scipp unit conversion multiplies by the ratio of unit scales (pulse_frequency.to(unit=frequency.unit) is '
    'evaluated by scipp and handed to the bit-exact Float model of the integer-ratio test)',
    'closed_just_outside needs slit sets without a touch across top-dead-centre (no end exactly one turn after a begin): '
    'touching slits and a single slit of exactly one turn are accepted by _check_edges and the chopper does not close '
    'there (proved counterexample accepted_closed_just_outside_full_false); none_missing needs nothing beyond acceptance',
    'frequency != 0 (the quantifier is ratios 1/4..8 of either sign)',
]
TRUSTED = [
    'modelled, not verified: DiskChopper.{time_offset_angle_at_beam,_apply_angle_repetitions,time_offset_open,'
    'time_offset_close,open_duration,_source_phase_factor}, _is_int_or_inverse_int, _check_edges, _check_edge_overlap, '
    'Chopper.from_disk_chopper transcribed into Model/DiskChopper.lean',
    'the exact rational type Q of Model/ChopperRat.lean (executable side only; the theorems are over the reals)',
    'source inspection (ast) deciding whether _check_edge_overlap compares across top-dead-centre and whether '
    'from_disk_chopper repeats by rotation (selects the model variant that the theorems cover)',
]
LEVEL_TEXT = (
    'Lean 4 theorems over the reals about the transcribed code, against a specification of the uniformly rotating disk '
    '(the disk point theta is at lab angle theta + f*t - phase; a slit is over the beam iff one of its points is at the '
    'beam position modulo whole turns): open<close for both senses, open throughout each reported interval, closed for '
    'g/|f| before and after it for slits separated by g on the circle, duration = width/|f|, consecutive entries of a '
    'slit exactly one period apart (n+1 turns of every slit, closed form of the whole output), no opening inside the '
    'reported span missing (slits within one turn), integer-ratio test accepts iff |f|/f_pulse or its reciprocal is '
    'within rtol of an integer and returns round(max(x,1)), _check_edges accepts iff equal lengths, begin<=end and '
    'pairwise disjoint on the line. The full circle statement is proved FALSE of the current overlap check '
    '(counterexample [10,30],[300,380] deg) and TRUE of the proposed repair; the expansion over pulses is proved '
    'correct for integer ratios (same set of openings as npulses*m rotations), proved FALSE for sub-harmonic ratios '
    '(f = f_pulse/2) and to contain duplicates, and the proposed repair is proved to be a plain rotation list. The '
    'rational model that is executed is proved to embed into the real model for the times and the slit validation. '
    'Model executed over exact rationals and compared with the implementation at 1e-12; integer-ratio test bit-exact.'
)
LEVEL_NOTE = (
    'Trusted: Lean kernel, the transcription of disk_chopper.py / from_disk_chopper (tied by the correspondence run), '
    'floating-point evaluation of the implementation is compared with the exact model at a derived tolerance; the '
    'variant of the two repaired functions is selected by source inspection.'
)
TECHNIQUE = 'Lean 4 proof over the reals + exact-rational executable model compared with the implementation'

TURN_DEG = Fraction(360)
F_UNITS = {'Hz': Fraction(1), 'kHz': Fraction(1000), '1/min': Fraction(1, 60)}
T_UNITS = {'s': Fraction(1), 'ms': Fraction(1, 1000), 'min': Fraction(60), 'us': Fraction(1, 10**6)}
RATIOS = [Fraction(1, 4), Fraction(1, 3), Fraction(1, 2)] + [Fraction(k) for k in range(1, 9)]


def bits(x: float) -> str:
    return struct.pack('>d', float(x)).hex()


def qstr(q: Fraction) -> str:
    return f'{q.numerator}/{q.denominator}'


def qparse(s: str) -> Fraction:
    return Fraction(s)


def _err(e: Exception) -> str:
    import scipp as sc

    if isinstance(e, sc.DimensionError):
        return 'err:dimension'
    if isinstance(e, sc.UnitError):
        return 'err:unit'
    if isinstance(e, ValueError):
        return 'err:value'
    if isinstance(e, IndexError):
        return 'err:index'
    return 'err:other:' + type(e).__name__


# ---- which variant of the code is in the tree (selects the model variant) -----------------------

def code_variant(repo):
    """(wrap, by_rotation): does `_check_edge_overlap` compare across top-dead-centre (a 360-degree constant in its
    body); does `from_disk_chopper` repeat by rotation (calls time_offset_angle_at_beam) instead of adding pulse offsets."""
    wrap = False
    by_rot = False
    try:
        with open(os.path.join(repo, 'src', 'scippneutron', 'chopper', 'disk_chopper.py')) as f:
            tree = ast.parse(f.read())
        for node in ast.walk(tree):
            if isinstance(node, ast.FunctionDef) and node.name == '_check_edge_overlap':
                for sub in ast.walk(node):
                    if isinstance(sub, ast.Constant) and isinstance(sub.value, (int, float)) and not isinstance(sub.value, bool) \
                            and float(sub.value) == 360.0:
                        wrap = True
        with open(os.path.join(repo, 'src', 'scippneutron', 'tof', 'chopper_cascade.py')) as f:
            tree = ast.parse(f.read())
        for node in ast.walk(tree):
            if isinstance(node, ast.FunctionDef) and node.name == 'from_disk_chopper':
                for sub in ast.walk(node):
                    if isinstance(sub, ast.Attribute) and sub.attr == 'time_offset_angle_at_beam':
                        by_rot = True
    except (OSError, SyntaxError):
        pass
    return wrap, by_rot



def _report(ctx, key, what, witness, per_key=4):
    """Record at most `per_key` witnesses per violation class, so that a frequent (e.g. known) class cannot
    fill the framework's witness buffer and hide a different class; the rest is only counted."""
    seen = ctx.__dict__.setdefault('_per_key', {}) if hasattr(ctx, '__dict__') else {}
    seen[key] = seen.get(key, 0) + 1
    if seen[key] <= per_key:
        ctx.violation(key, what, witness)
    else:
        ctx.count('violation-more:' + key)


# ---- generators ------------------------------------------------------------------------------

def _rat(rng, lo, hi, den):
    return Fraction(rng.randint(int(lo * den), int(hi * den)), den)


def gen_slits(rng, k=None, den=720):
    """k non-overlapping slits within one turn from a base angle, as exact fractions of a turn; gaps and widths
    are at least 1/den turn. The last slit may extend beyond 1 turn (spans TDC)."""
    k = k or rng.randint(1, 6)
    base = Fraction(rng.randrange(0, den), den) if rng.random() < 0.8 else Fraction(0)
    pts = sorted(rng.sample(range(0, den), 2 * k))   # offsets within the turn, distinct
    slits = [(base + Fraction(pts[2 * i], den), base + Fraction(pts[2 * i + 1], den)) for i in range(k)]
    # normalise so that every begin lies in [0,1) (ends may exceed 1: spanning TDC) in most cases
    if rng.random() < 0.85:
        out = []
        for b, e in slits:
            s = math.floor(b)
            out.append((b - s, e - s))
        slits = out
    rng.shuffle(slits)
    return slits


DTYPES = ['float64', 'float32', 'int64', 'int32']
INV_2PI = Fraction(1.0 / (2.0 * math.pi))          # 1/(2 pi) to 1.1e-16 relative: radians -> turns
ANGLE_TURNS = {'deg': Fraction(1, 360), 'rad': INV_2PI, 'mrad': INV_2PI / 1000}
ANGLE_UNITS = ['deg', 'deg', 'rad', 'mrad']


def _representable(v: Fraction, dtype: str) -> bool:
    """can the rational v be stored without rounding in a scalar of this dtype?"""
    if dtype in ('int64', 'int32'):
        return v.denominator == 1 and abs(v) < (2**31 if dtype == 'int32' else 2**62)
    if dtype == 'float32':
        return Fraction(float(np.float32(float(v)))) == v
    return True     # float64: the nearest double is used (1e-16 relative), as before


def _store(v, dtype: str):
    """python number that a scipp scalar of `dtype` holds after storing v (int, or the float of the rounded value)"""
    if dtype in ('int64', 'int32'):
        return int(v)
    if dtype == 'float32':
        return float(np.float32(float(v)))
    return float(v)


def _gen_frequencies(rng):
    """(ratio, f value/dtype/unit, pulse value/dtype/unit): dtype and unit independent per operand; integer and
    single-precision operands only where the stored numbers are exact and scipp's integer / float32 unit conversion
    of the pulse frequency is exact (otherwise that operand falls back to float64)"""
    ratio = rng.choice(RATIOS)
    sign = rng.choice([-1, 1])
    pf_unit = rng.choice(['Hz', 'Hz', 'kHz', '1/min'])
    f_unit = pf_unit if rng.random() < 0.7 else rng.choice(['Hz', 'kHz', '1/min'])
    pf_hz = rng.choice([Fraction(14), Fraction(10), Fraction(60), Fraction(50), Fraction(7, 2), Fraction(25)])
    pf_v = pf_hz / F_UNITS[pf_unit]
    f_v = sign * ratio * pf_hz / F_UNITS[f_unit]
    f_dtype, pf_dtype = rng.choice(DTYPES), rng.choice(DTYPES)
    if not _representable(f_v, f_dtype):
        f_dtype = 'float64'
    if not _representable(pf_v, pf_dtype):
        pf_dtype = 'float64'
    if pf_dtype != 'float64' and f_unit != pf_unit and not _representable(pf_hz / F_UNITS[f_unit], pf_dtype):
        pf_dtype = 'float64'            # pulse_frequency.to(unit=frequency.unit) would round
    if pf_dtype == 'float32' and f_unit != pf_unit:
        pf_dtype = 'float64'            # single-precision multiplication by 1/60 or 60 rounds
    if f_dtype == 'float32' and f_unit != pf_unit and pf_dtype in ('int64', 'int32', 'float32'):
        f_dtype = 'float64'
    return ratio * sign, (_store(f_v, f_dtype), f_dtype, f_unit), (_store(pf_v, pf_dtype), pf_dtype, pf_unit)


def _gen_angle(rng, unit, dtype):
    """beam position / phase over several turns, stored value of the given dtype in the given unit"""
    if dtype in ('int64', 'int32'):
        if unit == 'deg':
            return rng.choice([45, 30, -90, 725, 1, rng.randint(-1080, 1080)])
        if unit == 'rad':
            return rng.randint(-18, 18)
        return rng.randint(-18000, 18000)
    ang_den = rng.choice([1, 4, 720, 7])
    turns = _rat(rng, -3, 3, ang_den) if rng.random() < 0.85 else Fraction(0)
    v = turns * 360 if unit == 'deg' else float(turns) * 2.0 * math.pi * (1000 if unit == 'mrad' else 1)
    return _store(v, dtype)


def _gen_slit_values(rng, unit, dtype):
    """(begins, ends) as stored values: non-overlapping, within one turn of the first begin, gaps and widths
    >= 1/720 turn (>= 1 degree / 1 rad / 10 mrad for integer dtypes)"""
    if dtype in ('int64', 'int32') and unit != 'deg':
        k = rng.randint(1, 3)
        if unit == 'rad':
            pts = sorted(rng.sample(range(0, 7), 2 * k))
        else:
            pts = [10 * v for v in sorted(rng.sample(range(0, 628), 2 * k))]
        sl = [(pts[2 * i], pts[2 * i + 1]) for i in range(k)]
        rng.shuffle(sl)
        return [b for b, _ in sl], [e for _, e in sl]
    slits = gen_slits(rng, den=360 if dtype in ('int64', 'int32') else 720)
    out = []
    for b, e in slits:
        if unit == 'deg':
            out.append((_store(b * 360, dtype), _store(e * 360, dtype)))
        else:
            m = 2.0 * math.pi * (1000 if unit == 'mrad' else 1)
            out.append((_store(float(b) * m, dtype), _store(float(e) * m, dtype)))
    return [b for b, _ in out], [e for _, e in out]


def _finish_disk(c):
    """derived exact quantities (turns) of a typed case; also used after decoding a stored witness"""
    st = ANGLE_TURNS[c['slit_unit']]
    c['slits'] = [(Fraction(b) * st, Fraction(e) * st) for b, e in zip(c['slit_begin_vals'], c['slit_end_vals'])]
    c['beam'] = Fraction(c['beam_val']) * ANGLE_TURNS[c['beam_unit']]
    c['phase'] = Fraction(c['phase_val']) * ANGLE_TURNS[c['phase_unit']]
    return c


def gen_disk(rng):
    """dtype and unit are chosen independently for every operand"""
    ratio, (f_val, f_dtype, f_unit), (pf_val, pf_dtype, pf_unit) = _gen_frequencies(rng)
    c = dict(ratio=ratio, f_val=f_val, f_dtype=f_dtype, f_unit=f_unit, pf_val=pf_val, pf_dtype=pf_dtype, pf_unit=pf_unit,
             npulses=rng.randint(1, 4))
    for name in ('beam', 'phase'):
        c[name + '_unit'] = rng.choice(ANGLE_UNITS)
        c[name + '_dtype'] = rng.choice(DTYPES)
        c[name + '_val'] = _gen_angle(rng, c[name + '_unit'], c[name + '_dtype'])
    c['slit_unit'] = rng.choice(ANGLE_UNITS)
    c['slit_dtype'] = rng.choice(DTYPES)
    c['slit_begin_vals'], c['slit_end_vals'] = _gen_slit_values(rng, c['slit_unit'], c['slit_dtype'])
    return _finish_disk(c)


def _angle_float(turns: Fraction, unit: str) -> float:
    if unit == 'deg':
        return float(turns * 360)
    return float(turns) * (2.0 * math.pi)


def _angle_exact(turns: Fraction, unit: str) -> Fraction:
    """the exact value (in turns) of the floating-point angle handed to the implementation; for radians the
    intended rational is used (2*pi is irrational; the difference is covered by the tolerance)."""
    if unit == 'deg':
        return Fraction(_angle_float(turns, 'deg')) / 360
    return turns


def make_chopper(c):
    import scipp as sc
    from scippneutron.chopper import DiskChopper

    if 'beam_val' in c:      # typed case: every operand with its own dtype and unit
        ch = DiskChopper(
            axle_position=sc.vector([0.0, 0.0, 7.5], unit='m'),
            frequency=sc.scalar(c['f_val'], unit=c['f_unit'], dtype=c['f_dtype']),
            beam_position=sc.scalar(c['beam_val'], unit=c['beam_unit'], dtype=c['beam_dtype']),
            phase=sc.scalar(c['phase_val'], unit=c['phase_unit'], dtype=c['phase_dtype']),
            slit_begin=sc.array(dims=['slit'], values=np.array(c['slit_begin_vals'], dtype=c['slit_dtype']), unit=c['slit_unit']),
            slit_end=sc.array(dims=['slit'], values=np.array(c['slit_end_vals'], dtype=c['slit_dtype']), unit=c['slit_unit']),
        )
        return ch, sc.scalar(c['pf_val'], unit=c['pf_unit'], dtype=c['pf_dtype'])
    b = np.array([_angle_float(s[0], c['slit_unit']) for s in c['slits']], dtype='float64')
    e = np.array([_angle_float(s[1], c['slit_unit']) for s in c['slits']], dtype='float64')
    ch = DiskChopper(
        axle_position=sc.vector([0.0, 0.0, 7.5], unit='m'),
        frequency=sc.scalar(c['f_val'], unit=c['f_unit']),
        beam_position=sc.scalar(_angle_float(c['beam'], c['beam_unit']), unit=c['beam_unit']),
        phase=sc.scalar(_angle_float(c['phase'], c['phase_unit']), unit=c['phase_unit']),
        slit_begin=sc.array(dims=['slit'], values=b, unit=c['slit_unit']),
        slit_end=sc.array(dims=['slit'], values=e, unit=c['slit_unit']),
    )
    pf = sc.scalar(c['pf_val'], unit=c['pf_unit'])
    return ch, pf


def _to_seconds(var):
    """values of a time variable as exact Fractions of a second"""
    import scipp as sc

    u = str(var.unit)
    if u in T_UNITS:
        scale = T_UNITS[u]
    else:
        scale = Fraction(float(sc.scalar(1.0, unit=var.unit).to(unit='s').value))
    vals = np.atleast_1d(var.values)
    return [Fraction(float(v)) * scale for v in vals]


def exact_inputs(c):
    f = Fraction(c['f_val']) * F_UNITS[c['f_unit']]
    pf = Fraction(c['pf_val']) * F_UNITS[c['pf_unit']]
    if 'beam_val' in c:      # the exact value of every typed input (radians via 1/(2 pi) to 1.1e-16)
        return f, pf, c['beam'], c['phase'], list(c['slits'])
    beam = _angle_exact(c['beam'], c['beam_unit'])
    phase = _angle_exact(c['phase'], c['phase_unit'])
    slits = [(_angle_exact(b, c['slit_unit']), _angle_exact(e, c['slit_unit'])) for b, e in c['slits']]
    return f, pf, beam, phase, slits


def impl_times(c):
    try:
        ch, pf = make_chopper(c)
        o = ch.time_offset_open(pulse_frequency=pf)
        cl = ch.time_offset_close(pulse_frequency=pf)
        d = ch.open_duration(pulse_frequency=pf)
    except Exception as e:  # noqa: BLE001
        return _err(e)
    return ('ok', _to_seconds(o), _to_seconds(cl), _to_seconds(d), (list(o.dims), list(cl.dims)))


def impl_cascade(c):
    from scippneutron.tof.chopper_cascade import Chopper

    try:
        ch, pf = make_chopper(c)
        r = Chopper.from_disk_chopper(ch, pulse_frequency=pf, npulses=c['npulses'])
    except Exception as e:  # noqa: BLE001
        return _err(e)
    return ('ok', _to_seconds(r.time_open), _to_seconds(r.time_close), float(r.distance.value))


def _parse_lists(out):
    d = {}
    for tok in out.split()[1:]:
        k, v = tok.split('=', 1)
        d[k] = [] if v == '-' else ([qparse(t) for t in v.split(',')] if '/' in v else v)
    return d


def _tol(c, m):
    f, _, beam, phase, slits = exact_inputs(c)
    period = 1 / abs(f)
    big = max([abs(beam), abs(phase)] + [abs(x) for s in slits for x in s] + [0]) + 10
    return Fraction(1, 10**12) * abs(m) + Fraction(2, 10**14) * period * (1 + big)


def _cmp_lists(c, impl, model):
    if len(impl) != len(model):
        return f'length {len(impl)} vs {len(model)}'
    for i, (a, b) in enumerate(zip(impl, model)):
        if abs(a - b) > _tol(c, b):
            return f'entry {i}: impl {float(a)!r} model {float(b)!r}'
    return None


def disk_line(op, c):
    f, pf, beam, phase, slits = exact_inputs(c)
    head = [op, qstr(f), qstr(pf), qstr(beam), qstr(phase)]
    if op == 'c10.cascade':
        head.append(str(c['npulses']))
    for b, e in slits:
        head += [qstr(b), qstr(e)]
    return ' '.join(head)


TYPED_KEYS = ['f_dtype', 'pf_dtype', 'beam_val', 'beam_dtype', 'phase_val', 'phase_dtype', 'slit_begin_vals',
              'slit_end_vals', 'slit_dtype']


def _disk_sample(c):
    d = {'ratio': str(c['ratio']), 'f': [c['f_val'], c.get('f_dtype', 'float64'), c['f_unit']],
         'pf': [c['pf_val'], c.get('pf_dtype', 'float64'), c['pf_unit']],
         'slits_turns': [[str(b), str(e)] for b, e in c['slits']], 'slit_unit': c['slit_unit'],
         'beam_turns': str(c['beam']), 'phase_turns': str(c['phase']), 'npulses': c['npulses']}
    if 'beam_val' in c:
        d.update(beam=[c['beam_val'], c['beam_dtype'], c['beam_unit']], phase=[c['phase_val'], c['phase_dtype'], c['phase_unit']],
                 slit_begin=c['slit_begin_vals'], slit_end=c['slit_end_vals'], slit_dtype=c['slit_dtype'])
    return d


def _disk_ident(c):
    return (c['f_val'], c['f_unit'], c['pf_val'], c['pf_unit'], tuple(c['slits']), c['slit_unit'], c['beam'], c['beam_unit'],
            c['phase'], c['phase_unit'], tuple(str(c.get(k)) for k in TYPED_KEYS))


# ---- edges (rejection of slit sets) ----------------------------------------------------------

def gen_edges(rng):
    """slit sets in degrees (exact floats), valid and malformed"""
    kind = rng.choice(['valid', 'valid', 'overlap', 'touch', 'inverted', 'zero-width', 'sizes', 'tdc-overlap', 'tdc-touch',
                       'full-turn', 'beyond-turn', 'empty'])
    slits = [(float(b * 360), float(e * 360)) for b, e in gen_slits(rng)]
    srt = sorted(slits)
    if kind == 'overlap' and len(slits) >= 2:
        i = rng.randrange(len(srt) - 1)
        srt[i] = (srt[i][0], srt[i + 1][0] + rng.choice([0.25, 1.0, 0.5 * (srt[i + 1][1] - srt[i + 1][0])]))
        slits = srt
    elif kind == 'touch' and len(slits) >= 2:
        i = rng.randrange(len(srt) - 1)
        srt[i] = (srt[i][0], srt[i + 1][0])
        slits = srt
    elif kind == 'inverted':
        i = rng.randrange(len(slits))
        slits[i] = (slits[i][1], slits[i][0])
    elif kind == 'zero-width':
        i = rng.randrange(len(slits))
        slits[i] = (slits[i][0], slits[i][0])
    elif kind == 'tdc-overlap':
        # last slit reaches past first begin + 360
        last = max(range(len(srt)), key=lambda i: srt[i][1])
        srt[last] = (srt[last][0], srt[0][0] + 360.0 + rng.choice([0.5, 1.0, 5.0, 0.5 * (srt[0][1] - srt[0][0])]))
        slits = srt
    elif kind == 'tdc-touch':
        last = max(range(len(srt)), key=lambda i: srt[i][1])
        srt[last] = (srt[last][0], srt[0][0] + 360.0)
        slits = srt
    elif kind == 'full-turn':
        b = rng.choice([0.0, 10.0, 350.0])
        slits = [(b, b + 360.0)]
    elif kind == 'beyond-turn':
        b = rng.choice([0.0, 10.0, 350.0])
        slits = [(b, b + 360.0 + rng.choice([0.5, 30.0, 400.0]))]
    elif kind == 'empty':
        slits = []
    rng.shuffle(slits)
    begins = [s[0] for s in slits]
    ends = [s[1] for s in slits]
    if kind == 'sizes':
        if rng.random() < 0.5 and ends:
            ends = ends[:-1]
        else:
            ends = [*ends, 400.0]
    unit = 'deg'
    return dict(kind=kind, begins=begins, ends=ends, unit=unit)


def impl_edges(c):
    import scipp as sc
    from scippneutron.chopper import DiskChopper

    try:
        DiskChopper(
            axle_position=sc.vector([0.0, 0.0, 7.5], unit='m'),
            frequency=sc.scalar(14.0, unit='Hz'),
            beam_position=sc.scalar(0.0, unit='deg'),
            phase=sc.scalar(0.0, unit='deg'),
            slit_begin=sc.array(dims=['slit'], values=np.array(c['begins'], dtype='float64'), unit=c['unit']),
            slit_end=sc.array(dims=['slit'], values=np.array(c['ends'], dtype='float64'), unit=c['unit']),
        )
    except Exception as e:  # noqa: BLE001
        return _err(e)
    return 'ok'


def edges_line(c, wrap):
    turn = Fraction(360)
    return ' '.join(['c10.edges', '1' if wrap else '0', qstr(turn), str(len(c['begins'])), str(len(c['ends']))] +
                    [qstr(Fraction(v)) for v in c['begins']] + [qstr(Fraction(v)) for v in c['ends']])


def circle_overlap(begins, ends):
    """exact: do the open arcs (begin, end) of two slits intersect modulo one turn (360 deg), or is a slit wider
    than a full turn?  Returns 'line', 'tdc' or None."""
    sl = [(Fraction(b), Fraction(e)) for b, e in zip(begins, ends)]
    for i, (b, e) in enumerate(sl):
        if e - b > 360:
            return 'tdc'
    res = None
    for i in range(len(sl)):
        for j in range(i + 1, len(sl)):
            (b1, e1), (b2, e2) = sl[i], sl[j]
            # shifts k such that (b1, e1) and (b2 + 360k, e2 + 360k) intersect:  b2 + 360k < e1  and  b1 < e2 + 360k
            lo = (b1 - e2) / 360
            hi = (e1 - b2) / 360
            k = math.floor(lo) + 1
            while k < hi:
                if e1 > b1 and e2 > b2:
                    if k == 0:
                        return 'line'
                    res = 'tdc'
                k += 1
    return res


# ---- integer-ratio test ----------------------------------------------------------------------

def gen_phase(rng):
    u = rng.random()
    base = rng.choice(RATIOS + [Fraction(5, 2), Fraction(3, 2), Fraction(2, 5), Fraction(100), Fraction(2, 3), Fraction(1, 7)])
    d = rng.choice([0, 0, 1e-9, -1e-9, 1e-8, -1e-8, 1.1e-8, -1.1e-8, 1e-7, -1e-7, 9.9e-9, -9.9e-9, 1e-3, 2.0**-27, -2.0**-27])
    pf_unit = rng.choice(['Hz', 'Hz', 'kHz', '1/min'])
    f_unit = pf_unit if rng.random() < 0.6 else rng.choice(['Hz', 'kHz', '1/min'])
    pf_hz = rng.choice([14.0, 10.0, 60.0, 1.0, 3.5])
    if u < 0.05:
        pf_hz = rng.choice([0.0, -14.0])
    elif u < 0.1:
        base = Fraction(rng.choice([1e9, 3e8 + 0.5, 1e-9, 123456.5]))
    sign = rng.choice([-1, 1])
    pf_val = pf_hz / float(F_UNITS[pf_unit])
    f_val = sign * float(base) * (1.0 + d) * pf_hz / float(F_UNITS[f_unit])
    if rng.random() < 0.1:
        f_val = float(np.nextafter(f_val, rng.choice([-math.inf, math.inf])))
    if f_val == 0.0:
        f_val = 1.0
    return dict(f_val=f_val, f_unit=f_unit, pf_val=pf_val, pf_unit=pf_unit)


def impl_phase(c):
    import scipp as sc
    from scippneutron.chopper import DiskChopper

    ch = DiskChopper(
        axle_position=sc.vector([0.0, 0.0, 7.5], unit='m'),
        frequency=sc.scalar(c['f_val'], unit=c['f_unit']),
        beam_position=sc.scalar(0.0, unit='deg'),
        phase=sc.scalar(0.0, unit='deg'),
        slit_begin=sc.array(dims=['slit'], values=[10.0], unit='deg'),
        slit_end=sc.array(dims=['slit'], values=[20.0], unit='deg'),
    )
    pf = sc.scalar(c['pf_val'], unit=c['pf_unit'])
    try:
        n = ch._source_phase_factor(pf)
    except Exception as e:  # noqa: BLE001
        return _err(e)
    if n <= 200:   # the public entry point repeats the single slit n + 1 times
        try:
            k = len(ch.time_offset_open(pulse_frequency=pf))
        except Exception as e:  # noqa: BLE001
            return _err(e)
        if k != n + 1:
            return f'inconsistent: factor {n} but {k} opening times for one slit'
    return f'ok {int(n)}'


def phase_line(c):
    import scipp as sc

    pf_conv = float(sc.scalar(c['pf_val'], unit=c['pf_unit']).to(unit=c['f_unit']).value)
    return f"c10.phase {bits(c['f_val'])} {bits(pf_conv)} {bits(1e-8)}"


# ---- object reuse: one DiskChopper queried several times ---------------------------------------

OUT_OF_PHASE = [Fraction(5, 2), Fraction(3, 2), Fraction(37, 100), Fraction(7, 3), Fraction(2, 3), Fraction(13, 10)]
METHODS = ['open-close-duration', 'close-open', 'duration-first', 'cascade', 'open-only']


def gen_history(rng):
    """a disk and 2-4 queries of the SAME object with different pulse frequencies (the chopper frequency divided by
    a ratio from 1/4..8, or by an out-of-phase number), in Hz / kHz / 1/min, float64 or (where exact) int64, with the
    public methods interleaved and dataclasses.replace copies in between"""
    c = gen_disk(rng)
    f_hz = abs(Fraction(c['f_val']) * F_UNITS[c['f_unit']])
    qs = []
    for _ in range(rng.randint(2, 4)):
        r = rng.choice(RATIOS) if rng.random() < 0.7 else rng.choice(OUT_OF_PHASE)
        pf_hz = f_hz / r
        unit = rng.choice(['Hz', 'Hz', 'kHz', '1/min'])
        v = pf_hz / F_UNITS[unit]
        dtype = 'float64'
        if v.denominator == 1 and abs(v) < 2**31 and rng.random() < 0.4 and (pf_hz / F_UNITS[c['f_unit']]).denominator == 1:
            dtype = rng.choice(['int64', 'int32'])
        qs.append(dict(method=rng.choice(METHODS), pf_val=_store(v, dtype), pf_dtype=dtype, pf_unit=unit,
                       npulses=rng.randint(1, 3), via=rng.choice(['same', 'same', 'same', 'replace']), ratio=str(r)))
    c['history'] = qs
    return c


def _query(obj, q):
    """one query of a chopper object: canonical result (exact times in seconds) or error enum"""
    import scipp as sc
    from scippneutron.tof.chopper_cascade import Chopper

    pf = sc.scalar(q['pf_val'], unit=q['pf_unit'], dtype=q['pf_dtype'])
    try:
        if q['method'] == 'cascade':
            r = Chopper.from_disk_chopper(obj, pulse_frequency=pf, npulses=q['npulses'])
            return ('cascade', _to_seconds(r.time_open), _to_seconds(r.time_close))
        if q['method'] == 'close-open':
            cl = obj.time_offset_close(pulse_frequency=pf)
            o = obj.time_offset_open(pulse_frequency=pf)
            return ('times', _to_seconds(o), _to_seconds(cl), None)
        if q['method'] == 'duration-first':
            d = obj.open_duration(pulse_frequency=pf)
            o = obj.time_offset_open(pulse_frequency=pf)
            cl = obj.time_offset_close(pulse_frequency=pf)
            return ('times', _to_seconds(o), _to_seconds(cl), _to_seconds(d))
        if q['method'] == 'open-only':
            o = obj.time_offset_open(pulse_frequency=pf)
            return ('times', _to_seconds(o), None, None)
        o = obj.time_offset_open(pulse_frequency=pf)
        cl = obj.time_offset_close(pulse_frequency=pf)
        d = obj.open_duration(pulse_frequency=pf)
        return ('times', _to_seconds(o), _to_seconds(cl), _to_seconds(d))
    except Exception as e:  # noqa: BLE001
        return _err(e)


def run_history(c, reuse):
    """results of the queries on ONE object (reuse=True; `replace` queries continue on a dataclasses.replace copy)
    or on a freshly constructed chopper per query"""
    import dataclasses

    try:
        cur = make_chopper(c)[0]
    except Exception as e:  # noqa: BLE001
        return [_err(e)] * len(c['history'])
    out = []
    for q in c['history']:
        if reuse:
            if q['via'] == 'replace':
                cur = dataclasses.replace(cur)
            obj = cur
        else:
            obj = make_chopper(c)[0]
        out.append(_query(obj, q))
    return out


def _query_case(c, q):
    """the disk with the pulse frequency of this query (for the model and the exact oracle)"""
    c2 = {k: v for k, v in c.items() if k != 'history'}
    c2.update(pf_val=q['pf_val'], pf_dtype=q['pf_dtype'], pf_unit=q['pf_unit'], npulses=q['npulses'])
    return c2


def oracle_history(ctx, c):
    """every result of a reused object equals that of a fresh chopper and is a correct set of openings"""
    reused = run_history(c, True)
    fresh = run_history(c, False)
    wit = {'op': 'history', 'case': _encode_disk(c)}
    for i, (q, a, b) in enumerate(zip(c['history'], reused, fresh)):
        if a != b:
            def show(r):
                return r if isinstance(r, str) else f'{len(r[1])} opening times'
            _report(ctx, 'C10:history-dependent',
                    f"query {i} ({q['method']}, pulse frequency {q['pf_val']} {q['pf_unit']}, ratio {q['ratio']}) on a chopper "
                    f'that was queried before gives {show(a)}, a freshly constructed chopper gives {show(b)}', wit)
            return
        # exact disk oracle on the reused object's answer
        c2 = _query_case(c, q)
        f, pf, beam, phase, slits = exact_inputs(c2)
        x = abs(f) / pf

        def dist(z):
            fl = math.floor(z)
            return min(z - fl, fl + 1 - z)

        in_phase = min(dist(x), dist(1 / x)) < Fraction(1, 10**9)
        if isinstance(a, str):
            continue    # rejected exactly as by a fresh chopper (compared above)
        if not in_phase:
            _report(ctx, 'C10:history-dependent', f'query {i}: out-of-phase pulse frequency (ratio {q["ratio"]}) accepted on a reused chopper', wit)
            return
        if a[0] == 'times' and a[2] is not None:
            sim = Sim(f, beam, phase, slits)
            period = 1 / abs(f)
            probs = check_openings(sim, a[1], a[2], period / 10**7, period / 10**10, f'query {i}')
            n = max(1, round(x))
            if len(a[1]) != (n + 1) * len(slits):
                probs.append(('count', f'query {i}: {len(a[1])} openings for {len(slits)} slits and ratio {q["ratio"]}'))
            if probs:
                _report(ctx, 'C10:history-dependent', probs[0][1], wit)
                return


# ---- correspondence --------------------------------------------------------------------------

def _corpus():
    d = os.path.join(os.path.dirname(os.path.dirname(os.path.dirname(os.path.abspath(__file__)))), 'corpus', PROP)
    out = []
    if os.path.isdir(d):
        for fn in sorted(os.listdir(d)):
            if fn.endswith('.json'):
                with open(os.path.join(d, fn)) as f:
                    out.append(json.load(f))
    return out


def correspond(ctx):
    rng = ctx.rng
    wrap, by_rot = code_variant(ctx.repo)
    ctx.count(f'variant:wrap={int(wrap)}:by_rotation={int(by_rot)}')
    disks = [_decode_disk(j['case']) for j in _corpus() if j.get('op') in ('disk', 'cascade')]
    disks += [gen_disk(rng) for _ in range(ctx.n(400, 6000))]
    lines = [disk_line('c10.times', c) for c in disks]
    casc_op = 'c10.cascade2' if by_rot else 'c10.cascade'
    lines += [disk_line('c10.cascade', c).replace('c10.cascade', casc_op, 1) for c in disks]
    outs = ctx.driver(lines)
    for c, out in zip(disks, outs[:len(disks)]):
        impl = impl_times(c)
        nontrivial = len(c['slits']) > 0 and (c['beam'] != 0 or c['phase'] != 0)
        ctx.case(('times', _disk_ident(c)), nontrivial, sample={'op': 'times', **_disk_sample(c)})
        ctx.count(f"times:ratio={abs(c['ratio'])}:{'cw' if c['ratio'] < 0 else 'acw'}")
        ctx.count(f"units:f={c['f_unit']}:pf={c['pf_unit']}")
        for nm in ('slit', 'beam', 'phase'):
            ctx.count(f"operand:{nm}:{c.get(nm + '_dtype', 'float64')}:{c[nm + '_unit']}")
        ctx.count(f"operand:f:{c.get('f_dtype', 'float64')}")
        ctx.count(f"operand:pf:{c.get('pf_dtype', 'float64')}")
        if c.get('beam_dtype', 'float64').startswith('int') and c['beam_unit'] != c['phase_unit']:
            ctx.count('operand:int-beam-other-unit-than-phase')
        ctx.count(f"slits:{len(c['slits'])}:{'tdc' if any(e > 1 for _, e in c['slits']) else 'plain'}")
        if not out.startswith('ok') or not isinstance(impl, tuple):
            if (impl if isinstance(impl, str) else 'ok') != out.split()[0]:
                ctx.disagree({'op': 'times', **_disk_sample(c)}, str(impl)[:200], out[:200], 'acceptance differs')
            continue
        m = _parse_lists(out)
        for name, iv, mv in (('open', impl[1], m['open']), ('close', impl[2], m['close']), ('dur', impl[3], m['dur'])):
            why = _cmp_lists(c, iv, mv)
            if why:
                ctx.disagree({'op': 'times', 'list': name, **_disk_sample(c)}, [float(v) for v in iv][:12],
                             [float(v) for v in mv][:12], why)
                break
        if impl[4] != (['slit'], ['slit']):
            ctx.disagree({'op': 'times', **_disk_sample(c)}, impl[4], [['slit'], ['slit']], 'dims of the result')
    for c, out in zip(disks, outs[len(disks):]):
        impl = impl_cascade(c)
        ctx.case(('cascade', c['npulses'], _disk_ident(c)), len(c['slits']) > 0 and c['npulses'] > 1,
                 sample={'op': 'cascade', **_disk_sample(c)})
        ctx.count(f"cascade:npulses={c['npulses']}:{'sub' if abs(c['ratio']) < 1 else 'int'}")
        if impl == 'err:unit' and c['f_unit'] != c['pf_unit'] and not by_rot:
            # offsets (unit of 1/pulse_frequency) + times (unit of 1/frequency): scipp refuses to add different
            # units. No pair is reported, so the property claims nothing; counted, not compared.
            ctx.count('cascade:mixed-units:err:unit')
            continue
        if not out.startswith('ok') or not isinstance(impl, tuple):
            if (impl if isinstance(impl, str) else 'ok') != out.split()[0]:
                ctx.disagree({'op': 'cascade', **_disk_sample(c)}, str(impl)[:200], out[:200], 'acceptance differs')
            continue
        m = _parse_lists(out)
        for name, iv, mv in (('open', impl[1], m['open']), ('close', impl[2], m['close'])):
            why = _cmp_lists(c, iv, mv)
            if why:
                ctx.disagree({'op': 'cascade', 'list': name, **_disk_sample(c)}, [float(v) for v in iv][:12],
                             [float(v) for v in mv][:12], why)
                break
        if impl[3] != 7.5:
            ctx.disagree({'op': 'cascade', **_disk_sample(c)}, impl[3], 7.5, 'distance is not the norm of the axle position')
    # one object, several queries: the model is a pure function of the arguments of each query
    hists = [gen_history(rng) for _ in range(ctx.n(60, 1200))]
    hl = []
    for c in hists:
        for q in c['history']:
            c2 = _query_case(c, q)
            hl.append(disk_line('c10.cascade', c2).replace('c10.cascade', casc_op, 1) if q['method'] == 'cascade'
                      else disk_line('c10.times', c2))
    houts = ctx.driver(hl)
    hi = 0
    for c in hists:
        res = run_history(c, True)
        for q, r in zip(c['history'], res):
            out = houts[hi]
            hi += 1
            c2 = _query_case(c, q)
            ctx.case(('history', q['method'], q['via'], _disk_ident(c2)), True,
                     sample={'op': 'history', 'method': q['method'], 'via': q['via'], 'ratio': q['ratio'], 'pf': [q['pf_val'], q['pf_unit']]})
            ctx.count(f"history:{q['method']}:{q['via']}:{'ok' if not isinstance(r, str) else r}")
            if isinstance(r, str) or not out.startswith('ok'):
                if r == 'err:unit' and q['method'] == 'cascade' and c['f_unit'] != q['pf_unit'] and not by_rot:
                    continue
                if (r if isinstance(r, str) else 'ok') != out.split()[0]:
                    ctx.disagree({'op': 'history', 'query': q, **_disk_sample(c2)}, str(r)[:120], out[:120],
                                 'acceptance on a reused chopper differs from the model')
                continue
            m = _parse_lists(out)
            pairs = [('open', r[1], m['open'])]
            if r[2] is not None:
                pairs.append(('close', r[2], m['close']))
            if r[0] == 'times' and r[3] is not None:
                pairs.append(('dur', r[3], m['dur']))
            for name, iv, mv in pairs:
                why = _cmp_lists(c2, iv, mv)
                if why:
                    ctx.disagree({'op': 'history', 'list': name, 'query': q, **_disk_sample(c2)}, [float(v) for v in iv][:8],
                                 [float(v) for v in mv][:8], 'reused chopper: ' + why)
                    break
    # rejection of slit sets
    edges = [j['case'] for j in _corpus() if j.get('op') == 'edges']
    edges.append(dict(kind='tdc-overlap', begins=[10.0, 300.0], ends=[30.0, 380.0], unit='deg'))
    edges += [gen_edges(rng) for _ in range(ctx.n(600, 8000))]
    eouts = ctx.driver([edges_line(c, wrap) for c in edges])
    for c, out in zip(edges, eouts):
        impl = impl_edges(c)
        ctx.case(('edges', tuple(c['begins']), tuple(c['ends'])), len(c['begins']) == len(c['ends']) and len(c['begins']) >= 1,
                 sample={'op': 'edges', **c, 'impl': impl})
        ctx.count(f"edges:{c['kind']}:{impl}")
        if impl != out:
            ctx.disagree({'op': 'edges', **c}, impl, out, 'slit validation differs from the model')
    # integer-ratio test, bit-exact
    phases = [gen_phase(rng) for _ in range(ctx.n(800, 12000))]
    pouts = ctx.driver([phase_line(c) for c in phases])
    for c, out in zip(phases, pouts):
        impl = impl_phase(c)
        ctx.case(('phase', bits(c['f_val']), c['f_unit'], bits(c['pf_val']), c['pf_unit']), True,
                 sample={'op': 'phase', **c, 'impl': impl})
        ctx.count('phase:' + (impl if impl.startswith('err') else 'ok'))
        if impl != out:
            ctx.disagree({'op': 'phase', **c}, impl, out, 'integer-ratio test differs from the (bit-exact) model')


# ---- direct oracle: brute-force simulation of the rotating disk in exact rationals -----------

class Sim:
    """Physical definition. In pulse-relative time t the disk has turned by f*t - phase turns since its TDC mark was
    at the TDC sensor, so the disk point at angle theta (anticlockwise from the mark) sits at lab angle theta + f*t - phase.
    A slit [b, e] is over the beam (lab angle `beam`) at t iff some theta in [b, e] has theta + f*t - phase = beam (mod 1)."""

    def __init__(self, f, beam, phase, slits):
        self.f, self.beam, self.phase, self.slits = f, beam, phase, slits

    def slit_open(self, s, t):
        b, e = self.slits[s]
        theta = self.beam + self.phase - self.f * t   # disk angle under the beam, modulo 1
        k = math.ceil(b - theta)                      # smallest k with theta + k >= b
        return theta + k <= e

    def open_slits(self, t):
        return [s for s in range(len(self.slits)) if self.slit_open(s, t)]

    def crossings(self, lo, hi):
        """all times in [lo, hi] at which a slit edge passes the beam"""
        out = set()
        for b, e in self.slits:
            for theta in (b, e):
                # theta + f t - phase = beam + k  =>  t = (beam + phase - theta + k)/f
                base = self.beam + self.phase - theta
                k0 = math.floor(min(self.f * lo, self.f * hi) - base) - 1
                k1 = math.ceil(max(self.f * lo, self.f * hi) - base) + 1
                for k in range(k0, k1 + 1):
                    t = (base + k) / self.f
                    if lo <= t <= hi:
                        out.add(t)
        return sorted(out)

    def openings(self, lo, hi):
        """maximal intervals within [lo, hi] during which one slit stays over the beam, per slit, found by
        sampling the state between consecutive edge crossings (the state cannot change in between)"""
        ts = [lo] + [t for t in self.crossings(lo, hi) if lo < t < hi] + [hi]
        out = []
        for s in range(len(self.slits)):
            cur = None
            for a, b in zip(ts[:-1], ts[1:]):
                if a == b:
                    continue
                if self.slit_open(s, (a + b) / 2):
                    if cur is not None and cur[1] == a:
                        cur[1] = b
                    else:
                        if cur is not None:
                            out.append((cur[0], cur[1]))
                        cur = [a, b]
                else:
                    if cur is not None:
                        out.append((cur[0], cur[1]))
                    cur = None
            if cur is not None:
                out.append((cur[0], cur[1]))
        return sorted(out)


def check_openings(sim, opens, closes, eps, tol, what):
    """The property on a list of reported (open, close) pairs. Returns list of (kind, message)."""
    probs = []
    n = len(opens)
    if n != len(closes):
        return [('length', f'{what}: {n} open times but {len(closes)} close times')]
    if n == 0:
        return probs
    for i, (o, c) in enumerate(zip(opens, closes)):
        if not o < c:
            probs.append(('order', f'{what}[{i}]: open {float(o)} is not before close {float(c)}'))
            continue
        pts = [o + eps, (o + c) / 2, c - eps, o + (c - o) / 3]
        if any(not sim.open_slits(t) for t in pts if o < t < c):
            probs.append(('closed-inside', f'{what}[{i}]: no slit is over the beam at some time inside [{float(o)}, {float(c)}]'))
            continue
        if sim.open_slits(o - eps) or sim.open_slits(c + eps):
            probs.append(('open-outside', f'{what}[{i}]: a slit is over the beam just outside [{float(o)}, {float(c)}] (not maximal)'))
        s = sim.open_slits((o + c) / 2)[0]
        b, e = sim.slits[s]
        if abs((c - o) - (e - b) / abs(sim.f)) > 2 * tol:
            probs.append(('duration', f'{what}[{i}]: duration {float(c - o)} is not slit width / |speed| = {float((e - b) / abs(sim.f))}'))
    if probs:
        return probs
    lo, hi = min(opens), max(closes)
    truth = sim.openings(lo - 2 * eps, hi + 2 * eps)
    truth = [iv for iv in truth if iv[1] > lo + eps and iv[0] < hi - eps]
    rep = sorted(zip(opens, closes))
    # repeated
    for (o1, c1), (o2, c2) in zip(rep[:-1], rep[1:]):
        if abs(o1 - o2) <= 2 * tol and abs(c1 - c2) <= 2 * tol:
            probs.append(('duplicate', f'{what}: opening [{float(o1)}, {float(c1)}] is reported twice'))
            break
    # missing / spurious
    for (a, b) in truth:
        if not any(abs(a - o) <= 2 * tol and abs(b - c) <= 2 * tol for o, c in rep):
            probs.append(('missing', f'{what}: the opening [{float(a)}, {float(b)}] inside the reported span is missing'))
            break
    for (o, c) in rep:
        if not any(abs(a - o) <= 2 * tol and abs(b - c) <= 2 * tol for a, b in truth):
            probs.append(('not-an-opening', f'{what}: [{float(o)}, {float(c)}] is not a maximal opening of the disk'))
            break
    # once per rotation: per slit, consecutive distinct openings one period apart
    period = 1 / abs(sim.f)
    by_slit = {}
    for o, c in rep:
        by_slit.setdefault(sim.open_slits((o + c) / 2)[0], []).append(o)
    for s, os_ in by_slit.items():
        for o1, o2 in zip(os_[:-1], os_[1:]):
            if abs(o2 - o1) <= 2 * tol:
                continue   # reported as duplicate above
            if abs((o2 - o1) - period) > 2 * tol:
                probs.append(('once-per-rotation', f'{what}: consecutive openings of slit {s} are {float(o2 - o1)} apart, period {float(period)}'))
                break
    if len(by_slit) != len(sim.slits):
        probs.append(('missing', f'{what}: only {len(by_slit)} of {len(sim.slits)} slits appear'))
    return probs


def oracle_disk(ctx, c, do_cascade=True):
    f, pf, beam, phase, slits = exact_inputs(c)
    # simulate with the exact values of the *float* inputs where possible (deg); rad inputs are within 1e-16
    sim = Sim(f, beam, phase, slits)
    period = 1 / abs(f)
    eps = period / 10**7          # probes this far inside / outside an interval; slits and gaps are >= period/720
    tol = period / 10**10         # agreement of reported times with exact crossing times
    wit = {'op': 'disk', 'case': _encode_disk(c)}
    impl = impl_times(c)
    if not isinstance(impl, tuple):
        _report(ctx, 'C10:integer-ratio-rejected', f'valid disk (ratio {c["ratio"]}) rejected with {impl}', wit)
        return
    probs = check_openings(sim, impl[1], impl[2], eps, tol, 'time_offset')
    # open_duration agrees with close - open
    for i, (o, cl, d) in enumerate(zip(impl[1], impl[2], impl[3])):
        if abs((cl - o) - d) > 2 * tol:
            probs.append(('duration', f'open_duration[{i}] differs from close - open'))
            break
    n = max(1, round(abs(c['ratio'])))
    if len(impl[1]) != (n + 1) * len(slits):
        probs.append(('count', f'{len(impl[1])} openings reported for {len(slits)} slits and ratio {c["ratio"]}'))
    seen = set()
    for kind, msg in probs:
        key = {'order': 'C10:open-not-before-close', 'closed-inside': 'C10:closed-inside-interval',
               'open-outside': 'C10:not-maximal-interval', 'duration': 'C10:duration', 'duplicate': 'C10:duplicate-openings',
               'missing': 'C10:missing-opening', 'not-an-opening': 'C10:not-an-opening',
               'once-per-rotation': 'C10:not-once-per-rotation', 'count': 'C10:opening-count', 'length': 'C10:opening-count'}[kind]
        if key not in seen:
            seen.add(key)
            _report(ctx, key, msg, wit)
    if not do_cascade:
        return
    casc = impl_cascade(c)
    if casc == 'err:unit' and c['f_unit'] != c['pf_unit']:
        return   # nothing reported (scipp refuses to add min and s); the property speaks about reported pairs
    if not isinstance(casc, tuple):
        _report(ctx, 'C10:cascade-error', f'from_disk_chopper raised {casc}', {**wit, 'op': 'cascade'})
        return
    sub = abs(c['ratio']) < 1
    probs = check_openings(sim, casc[1], casc[2], eps, tol, 'cascade')
    seen = set()
    for kind, msg in probs:
        if kind in ('closed-inside', 'open-outside', 'not-an-opening', 'once-per-rotation', 'duration', 'order'):
            key = 'C10:cascade-subharmonic-offsets' if sub else 'C10:cascade-wrong-opening'
        elif kind == 'duplicate':
            key = 'C10:cascade-duplicate-openings'
        elif kind == 'missing':
            key = 'C10:cascade-subharmonic-offsets' if (sub and seen) else 'C10:cascade-missing-opening'
        else:
            key = 'C10:cascade-opening-count'
        if key not in seen:
            seen.add(key)
            _report(ctx, key, f'ratio {c["ratio"]}, {c["npulses"]} pulses: {msg}', {**wit, 'op': 'cascade'})


def _encode_disk(c):
    j = dict(c)
    j['ratio'] = str(c['ratio'])
    j['slits'] = [[str(b), str(e)] for b, e in c['slits']]
    j['beam'] = str(c['beam'])
    j['phase'] = str(c['phase'])
    return j


def _decode_disk(j):
    c = dict(j)
    c['ratio'] = Fraction(j['ratio'])
    if 'beam_val' in j:
        return _finish_disk(c)
    c['slits'] = [(Fraction(b), Fraction(e)) for b, e in j['slits']]
    c['beam'] = Fraction(j['beam'])
    c['phase'] = Fraction(j['phase'])
    return c


def oracle_edges(ctx, c):
    impl = impl_edges(c)
    if len(c['begins']) != len(c['ends']):
        return
    ov = circle_overlap(c['begins'], c['ends'])
    inverted = any(Fraction(b) > Fraction(e) for b, e in zip(c['begins'], c['ends']))
    if impl == 'ok' and not inverted:
        if ov == 'line':
            _report(ctx, 'C10:overlap-accepted', 'slits that overlap on the disk are accepted', {'op': 'edges', 'case': c})
        elif ov == 'tdc':
            _report(ctx, 'C10:overlap-across-tdc',
                          f'slits that overlap across top-dead-centre are accepted: begin={c["begins"]} end={c["ends"]} deg',
                          {'op': 'edges', 'case': c})
    if impl == 'ok' and inverted:
        _report(ctx, 'C10:inverted-slit-accepted', 'a slit with begin > end is accepted', {'op': 'edges', 'case': c})
    if impl != 'ok' and c['kind'] == 'valid':
        _report(ctx, 'C10:valid-slits-rejected', f'non-overlapping slits within one turn are rejected ({impl})',
                      {'op': 'edges', 'case': c})


def oracle_phase(ctx, c):
    impl = impl_phase(c)
    if c['pf_val'] <= 0:
        if not impl.startswith('err'):
            _report(ctx, 'C10:nonpositive-pulse-frequency-accepted', 'pulse frequency <= 0 accepted', {'op': 'phase', 'case': c})
        return
    f = abs(Fraction(c['f_val'])) * F_UNITS[c['f_unit']]
    pf = Fraction(c['pf_val']) * F_UNITS[c['pf_unit']]
    x = f / pf

    def dist(z):
        fl = math.floor(z)
        return min(z - fl, fl + 1 - z)

    d = min(dist(x), dist(1 / x))
    rtol = Fraction(1, 10**8)
    slack = Fraction(1, 10**14) * max(x, 1 / x, 1) + rtol / 10**6
    if d > rtol + slack and impl.startswith('ok'):
        _report(ctx, 'C10:non-integer-ratio-accepted',
                      f'|f|/f_pulse = {float(x)!r} is {float(d):.3e} away from every integer and inverse integer but is accepted',
                      {'op': 'phase', 'case': c})
    if d < rtol - slack:
        if not impl.startswith('ok'):
            _report(ctx, 'C10:integer-ratio-rejected', f'|f|/f_pulse = {float(x)!r} rejected ({impl})', {'op': 'phase', 'case': c})
        elif dist(x) < rtol - slack and impl != f'ok {max(1, round(x))}':
            _report(ctx, 'C10:wrong-repetition-count', f'|f|/f_pulse = {float(x)!r} but {impl}', {'op': 'phase', 'case': c})


def oracle(ctx, deep):
    rng = ctx.rng
    for j in _corpus():
        if j.get('op') in ('disk', 'cascade'):
            oracle_disk(ctx, _decode_disk(j['case']))
    for _ in range(1500 if deep else ctx.n(150, 2500)):
        c = gen_disk(rng)
        ctx.case(('oracle-disk', c['npulses'], _disk_ident(c)), len(c['slits']) > 0)
        oracle_disk(ctx, c)
    for _ in range(600 if deep else ctx.n(60, 1000)):
        c = gen_history(rng)
        ctx.case(('oracle-history', json.dumps(c['history'], sort_keys=True), _disk_ident(c)), True)
        oracle_history(ctx, c)
    oracle_edges(ctx, dict(kind='tdc-overlap', begins=[10.0, 300.0], ends=[30.0, 380.0], unit='deg'))
    for _ in range(3000 if deep else ctx.n(400, 5000)):
        c = gen_edges(rng)
        ctx.case(('oracle-edges', tuple(c['begins']), tuple(c['ends'])), True)
        oracle_edges(ctx, c)
    for _ in range(3000 if deep else ctx.n(400, 5000)):
        c = gen_phase(rng)
        ctx.case(('oracle-phase', bits(c['f_val']), c['f_unit'], bits(c['pf_val']), c['pf_unit']), True)
        oracle_phase(ctx, c)


class _Collect:
    def __init__(self):
        self.keys = []

    def violation(self, key, what, witness):
        self.keys.append(key)

    def case(self, *a, **k):
        pass

    def count(self, *a, **k):
        pass


def replay(ctx, payload):
    w = payload.get('witness', {})
    key = payload.get('key', '')
    col = _Collect()
    if w.get('op') in ('disk', 'cascade'):
        oracle_disk(col, _decode_disk(w['case']))
    elif w.get('op') == 'history':
        oracle_history(col, _decode_disk(w['case']))
    elif w.get('op') == 'edges':
        oracle_edges(col, w['case'])
    elif w.get('op') == 'phase':
        oracle_phase(col, w['case'])
    else:
        print('no specific replay for key', key)
        return False
    return key in col.keys
