"""C11, typed operands: dtype in {float64, float32, int64, int32} and units (time s/ms/us, wavelength
angstrom/nm/m, distance m/cm/mm) independently per operand.

* correspondence (canonical units s / angstrom / m, any dtype per operand): the generic Lean model is run at
  the carrier `TV` (value + scipp dtype, `Model/CascadeTyped.lean`) and must agree with the real code bit for
  bit, including the dtype of every result and the `DTypeError` / `UnitError` / `ValueError` outcomes; every
  `_chop` and `propagate_times` call of the real code inside these programs is replayed as well.
* oracle (any unit, any dtype): the exact value of the typed inputs (integer / binary fraction times the exact
  unit scale) defines the pulse, the windows and the distances; neutrons are flown in exact rationals and compared
  with the reported polygons; every reported vertex must be a transmitted point up to rounding.
"""
from __future__ import annotations

import math
import random
import struct
from fractions import Fraction

import numpy as np

DTYPES = ['float64', 'float32', 'int64', 'int32']
TAG = {'float64': 'd', 'float32': 's', 'int64': 'l', 'int32': 'i'}
UNTAG = {v: k for k, v in TAG.items()}
TIME_UNITS = {'s': Fraction(1), 'ms': Fraction(1, 1000), 'us': Fraction(1, 10**6)}
WAV_UNITS = {'angstrom': Fraction(1), 'nm': Fraction(10), 'm': Fraction(10**10)}
DIST_UNITS = {'m': Fraction(1), 'cm': Fraction(1, 100), 'mm': Fraction(1, 1000)}
TABLES = {'s': TIME_UNITS, 'angstrom': WAV_UNITS, 'm': DIST_UNITS}


def bits(x) -> str:
    return struct.pack('>d', float(x)).hex()


def unbits(h: str) -> float:
    return struct.unpack('>d', bytes.fromhex(h))[0]


def ttok(v, dt) -> str:
    return TAG[dt] + bits(v)


def untok(t):
    return (UNTAG[t[0]], float('nan') if t[1:] == 'nan' else unbits(t[1:]))


def _mods():
    import scipp as sc
    from scippneutron.tof import chopper_cascade as cc

    return sc, cc


def fit(v, dt):
    """a value representable in dtype `dt` (Python int for integer dtypes, binary64 float holding the float32 value)"""
    if dt.startswith('int'):
        return int(round(v))
    if dt == 'float32':
        return float(np.float32(v))
    return float(v)


def var(op):
    sc, _ = _mods()
    return sc.scalar(op['v'], unit=op['u'], dtype=op['dt'])


def arr(vals, unit, dt):
    sc, _ = _mods()
    return sc.array(dims=['w'], values=list(vals), unit=unit, dtype=dt)


def exact(op, table) -> Fraction:
    return Fraction(op['v']) * table[op['u']]


def _errkind(e: Exception) -> str:
    sc, _ = _mods()
    for t, k in ((sc.DTypeError, 'dtype'), (sc.UnitError, 'unit'), (NotImplementedError, 'notimpl'), (ValueError, 'value'),
                 (AttributeError, 'attribute'), (IndexError, 'index')):
        if isinstance(e, t):
            return k
    return 'other:' + type(e).__name__


# ---- canonical form of results (typed) --------------------------------------------------------

def tv(x, dtype) -> tuple:
    return (str(dtype), float(x))


def canon_frame_t(f, budget):
    """(dist (dtype, value, unit), [((tdtype, times), (wdtype, wavelengths))], bounds, subbounds) — typed"""
    subs = []
    for s in f.subframes:
        subs.append(((str(s.time.dtype), [float(x) for x in s.time.values]),
                     (str(s.wavelength.dtype), [float(x) for x in s.wavelength.values])))
    if not budget():
        bounds = 'skipped'
    else:
        try:
            b = f.bounds()
            bt, bw = b['time'], b['wavelength']
            bounds = ((str(bt.dtype), float(bt.values[0])), (str(bt.dtype), float(bt.values[1])),
                      (str(bw.dtype), float(bw.values[0])), (str(bw.dtype), float(bw.values[1])))
        except RuntimeError as e:
            bounds = 'skipped' if 'dimension labels' in str(e) else 'E'
        except Exception:  # noqa: BLE001
            bounds = 'E'
    try:
        sb = f.subbounds()
        st, sw = sb['time'], sb['wavelength']
        sub = [((str(st.dtype), float(st.values[i][0])), (str(st.dtype), float(st.values[i][1])),
                (str(sw.dtype), float(sw.values[i][0])), (str(sw.dtype), float(sw.values[i][1]))) for i in range(len(st.values))]
    except Exception as e:  # noqa: BLE001
        sub = ('E', _errkind(e))
    return ((str(f.distance.dtype), float(f.distance.value), str(f.distance.unit)), subs, bounds, sub)


def mk_chopper_t(c):
    _, cc = _mods()
    return cc.Chopper(distance=var(c['d']), time_open=arr(c['open'], c['tu'], c['tdt']), time_close=arr(c['close'], c['tu'], c['tdt']))


def mk_source_t(p):
    _, cc = _mods()
    return cc.FrameSequence.from_source_pulse(var(p['t'][0]), var(p['t'][1]), var(p['w'][0]), var(p['w'][1]))


def run_impl_t(case, budget, keep=False):
    status = 'ok'
    qs = []
    fs = None
    try:
        fs = mk_source_t(case['pulse'])
    except Exception as e:  # noqa: BLE001
        res = (f'err:{_errkind(e)}:source', [], [])
        return (res, None) if keep else res
    for i, op in enumerate(case['ops']):
        try:
            if op[0] == 'C':
                fs = fs.chop([mk_chopper_t(c) for c in op[1]])
            elif op[0] == 'T':
                fs = fs.propagate_to(var(op[1]))
            elif op[0] == 'Q':
                try:
                    qs.append(('Q', canon_frame_t(fs[var(op[1])], budget)))
                except Exception as e:  # noqa: BLE001
                    qs.append(('QE', _errkind(e)))
        except Exception as e:  # noqa: BLE001
            status = f'err:{_errkind(e)}:{i}'
            break
    res = (status, qs, [canon_frame_t(f, budget) for f in fs.frames])
    return (res, fs) if keep else res


class RecorderT:
    """typed recording of `_chop` and `propagate_times` (values + dtypes, outcome incl. the exception kind)"""

    def __init__(self):
        self.chops = []
        self.props = []

    def __enter__(self):
        _, cc = _mods()
        self.cc = cc
        self.orig_chop, self.orig_prop = cc._chop, cc.propagate_times
        rec = self

        def chop(frame, time, close_to_open):
            inp = (bool(close_to_open), (str(time.dtype), float(time.value), str(time.unit)),
                   (str(frame.time.dtype), [float(x) for x in frame.time.values]),
                   (str(frame.wavelength.dtype), [float(x) for x in frame.wavelength.values]))
            try:
                out = rec.orig_chop(frame, time, close_to_open)
            except Exception as e:  # noqa: BLE001
                rec.chops.append(inp + (('err', _errkind(e)),))
                raise
            rec.chops.append(inp + (None if out is None else (
                (str(out.time.dtype), [float(x) for x in out.time.values]),
                (str(out.wavelength.dtype), [float(x) for x in out.wavelength.values])),))
            return out

        def prop(time, wavelength, distance):
            out = rec.orig_prop(time, wavelength, distance)
            if time.ndim == 1 and wavelength.ndim == 1 and distance.ndim == 0:
                rec.props.append(((str(distance.dtype), float(distance.value), str(distance.unit)),
                                  (str(time.dtype), [float(x) for x in time.values]),
                                  (str(wavelength.dtype), [float(x) for x in wavelength.values]),
                                  (str(out.dtype), [float(x) for x in out.values])))
            return out

        cc._chop, cc.propagate_times = chop, prop
        return self

    def __exit__(self, *a):
        self.cc._chop, self.cc.propagate_times = self.orig_chop, self.orig_prop


# ---- the typed Lean model ---------------------------------------------------------------------

def trun_line(case, k):
    p = case['pulse']
    toks = ['c11.trun', ttok(k[0], 'float64'), ttok(k[1], 'float64'), ttok(k[2], 'float64')]
    toks += [ttok(o['v'], o['dt']) for o in (p['t'][0], p['t'][1], p['w'][0], p['w'][1])]
    for op in case['ops']:
        if op[0] == 'C':
            toks += ['C', str(len(op[1]))]
            for c in op[1]:
                toks += [ttok(c['d']['v'], c['d']['dt']), '1' if c['tu'] == 's' else '0', str(len(c['open']))]
                for o, cl in zip(c['open'], c['close']):
                    toks += [ttok(o, c['tdt']), ttok(cl, c['tdt'])]
        else:
            toks += [op[0], ttok(op[1]['v'], op[1]['dt'])]
    return ' '.join(toks)


def parse_trun(line):
    toks = line.split(' ')
    pos = 0

    def tok():
        nonlocal pos
        pos += 1
        return toks[pos - 1]

    def num():
        return untok(tok())

    def frame():
        d = num()
        nsub = int(tok())
        subs = []
        for _ in range(nsub):
            nv = int(tok())
            ts, ws = [], []
            for _ in range(nv):
                ts.append(num())
                ws.append(num())
            subs.append((ts, ws))
        t = tok()
        bounds = (num(), num(), num(), num()) if t == 'B' else 'E'
        t = tok()
        if t == 'S':
            n = int(tok())
            sub = [(num(), num(), num(), num()) for _ in range(n)]
        else:
            sub = ('E', tok())
        return (d, subs, bounds, sub)

    status = tok()
    qs, frames = [], []
    while pos < len(toks):
        t = tok()
        if t == 'Q':
            qs.append(('Q', frame()))
        elif t == 'QE':
            qs.append(('QE', tok()))
        elif t == 'F':
            frames.append(frame())
        else:
            raise ValueError('bad model output token ' + t)
    return (status, qs, frames)


def _tvkey(x):
    return (x[0], bits(x[1]))


def impl_frame_key(f):
    """the implementation's frame in the shape of the model's: per-vertex typed numbers, bit patterns"""
    (ddt, dv, du), subs, bounds, sub = f
    ksubs = []
    for (tdt, ts), (wdt, ws) in subs:
        ksubs.append(([(tdt, bits(t)) for t in ts], [(wdt, bits(w)) for w in ws]))
    kb = bounds if bounds in ('E', 'skipped') else tuple(_tvkey(x) for x in bounds)
    ks = sub if isinstance(sub, tuple) and sub and sub[0] == 'E' else [tuple(_tvkey(x) for x in q) for q in sub]
    return ((ddt, bits(dv)), ksubs, kb, ks)


def model_frame_key(f, skip_bounds):
    d, subs, bounds, sub = f
    ksubs = [([_tvkey(t) for t in ts], [_tvkey(w) for w in ws]) for ts, ws in subs]
    kb = 'skipped' if skip_bounds else (bounds if bounds == 'E' else tuple(_tvkey(x) for x in bounds))
    ks = sub if isinstance(sub, tuple) and sub and sub[0] == 'E' else [tuple(_tvkey(x) for x in q) for q in sub]
    return (_tvkey(d), ksubs, kb, ks)


# ---- generators -------------------------------------------------------------------------------

def _lu(rng, lo, hi):
    return math.exp(rng.uniform(math.log(lo), math.log(hi)))


def pick_dt(rng, bias=0.55):
    return 'float64' if rng.random() < bias else rng.choice(DTYPES)


def gen_operand(rng, value_base, table, dt, unit):
    """an operand of dtype `dt` in `unit` whose exact value is close to `value_base` (in base units)"""
    v = float(Fraction(value_base) / table[unit])
    return {'v': fit(v, dt), 'dt': dt, 'u': unit}


def gen_case_t(rng, units: bool, count=None):
    """typed program. `units=False`: canonical units only (model correspondence); True: any unit (oracle)."""
    sc, cc = _mods()
    tdt, wdt = pick_dt(rng), pick_dt(rng, 0.4)
    tu = rng.choice(list(TIME_UNITS)) if units and rng.random() < 0.6 else 's'
    wu = rng.choice(['angstrom', 'nm', 'm'] if not wdt.startswith('int') else ['angstrom', 'nm']) if units and rng.random() < 0.6 else 'angstrom'
    # pulse: integer dtypes need integer values in their unit
    if tdt.startswith('int'):
        if tu == 's':
            t0, t1 = 0, rng.choice([1, 2, 3])
        elif tu == 'ms':
            t0, t1 = rng.choice([0, 1]), rng.choice([3, 5, 20, 1500])
        else:
            t0, t1 = rng.choice([0, 100]), rng.choice([500, 2860, 5000])
        tmin, tmax = {'v': t0, 'dt': tdt, 'u': tu}, {'v': t0 + t1, 'dt': tdt, 'u': tu}
    else:
        a = rng.choice([0.0, rng.uniform(0, 2e-3)])
        b = a + _lu(rng, 1e-4, 5e-3)
        tmin, tmax = gen_operand(rng, a, TIME_UNITS, tdt, tu), gen_operand(rng, b, TIME_UNITS, tdt, tu)
    if wdt.startswith('int'):
        w0 = rng.randint(1, 6)
        w1 = w0 + rng.randint(1, 12)
        if wu == 'nm':
            wmin, wmax = {'v': w0, 'dt': wdt, 'u': 'nm'}, {'v': w1, 'dt': wdt, 'u': 'nm'}
        else:
            wmin, wmax = {'v': w0, 'dt': wdt, 'u': 'angstrom'}, {'v': w1, 'dt': wdt, 'u': 'angstrom'}
    else:
        a = _lu(rng, 0.2, 8.0)
        b = a + _lu(rng, 0.3, 12.0)
        wmin, wmax = gen_operand(rng, a, WAV_UNITS, wdt, wu), gen_operand(rng, b, WAV_UNITS, wdt, wu)
    if not (exact(tmin, TIME_UNITS) < exact(tmax, TIME_UNITS) and exact(wmin, WAV_UNITS) < exact(wmax, WAV_UNITS)):
        return gen_case_t(rng, units, count)
    pulse = {'t': [tmin, tmax], 'w': [wmin, wmax]}
    if count:
        count(f'typed:pulse:time:{tdt}:{tu}')
        count(f'typed:pulse:wavelength:{wdt}:{wu}')
    K = float(_kfrac())
    tlo, thi = float(exact(tmin, TIME_UNITS)), float(exact(tmax, TIME_UNITS))
    wlo, whi = float(exact(wmin, WAV_UNITS)), float(exact(wmax, WAV_UNITS))
    nch = rng.choice([0, 1, 1, 2, 2, 3])
    dists = sorted(rng.uniform(1.0, 60.0) for _ in range(nch))
    ops = []
    choppers = []
    for d in dists:
        ddt = pick_dt(rng)
        du = rng.choice(list(DIST_UNITS)) if units and rng.random() < 0.5 else 'm'
        dop = gen_operand(rng, d, DIST_UNITS, ddt, du)
        if ddt.startswith('int') and dop['v'] == 0:
            dop['v'] = 1
        dex = float(exact(dop, DIST_UNITS))
        # the frame extent at this chopper, from the exact values (not from the code under test)
        lo, hi = tlo + K * dex * wlo, thi + K * dex * whi
        ctdt = pick_dt(rng, 0.7)
        ctu = rng.choice(list(TIME_UNITS)) if units and rng.random() < 0.15 else ('s' if rng.random() < 0.93 else rng.choice(['ms', 'us']))
        nw = rng.randint(1, 3)
        cuts = sorted(rng.uniform(lo - 0.2 * (hi - lo), hi + 0.2 * (hi - lo)) for _ in range(2 * nw))
        kind = rng.random()
        if kind < 0.25:  # one window containing everything
            cuts = [lo - (hi - lo), hi + (hi - lo)]
            nw = 1
        elif kind < 0.45:  # opening inside the bottom edge
            cuts = [rng.uniform(tlo + K * dex * wlo, thi + K * dex * wlo), hi + (hi - lo)]
            nw = 1
        scale = float(1 / TIME_UNITS[ctu])
        opens = [fit(cuts[2 * i] * scale, ctdt) for i in range(nw)]
        closes = [fit(cuts[2 * i + 1] * scale, ctdt) for i in range(nw)]
        if ctdt.startswith('int'):
            opens = [min(o, c) for o, c in zip(opens, closes)]
        c = {'d': dop, 'tdt': ctdt, 'tu': ctu, 'open': opens, 'close': closes}
        choppers.append(c)
        if count:
            count(f'typed:chopper:distance:{ddt}:{du}')
            count(f'typed:chopper:times:{ctdt}:{ctu}')
    if choppers:
        grp = list(choppers)
        rng.shuffle(grp)
        if len(grp) > 1 and rng.random() < 0.3:
            k = rng.randint(1, len(grp) - 1)
            first = sorted(grp, key=lambda c: exact(c['d'], DIST_UNITS))[:k]
            rest = [c for c in grp if c not in first]
            ops += [['C', first], ['C', rest]]
        else:
            ops.append(['C', grp])
    maxd = max([float(exact(c['d'], DIST_UNITS)) for c in choppers] + [1.0])
    for _ in range(rng.randint(0, 2)):
        ddt = pick_dt(rng)
        du = rng.choice(list(DIST_UNITS)) if units and rng.random() < 0.5 else 'm'
        r = rng.random()
        d = maxd + _lu(rng, 0.5, 40) if r < 0.6 else rng.uniform(0.5, maxd * 1.2)
        dop = gen_operand(rng, d, DIST_UNITS, ddt, du)
        if r < 0.6 and rng.random() < 0.6:
            if float(exact(dop, DIST_UNITS)) >= maxd:
                ops.append(['T', dop])
                maxd = float(exact(dop, DIST_UNITS))
                if count:
                    count(f'typed:propagate_to:{ddt}:{du}')
        else:
            ops.insert(rng.randint(0, len(ops)), ['Q', dop])
            if count:
                count(f'typed:getitem:{ddt}:{du}')
    return {'pulse': pulse, 'ops': ops}


def case_ident_t(case):
    def o(op):
        return (op['dt'], op['u'], bits(op['v']))
    out = [tuple(o(x) for x in case['pulse']['t'] + case['pulse']['w'])]
    for op in case['ops']:
        if op[0] == 'C':
            out.append(('C', tuple((o(c['d']), c['tdt'], c['tu'], tuple(map(bits, c['open'])), tuple(map(bits, c['close']))) for c in op[1])))
        else:
            out.append((op[0], o(op[1])))
    return tuple(out)


def case_json_t(case):
    def o(op):
        return {'v': op['v'] if isinstance(op['v'], int) else float(op['v']).hex(), 'dt': op['dt'], 'u': op['u']}

    def val(x):
        return x if isinstance(x, int) else float(x).hex()
    ops = []
    for op in case['ops']:
        if op[0] == 'C':
            ops.append(['C', [{'d': o(c['d']), 'tdt': c['tdt'], 'tu': c['tu'], 'open': [val(x) for x in c['open']],
                               'close': [val(x) for x in c['close']]} for c in op[1]]])
        else:
            ops.append([op[0], o(op[1])])
    return {'pulse': {'t': [o(x) for x in case['pulse']['t']], 'w': [o(x) for x in case['pulse']['w']]}, 'ops': ops}


def case_from_json_t(j):
    def val(x):
        return x if isinstance(x, int) else float.fromhex(x)

    def o(op):
        return {'v': val(op['v']), 'dt': op['dt'], 'u': op['u']}
    ops = []
    for op in j['ops']:
        if op[0] == 'C':
            ops.append(['C', [{'d': o(c['d']), 'tdt': c['tdt'], 'tu': c['tu'], 'open': [val(x) for x in c['open']],
                               'close': [val(x) for x in c['close']]} for c in op[1]]])
        else:
            ops.append([op[0], o(op[1])])
    return {'pulse': {'t': [o(x) for x in j['pulse']['t']], 'w': [o(x) for x in j['pulse']['w']]}, 'ops': ops}


_K = [None]


def _kfrac():
    if _K[0] is None:
        sc, _ = _mods()
        _K[0] = (Fraction(float(sc.constants.m_n.value)) / Fraction(float(sc.constants.h.value))
                 * Fraction(float(sc.to_unit(sc.scalar(1.0, unit='angstrom'), 'm').value)))
    return _K[0]


def consts():
    sc, _ = _mods()
    return (float(sc.constants.m_n.value), float(sc.constants.h.value),
            float(sc.to_unit(sc.scalar(1.0, unit='angstrom'), 'm').value))


# ---- correspondence ---------------------------------------------------------------------------

def correspond_typed(ctx, budget):
    k = consts()
    cases = [gen_case_t(ctx.rng, False, ctx.count) for _ in range(ctx.n(250, 1500))]
    impl = []
    chop_calls, prop_calls = {}, {}
    for case in cases:
        with RecorderT() as rec:
            res = run_impl_t(case, budget)
        impl.append(res)
        for c in rec.chops:
            if c[1][2] != 's':
                continue  # UnitError before any arithmetic: covered at cascade level
            key = (c[0], c[1][0], bits(c[1][1]), c[2][0], tuple(map(bits, c[2][1])), c[3][0], tuple(map(bits, c[3][1])))
            chop_calls.setdefault(key, c)
        for c in rec.props:
            if c[0][2] != 'm':
                continue
            key = (c[0][0], bits(c[0][1]), c[1][0], tuple(map(bits, c[1][1])), c[2][0], tuple(map(bits, c[2][1])))
            prop_calls.setdefault(key, c)
    outs = ctx.driver([trun_line(c, k) for c in cases])
    for case, res, out in zip(cases, impl, outs):
        status = res[0]
        kind = status.split(':')[1] if status.startswith('err') else 'ok'
        ctx.count('typed:program:' + kind)
        ctx.case(('typed', case_ident_t(case)), True, sample={'typed_case': case_json_t(case), 'impl_status': status})
        try:
            model = parse_trun(out)
        except Exception as e:  # noqa: BLE001
            ctx.disagree(case_json_t(case), status, out[:200], f'typed: unparsable model output {e!r}')
            continue
        ik = (status, [(q[0], impl_frame_key(q[1]) if q[0] == 'Q' else q[1]) for q in res[1]], [impl_frame_key(f) for f in res[2]])
        mqs = []
        for i, q in enumerate(model[1]):
            if q[0] == 'Q':
                skip = i < len(res[1]) and res[1][i][0] == 'Q' and res[1][i][1][2] == 'skipped'
                mqs.append(('Q', model_frame_key(q[1], skip)))
            else:
                mqs.append(q)
        mk = (model[0], mqs, [model_frame_key(f, i < len(res[2]) and res[2][i][2] == 'skipped') for i, f in enumerate(model[2])])
        if ik != mk:
            ctx.disagree(case_json_t(case), repr(ik)[:700], repr(mk)[:700],
                         'typed cascade level: status / dtypes / values differ (must agree bit for bit)')
        else:
            ctx.count('typed:cascade:bit-identical')
    # step level
    calls = list(chop_calls.values())
    lines = []
    for c in calls:
        lines.append('c11.tchop ' + ('1' if c[0] else '0') + ' ' + ttok(c[1][1], c[1][0]) + ' '
                     + ' '.join(ttok(t, c[2][0]) + ' ' + ttok(w, c[3][0]) for t, w in zip(c[2][1], c[3][1])))
    outs = ctx.driver(lines)
    for c, out in zip(calls, outs):
        o = c[4]
        if o is None:
            exp = 'none'
        elif o[0] == 'err':
            exp = 'err:' + o[1]
        else:
            exp = ' '.join(ttok(t, o[0][0]) + ' ' + ttok(w, o[1][0]) for t, w in zip(o[0][1], o[1][1]))
        ctx.case(('tchop', c[0], c[1][0], bits(c[1][1]), c[2][0], tuple(map(bits, c[2][1])), c[3][0], tuple(map(bits, c[3][1]))), True)
        ctx.count('typed:step:_chop:' + ('none' if o is None else (o[1] if o[0] == 'err' else 'ok')) + ':' + c[2][0] + '/' + c[3][0] + '/' + c[1][0])
        if exp != out:
            ctx.disagree({'op': '_chop(typed)', 'close_to_open': c[0], 'time': (c[1][0], float(c[1][1]).hex()),
                          'times': (c[2][0], [float(x).hex() for x in c[2][1]]), 'wavelengths': (c[3][0], [float(x).hex() for x in c[3][1]])},
                         exp, out, 'typed step level: _chop differs from the TV model (dtype or bits)')
    calls = list(prop_calls.values())
    lines = ['c11.tprop ' + ' '.join(ttok(x, 'float64') for x in k) + ' ' + ttok(c[0][1], c[0][0]) + ' '
             + ' '.join(ttok(t, c[1][0]) + ' ' + ttok(w, c[2][0]) for t, w in zip(c[1][1], c[2][1])) for c in calls]
    outs = ctx.driver(lines)
    for c, out in zip(calls, outs):
        exp = ' '.join(ttok(x, c[3][0]) for x in c[3][1])
        ctx.case(('tprop', c[0][0], bits(c[0][1]), c[1][0], tuple(map(bits, c[1][1])), c[2][0], tuple(map(bits, c[2][1]))), True)
        ctx.count(f'typed:step:propagate_times:{c[1][0]}/{c[2][0]}/{c[0][0]}->{c[3][0]}')
        if exp != out:
            ctx.disagree({'op': 'propagate_times(typed)', 'distance': (c[0][0], float(c[0][1]).hex()),
                          'times': (c[1][0], [float(x).hex() for x in c[1][1]]), 'wavelengths': (c[2][0], [float(x).hex() for x in c[2][1]])},
                         exp, out, 'typed step level: propagate_times differs from the TV model (dtype or bits)')


# ---- oracle -----------------------------------------------------------------------------------

# the classes of input the unchanged code rejects loudly (no polygons are reported, so the property makes no statement);
# which members of these classes are rejected exactly is pinned by the typed correspondence (Lean model at carrier TV)
DTYPE_REJECTION_CLASSES = {'wavelength-float32', 'wavelength-int64', 'wavelength-int32',
                           'chopper-times-float32', 'chopper-times-int64', 'chopper-times-int32'}


def predict_unit_rejection(case, frames):
    """(index of the chop op that raises UnitError | None, set of query numbers that raise UnitError), from the units only:
    window times not in s reach `_chop` (frame has a subframe, chopper has a window); choppers of one chop() call with
    distances in different units cannot be sorted; seq[d] compares d (in m) with every frame distance up to the first
    larger one, and a frame made by propagate_to(x cm) keeps cm"""
    units = ['m']
    dists = [Fraction(0)]
    bad_op, bad_q = None, set()
    qi = 0
    for i, op in enumerate(case['ops']):
        if op[0] == 'C':
            if bad_op is not None:
                continue
            if len({c['d']['u'] for c in op[1]}) > 1:
                bad_op = i
                continue
            for c in sorted(op[1], key=lambda c: exact(c['d'], DIST_UNITS)):
                nsub = len(frames[len(units) - 1][1]) if len(units) - 1 < len(frames) else 1
                if c['tu'] != 's' and c['open'] and nsub > 0:
                    bad_op = i
                    break
                units.append(units[-1])
                dists.append(exact(c['d'], DIST_UNITS))
        elif op[0] == 'T':
            if bad_op is None:
                units.append(op[1]['u'])
                dists.append(exact(op[1], DIST_UNITS))
        elif op[0] == 'Q':
            if bad_op is None:
                dq = exact(op[1], DIST_UNITS)
                for u, d in zip(units, dists):
                    if u != 'm':
                        bad_q.add(qi)
                        break
                    if d > dq:
                        break
            qi += 1
    return bad_op, bad_q


def classify_inputs(case):
    """which kinds of typed inputs occur (used to give violations a specific, stable key)"""
    kinds = set()
    ops = [(o, 's') for o in case['pulse']['t']] + [(o, 'angstrom') for o in case['pulse']['w']]
    for op in case['ops']:
        if op[0] == 'C':
            for c in op[1]:
                ops.append((c['d'], 'm'))
                if c['tu'] != 's':
                    kinds.add('chopper-times-not-seconds')
                if c['tdt'] != 'float64':
                    kinds.add('chopper-times-' + c['tdt'])
        else:
            ops.append((op[1], 'm'))
    for o, base in ops:
        if o['dt'].startswith('int') and o['u'] != base and (Fraction(o['v']) * TABLES[base][o['u']]).denominator != 1:
            kinds.add('integer-in-derived-unit')  # an integer operand whose conversion to the base unit is inexact
        if o['dt'] == 'float32' and o['u'] != base:
            kinds.add('float32-in-derived-unit')  # Variable.to(unit=...) rounds the converted value to single precision
        if base == 'm' and o['u'] != 'm':
            kinds.add('distance-not-metre')
        if base == 'm' and o['dt'] == 'float32':
            # distance differences with a single precision operand are single precision (also int64 - float32)
            kinds.add('float32-in-derived-unit')
    if case['pulse']['w'][0]['dt'] != 'float64':
        kinds.add('wavelength-' + case['pulse']['w'][0]['dt'])
    return kinds


def oracle_case_t(case, seed, c11, budget, stats=None):
    """the property on the real code for one typed program, judged against the exact value of the typed inputs"""
    found = []
    rng = random.Random(seed)
    K = _kfrac()

    def stat(k, n=1):
        if stats is not None:
            stats(k, n)

    res = run_impl_t(case, budget)
    status, qs, frames = res
    kinds = classify_inputs(case)
    P = case['pulse']
    pulse = [exact(P['t'][0], TIME_UNITS), exact(P['t'][1], TIME_UNITS), exact(P['w'][0], WAV_UNITS), exact(P['w'][1], WAV_UNITS)]
    # exact history: choppers (exact distance / windows) applied before each frame, exact distance of each frame
    hist, dists = [[]], [Fraction(0)]
    expect_err = None
    for i, op in enumerate(case['ops']):
        if op[0] == 'C':
            for c in sorted(op[1], key=lambda c: exact(c['d'], DIST_UNITS)):
                d = exact(c['d'], DIST_UNITS)
                if d < dists[-1] and expect_err is None:
                    expect_err = i
                ec = {'d': d, 'open': [Fraction(x) * TIME_UNITS[c['tu']] for x in c['open']],
                      'close': [Fraction(x) * TIME_UNITS[c['tu']] for x in c['close']]}
                hist.append(hist[-1] + [ec])
                dists.append(d)
            if expect_err is not None:
                break
        elif op[0] == 'T':
            hist.append(list(hist[-1]))
            dists.append(exact(op[1], DIST_UNITS))
    stat('typed:status:' + (status.split(':')[1] if status.startswith('err') else 'ok'))
    if status.startswith('err'):
        kind = status.split(':')[1]
        if kind == 'value' and expect_err is not None and status.endswith(':' + str(expect_err)):
            return found  # a chopper closer than the frame: rejected as it should be
        if kind == 'dtype' and (kinds & DTYPE_REJECTION_CLASSES):
            stat('typed:rejected:dtype')  # no answer is given: not a statement about polygons
        elif kind == 'unit' and status.endswith(':' + str(predict_unit_rejection(case, frames)[0])):
            stat('typed:rejected:unit')
        elif kind in ('dtype', 'unit'):
            found.append(('C11:unexpected-rejection', f'{status}: the cascade rejects operands of a class it accepts today '
                          f'(input classes {sorted(kinds)})', {}))
        else:
            found.append(('C11:chop-raises', f'program status {status} (only a chopper closer than the current frame may be rejected)', {}))
        nfr = len(frames)
    else:
        if expect_err is not None:
            found.append(('C11:chop-raises', f'a chopper closer than the current frame was accepted (op {expect_err})', {}))
            return found
        nfr = len(frames)
        if nfr != len(hist):
            found.append(('C11:frame-count', f'{nfr} frames for {len(hist) - 1} chopper/propagate steps', {}))
            return found
    # judge every frame that was produced (also those before an exception)
    targets = []
    for fi in range(min(nfr, len(hist))):
        targets.append((frames[fi], hist[fi], dists[fi], fi))
    qi = 0
    applied = []
    nf = 1
    for op in case['ops']:
        if nf > nfr:
            break
        if op[0] == 'C':
            for c in op[1]:
                applied.append({'d': exact(c['d'], DIST_UNITS), 'open': [Fraction(x) * TIME_UNITS[c['tu']] for x in c['open']],
                                'close': [Fraction(x) * TIME_UNITS[c['tu']] for x in c['close']]})
            nf += len(op[1])
        elif op[0] == 'T':
            nf += 1
        elif op[0] == 'Q':
            if qi < len(qs):
                dq = exact(op[1], DIST_UNITS)
                if qs[qi][0] == 'Q':
                    targets.append((qs[qi][1], [c for c in applied if c['d'] <= dq], dq, f'query{qi}'))
                elif dq >= 0:
                    k = qs[qi][1]
                    if k == 'unit' and qi in predict_unit_rejection(case, frames)[1]:
                        stat('typed:rejected:unit(getitem)')
                    else:
                        found.append(('C11:unexpected-rejection' if k in ('unit', 'dtype') else 'C11:getitem-raises',
                                      f'seq[distance] raised ({k}) for a distance behind the source (input classes {sorted(kinds)})', {'query': qi}))
            qi += 1
    bad_vertex = False
    for fr, chs, D, label in targets:
        (ddt, dv, du), subs, bounds, sb = fr
        # the frame must report the distance it was asked for
        if abs(Fraction(dv) * DIST_UNITS.get(du, Fraction(1)) - D) > (
                Fraction(1, 10**12) if (ddt == 'float64' and 'float32-in-derived-unit' not in kinds) else Fraction(1, 10**6)) * abs(D):
            found.append(('C11:frame-distance', f'frame {label} reports distance {dv} {du}, requested {float(D)} m', {'frame': label}))
        fsubs = [(ts, ws) for (_, ts), (_, ws) in subs]
        # every reported vertex is a transmitted point, up to rounding of the dtype of the result
        for si, ((tdt, ts), (wdt, ws)) in enumerate(subs):
            eps = Fraction(1, 10**12) if (tdt == 'float64' and 'float32-in-derived-unit' not in kinds) else Fraction(1, 10**6)
            for t, w in zip(ts, ws):
                t, w = Fraction(t), Fraction(w)
                shear = K * D * w
                t0 = t - shear
                sc_ = max(abs(t), abs(shear), abs(pulse[0]), abs(pulse[1]))
                ok = pulse[0] - eps * sc_ <= t0 <= pulse[1] + eps * sc_ and pulse[2] * (1 - eps) <= w <= pulse[3] * (1 + eps)
                for c in chs:
                    arr_ = t0 + K * c['d'] * w
                    s2 = max(sc_, abs(arr_), abs(K * c['d'] * w))
                    ok = ok and any(o - eps * max(s2, abs(o)) <= arr_ <= cl + eps * max(s2, abs(cl)) for o, cl in zip(c['open'], c['close']))
                if not ok and not bad_vertex:
                    bad_vertex = True
                    found.append(('C11:vertex-not-transmitted',
                                  f'vertex (t={float(t)!r} s, lambda={float(w)!r} A) of frame {label} at {float(D)} m is not a transmitted point '
                                  f'(emission time {float(t0)!r} s; pulse [{float(pulse[0])!r}, {float(pulse[1])!r}] s x '
                                  f'[{float(pulse[2])!r}, {float(pulse[3])!r}] A)', {'frame': label, 'subframe': si}))
        # the "iff" on sampled neutrons (exact)
        if any(tdt != 'float64' for (tdt, _), _ in subs) or 'float32-in-derived-unit' in kinds:
            stat('typed:points:skipped(single-precision result or single-precision unit conversion)')
            continue
        frame_f = (D, fsubs, None, None)
        pts = c11.sample_points(rng, [float(x) for x in pulse], K, [(float(D), fsubs)], 4, 10)

        def emit(key, extra, label=label):
            if key.startswith('C11:'):
                found.append((key, {'C11:transmitted-not-covered': 'a neutron emitted inside the pulse and passing every chopper is in no reported subframe polygon',
                                    'C11:polygon-contains-untransmitted': 'a reported subframe polygon contains a point that is not a transmitted neutron'}[key],
                              {**extra, 'frame': label}))
            else:
                stat('typed:point:' + key)
        c11.check_frame_points(pulse, chs, K, frame_f, pts, emit)
    # classify: violations that are explained by a documented class of input get that class as key
    out = []
    for key, what, extra in found:
        if key in ('C11:transmitted-not-covered', 'C11:polygon-contains-untransmitted', 'C11:vertex-not-transmitted', 'C11:frame-distance',
                   'C11:chop-raises', 'C11:frame-count') and 'integer-in-derived-unit' in kinds:
            key, what = 'C11:integer-unit-conversion-rounds', ('an integer-dtype operand given in ms/us/cm/mm/nm whose conversion is inexact is rounded to a whole number of s/m/angstrom '
                                                                'by Variable.to(unit=...), so the frames are those of other inputs: ' + what)
        out.append((key, what, extra))
    return out


def oracle_typed(ctx, deep, c11, budget):
    n = 60 if deep else ctx.n(140, 1200)
    cases = typed_corpus() + [gen_case_t(ctx.rng, True, ctx.count if not deep else None) for _ in range(n)]
    for case in cases:
        seed = ctx.rng.getrandbits(48)
        found = oracle_case_t(case, seed, c11, budget, stats=lambda k, n=1: ctx.count('oracle:' + k, n))
        ctx.case(('oracle-typed', case_ident_t(case)), True)
        seen = set()
        for key, what, extra in found:
            if key in seen:
                continue
            seen.add(key)
            ctx.violation(key, what, {'typed_case': case_json_t(case), 'sample_seed': seed, **(extra or {})})


def typed_corpus():
    """hand-written typed programs that are always run first"""
    def o(v, dt, u):
        return {'v': v, 'dt': dt, 'u': u}
    f = 'float64'
    return [
        # integer wavelength limits, propagation only (seeded change C11_6: inverse velocity cast to the wavelength dtype)
        {'pulse': {'t': [o(0.0, f, 's'), o(0.003, f, 's')], 'w': [o(2, 'int64', 'angstrom'), o(12, 'int64', 'angstrom')]},
         'ops': [['T', o(6.5, f, 'm')], ['T', o(28.0, f, 'm')], ['Q', o(28.0, f, 'm')]]},
        # single precision wavelength limits, double precision times
        {'pulse': {'t': [o(0.0, f, 's'), o(0.003, f, 's')], 'w': [o(2.0, 'float32', 'angstrom'), o(fit(12.1, 'float32'), 'float32', 'angstrom')]},
         'ops': [['T', o(28.0, f, 'm')], ['Q', o(13.0, f, 'm')]]},
        # integer wavelengths, a chopper window that contains the frame (no sloped edge is cut)
        {'pulse': {'t': [o(0.0, f, 's'), o(0.003, f, 's')], 'w': [o(2, 'int32', 'angstrom'), o(12, 'int32', 'angstrom')]},
         'ops': [['C', [{'d': o(10, 'int64', 'm'), 'tdt': f, 'tu': 's', 'open': [0.0], 'close': [1.0]}]], ['T', o(20.0, 'float32', 'm')]]},
        # everything single precision
        {'pulse': {'t': [o(0.0, 'float32', 's'), o(fit(0.003, 'float32'), 'float32', 's')],
                   'w': [o(2.0, 'float32', 'angstrom'), o(12.0, 'float32', 'angstrom')]},
         'ops': [['T', o(10.0, 'float32', 'm')]]},
    ]


def replay_typed(ctx, payload, c11, budget):
    w = payload.get('witness', {})
    case = case_from_json_t(w['typed_case'])
    found = oracle_case_t(case, w.get('sample_seed', 0), c11, budget)
    for k, what, _ in found:
        print('still observed:', k, '-', what)
    key = payload.get('key', '')
    return key in {k for k, _, _ in found}
