"""C11 — chopper-cascade frames are exactly the set of transmitted neutrons.

Tie (DESIGN.md section 6, C11), two granularities:
  * STEP level: `_chop` and `propagate_times` of the real module are wrapped from outside (restored
    afterwards) while real `FrameSequence.chop / propagate_to / __getitem__` programs run; every recorded
    `_chop` call is replayed through the Lean Float model and must agree bit for bit; every
    `propagate_times` call within 2 ulp.
  * CASCADE level: the same programs are run by the Lean model as a whole (`c11.run`) and compared
    structurally (status, frame / subframe / vertex counts, bounds / subbounds availability) and
    numerically (1e-12 relative).
Oracle (independent of the model): neutrons are flown through the cascade in exact rationals and compared
with exact point-in-polygon on the reported subframes; band, order independence, two-step propagation,
availability and correctness of bounds()/subbounds().
"""
from __future__ import annotations

import math
import random
import struct
from fractions import Fraction

PROP = 'C11'
LEAN_TARGETS = ['ScnVerif.Props.C11']
PROPS_FILE = 'ScnVerif/Props/C11.lean'
TRANSLATORS = []
RULE = (
    'seeded random programs on a FrameSequence: pulse rectangle (log-uniform widths), 0..5 choppers at random '
    'distances (sometimes equal), 1..4 windows each, every window drawn relative to the frame actually arriving at '
    'that chopper as containing / cutting-open / cutting-close / cutting-both / missing / touching (open or close '
    'equal to a vertex time bit for bit, or its nextafter neighbour); the chopper list is shuffled and sometimes split '
    'over several chop() calls, interleaved with propagate_to() and __getitem__(distance) queries (also before the '
    'source and behind a chopper that is closer than the current frame, for the error paths). A case is one program; '
    'typed programs draw dtype (float64/float32/int64/int32) and unit independently for pulse times, pulse wavelengths, '
    'chopper distances, chopper times and propagate_to / [distance] arguments; '
    'distinct = distinct (pulse, op sequence) bit patterns; non-trivial when at least one _chop call produced an '
    'intersection vertex. Every _chop / propagate_times call made by the real code inside a program is one further '
    'step-level evaluation.'
)
ASSUMPTIONS = [
    'theorems are over a linearly ordered field (exact arithmetic); the floating-point behaviour of the same '
    'definitions is tied bit for bit to the code by the step-level replay, not proved, except: for every carrier / '
    'arbitrary rounded arithmetic an edge of constant wavelength is cut at exactly that wavelength and a window edge '
    'through the bottom / top edge keeps the subframe regular (const_edge_exact, regular_preserved_rounded_partial_*); '
    'regularity at binary64 for cuts through slanted edges only is validated by the oracle on every run',
    'a reported polygon is read as the convex hull of its vertex list (proved equal to the intersection of the inner '
    'half-planes of its edges with its bounding box for every subframe the code can produce)',
    'completeness and regularity theorems need forward propagation (distance not decreasing) and m_n/h*scale >= 0; '
    'soundness holds for every history',
    'validated, not proved: the exact-rational sampling of neutrons (the "iff" on the real floating-point polygons) '
    'skips points within 1e-12 (relative to the frame extent) of a polygon edge or of a window edge',
    'scipp evaluates propagate_times as t + d*(w*m_n/h*1e-10) in binary64 (observed bit-exact; tolerance 2 ulp)',
    'dtypes float64 / float32 / int64 / int32 of every operand are modelled (carrier TV: promotion, single precision '
    'rounding, the final cast of propagate_times, DTypeError of sc.concat, UnitError for window times not in s) and tied '
    'bit for bit in canonical units s / angstrom / m; other units (ms, us, nm, m, cm, mm) are judged by the exact-rational '
    'oracle only (scipp Variable.to(unit=...) itself is not modelled); integers are assumed below 2^24 in magnitude',
]
TRUSTED = [
    'modelled, not verified: chopper_cascade.py propagate_times, _chop, Frame.chop/propagate_to/bounds/subbounds, '
    'Subframe.is_regular, FrameSequence.chop/propagate_to/__getitem__(distance)',
    "Python's sorted() is a stable sort (model: stable insertion sort)",
    'numpy/scipp min, max, ==, >=, <= on float64 are IEEE comparisons',
]
LEVEL_TEXT = (
    'Lean 4 theorems over any linearly ordered field, for every pulse rectangle, every list of choppers and windows and '
    'every history of chop/propagate calls: a point lies in the convex hull of some reported subframe IF AND ONLY IF it '
    'is a transmitted neutron (emitted inside the pulse, inside some window of every chopper applied) — frames_exact, '
    'with from_source_pulse_chop_exact for FrameSequence.chop end to end; wavelengths stay inside the source band; shear '
    'composes (two steps = one step); FrameSequence.chop applies the choppers sorted by distance whatever the listing '
    'order, the result is identical for distinct distances and covers the same neutrons for any distances; every '
    'subframe stays a convex counter-clockwise cycle with a vertex attaining both minima and one attaining both maxima, '
    'so subbounds() is defined and returns the extreme values of one and the same vertex — in exact arithmetic; for '
    'arbitrary rounded arithmetic: constant-wavelength edges are cut exactly and the subframe stays regular when a '
    'window edge passes through them. The same definitions run at binary64 and are compared bit for bit with every '
    '_chop call of the real code.'
)
LEVEL_NOTE = (
    'Trusted: Lean kernel, the three standard axioms, the hand transcription of chopper_cascade.py (tied by step-level '
    'bit-exact replay and cascade-level comparison on every run). Rounding is not covered by the theorems: the "iff" on '
    'the floating-point polygons and regularity at binary64 (beyond cuts through constant-wavelength edges, which are '
    'proved for arbitrary rounding) are validated on every run; the oracle re-finds the repaired defect '
    'C11:subbounds-raises:interpolation-rounding (fixed in 830dda9) if it comes back.'
)
TECHNIQUE = 'Lean 4 proof about an executable generic model + bit-exact step-level replay of the real code'

EPS = Fraction(1, 10**12)


# ---- bit helpers ------------------------------------------------------------------------------

def bits(x: float) -> str:
    return struct.pack('>d', float(x)).hex()


def unbits(h: str) -> float:
    return struct.unpack('>d', bytes.fromhex(h))[0]


def _ord(x: float) -> int:
    i = struct.unpack('>q', struct.pack('>d', float(x)))[0]
    return i if i >= 0 else -(i & 0x7FFFFFFFFFFFFFFF)


def ulps(a: float, b: float) -> int:
    if math.isnan(a) or math.isnan(b):
        return 0 if (math.isnan(a) and math.isnan(b)) else 1 << 62
    return abs(_ord(a) - _ord(b))


def close_rel(a: float, b: float, rel: float = 1e-12) -> bool:
    if a == b:
        return True
    return abs(a - b) <= rel * max(abs(a), abs(b))


# ---- the real code ----------------------------------------------------------------------------

def _mods():
    import scipp as sc
    from scippneutron.tof import chopper_cascade as cc

    return sc, cc


def consts():
    sc, _ = _mods()
    return (float(sc.constants.m_n.value), float(sc.constants.h.value),
            float(sc.to_unit(sc.scalar(1.0, unit='angstrom'), 'm').value))


def _errkind(e: Exception) -> str:
    for t, k in ((NotImplementedError, 'notimpl'), (ValueError, 'value'), (AttributeError, 'attribute'),
                 (IndexError, 'index')):
        if isinstance(e, t):
            return k
    return 'other:' + type(e).__name__


def mk_chopper(c):
    sc, cc = _mods()
    return cc.Chopper(
        distance=sc.scalar(c['d'], unit='m'),
        time_open=sc.array(dims=['w'], values=[float(x) for x in c['open']], unit='s', dtype='float64'),
        time_close=sc.array(dims=['w'], values=[float(x) for x in c['close']], unit='s', dtype='float64'),
    )


def mk_source(p):
    sc, cc = _mods()
    return cc.FrameSequence.from_source_pulse(
        sc.scalar(p[0], unit='s'), sc.scalar(p[1], unit='s'),
        sc.scalar(p[2], unit='angstrom'), sc.scalar(p[3], unit='angstrom'))


# scipp allows about 64.5k distinct dimension labels per process and every sc.reduce() call makes a fresh one
# (uuid); Frame.bounds() calls sc.reduce four times, so after ~16k bounds() calls in one process every further call
# raises RuntimeError('Exceeded maximum number of different dimension labels'). That is a limit of the scipp
# process, not a statement about a frame: bounds() is evaluated for the first BOUNDS_BUDGET frames of a run only.
BOUNDS_BUDGET = 12000
_bounds_calls = [0]


def bounds_budget():
    """may Frame.bounds() be evaluated once more in this process? (counts the call)"""
    if _bounds_calls[0] >= BOUNDS_BUDGET:
        return False
    _bounds_calls[0] += 1
    return True


def canon_frame(f):
    """(dist, [(times, wavelengths)], bounds | 'E' | 'skipped', subbounds | ('E', kind))"""
    subs = [([float(x) for x in s.time.values], [float(x) for x in s.wavelength.values]) for s in f.subframes]
    if _bounds_calls[0] >= BOUNDS_BUDGET:
        bounds = 'skipped'
    else:
        _bounds_calls[0] += 1
        try:
            b = f.bounds()
            bt, bw = b['time'].values, b['wavelength'].values
            bounds = (float(bt[0]), float(bt[1]), float(bw[0]), float(bw[1]))
        except RuntimeError as e:
            bounds = 'skipped' if 'dimension labels' in str(e) else 'E'
        except Exception:  # noqa: BLE001
            bounds = 'E'
    try:
        sb = f.subbounds()
        st, sw = sb['time'].values, sb['wavelength'].values
        sub = [(float(st[i][0]), float(st[i][1]), float(sw[i][0]), float(sw[i][1])) for i in range(len(st))]
    except Exception as e:  # noqa: BLE001
        sub = ('E', _errkind(e))
    return (float(f.distance.value), subs, bounds, sub)


def run_impl(case, keep=False):
    """run a program on the real code -> (status, [Q results], [frames]) in canonical form"""
    sc, _ = _mods()
    fs = mk_source(case['pulse'])
    status = 'ok'
    qs = []
    for i, op in enumerate(case['ops']):
        try:
            if op[0] == 'C':
                fs = fs.chop([mk_chopper(c) for c in op[1]])
            elif op[0] == 'T':
                fs = fs.propagate_to(sc.scalar(op[1], unit='m'))
            elif op[0] == 'Q':
                try:
                    qs.append(('Q', canon_frame(fs[sc.scalar(op[1], unit='m')])))
                except Exception as e:  # noqa: BLE001
                    qs.append(('QE', _errkind(e)))
        except Exception as e:  # noqa: BLE001
            status = f'err:{_errkind(e)}:{i}'
            break
    res = (status, qs, [canon_frame(f) for f in fs.frames])
    return (res, fs) if keep else res


class Recorder:
    """wrap `_chop` and `propagate_times` of the real module from outside; restored on exit"""

    def __init__(self):
        self.chops = []
        self.props = []

    def __enter__(self):
        _, cc = _mods()
        self.cc = cc
        self.orig_chop, self.orig_prop = cc._chop, cc.propagate_times
        rec = self

        def chop(frame, time, close_to_open):
            out = rec.orig_chop(frame, time, close_to_open)
            rec.chops.append((
                bool(close_to_open), float(time.value),
                [float(x) for x in frame.time.values], [float(x) for x in frame.wavelength.values],
                None if out is None else ([float(x) for x in out.time.values], [float(x) for x in out.wavelength.values]),
            ))
            return out

        def prop(time, wavelength, distance):
            out = rec.orig_prop(time, wavelength, distance)
            if time.ndim == 1 and wavelength.ndim == 1 and distance.ndim == 0:
                rec.props.append((float(distance.value), [float(x) for x in time.values],
                                  [float(x) for x in wavelength.values], [float(x) for x in out.values]))
            return out

        cc._chop, cc.propagate_times = chop, prop
        return self

    def __exit__(self, *a):
        self.cc._chop, self.cc.propagate_times = self.orig_chop, self.orig_prop


# ---- the Lean model ---------------------------------------------------------------------------

def run_line(case, k):
    toks = ['c11.run', bits(k[0]), bits(k[1]), bits(k[2]), bits(0.0)] + [bits(x) for x in case['pulse']]
    for op in case['ops']:
        if op[0] == 'C':
            toks += ['C', str(len(op[1]))]
            for c in op[1]:
                toks += [bits(c['d']), str(len(c['open']))]
                for o, cl in zip(c['open'], c['close']):
                    toks += [bits(o), bits(cl)]
        else:
            toks += [op[0], bits(op[1])]
    return ' '.join(toks)


def parse_run(line):
    toks = line.split(' ')
    pos = 0

    def tok():
        nonlocal pos
        pos += 1
        return toks[pos - 1]

    def num():
        t = tok()
        return float('nan') if t == 'nan' else unbits(t)

    def frame():
        d = num()
        nsub = int(tok())
        subs = []
        for _ in range(nsub):
            nv = int(tok())
            ts, ws = [], []
            for _ in range(nv):
                ts.append(num())
                ws.append(num())
            subs.append((ts, ws))
        t = tok()
        bounds = (num(), num(), num(), num()) if t == 'B' else 'E'
        t = tok()
        if t == 'S':
            n = int(tok())
            sub = [(num(), num(), num(), num()) for _ in range(n)]
        else:
            sub = ('E', tok())
        return (d, subs, bounds, sub)

    status = tok()
    qs, frames = [], []
    while pos < len(toks):
        t = tok()
        if t == 'Q':
            qs.append(('Q', frame()))
        elif t == 'QE':
            qs.append(('QE', tok()))
        elif t == 'F':
            frames.append(frame())
        else:
            raise ValueError('bad model output token ' + t)
    return (status, qs, frames)


# ---- comparison -------------------------------------------------------------------------------

def frame_shape(f):
    d, subs, b, sb = f
    return (len(subs), [len(t) for t, _ in subs], b if b in ('E', 'skipped') else 'ok',
            sb if (isinstance(sb, tuple) and sb and sb[0] == 'E') else len(sb))


def shape_nb(f):
    """frame_shape without the bounds status (for comparing two implementation results)"""
    sh = frame_shape(f)
    return (sh[0], sh[1], sh[3])


def mask_skipped(impl_frame, model_frame):
    """bounds() not evaluated on the implementation side (label budget): do not compare them"""
    if impl_frame[2] == 'skipped':
        return (model_frame[0], model_frame[1], 'skipped', model_frame[3])
    return model_frame


def frames_close(a, b, rel=1e-12):
    """same shape assumed; all numbers within rel"""
    if not close_rel(a[0], b[0], rel):
        return False
    for (t1, w1), (t2, w2) in zip(a[1], b[1]):
        if not all(close_rel(x, y, rel) for x, y in zip(t1 + w1, t2 + w2)):
            return False
    if a[2] not in ('E', 'skipped') and b[2] not in ('E', 'skipped') and not all(
            close_rel(x, y, rel) for x, y in zip(a[2], b[2])):
        return False
    if isinstance(a[3], list):
        for q1, q2 in zip(a[3], b[3]):
            if not all(close_rel(x, y, rel) for x, y in zip(q1, q2)):
                return False
    return True


def frames_bits_equal(a, b):
    def fl(f):
        out = [f[0]]
        for t, w in f[1]:
            out += t + w
        if f[2] not in ('E', 'skipped'):
            out += list(f[2])
        if isinstance(f[3], list):
            for q in f[3]:
                out += list(q)
        return [bits(x) for x in out]

    return fl(a) == fl(b)


def result_shape(r):
    return (r[0], [(q[0], frame_shape(q[1]) if q[0] == 'Q' else q[1]) for q in r[1]], [frame_shape(f) for f in r[2]])


def result_frames(r):
    return [q[1] for q in r[1] if q[0] == 'Q'] + list(r[2])


def near_tie(rec, nulp=4):
    """some vertex time within `nulp` ulp of a window edge in one of the recorded `_chop` calls"""
    for _, c, ts, _, _ in rec.chops:
        for t in ts:
            if ulps(t, c) <= nulp:
                return True
    return False


# ---- generators -------------------------------------------------------------------------------

def _lu(rng, lo, hi):
    return math.exp(rng.uniform(math.log(lo), math.log(hi)))


def gen_pulse(rng):
    r = rng.random()
    tmin = 0.0 if r < 0.3 else (rng.uniform(0, 2e-3) if r < 0.9 else -rng.uniform(0, 1e-3))
    tmax = tmin + _lu(rng, 1e-5, 5e-3)
    wmin = _lu(rng, 0.05, 10.0)
    wmax = wmin + _lu(rng, 0.02, 15.0)
    if rng.random() < 0.1:  # round numbers
        tmin = round(tmin, 4)
        tmax = tmin + (round(tmax - tmin, 4) or 1e-4)
        wmin = round(wmin, 1) or 0.1
        wmax = wmin + (round(wmax - wmin, 1) or 0.5)
    assert tmin < tmax and 0 < wmin < wmax
    return [tmin, tmax, wmin, wmax]


WINDOW_KINDS = ['contain', 'cut-open', 'cut-close', 'cut-both', 'miss-before', 'miss-after', 'touch-open', 'touch-close',
                'touch-open-next', 'touch-close-next', 'point']


def gen_window(rng, ts, kind):
    lo, hi = min(ts), max(ts)
    span = (hi - lo) or 1e-6
    v = rng.choice(ts)
    if kind == 'contain':
        return lo - rng.uniform(0.01, 1) * span, hi + rng.uniform(0.01, 1) * span
    if kind == 'cut-open':
        return rng.uniform(lo, hi), hi + rng.uniform(0.01, 1) * span
    if kind == 'cut-close':
        return lo - rng.uniform(0.01, 1) * span, rng.uniform(lo, hi)
    if kind == 'cut-both':
        a, b = sorted((rng.uniform(lo, hi), rng.uniform(lo, hi)))
        return a, b
    if kind == 'miss-before':
        return lo - 2 * span, lo - rng.uniform(0.01, 1) * span
    if kind == 'miss-after':
        return hi + rng.uniform(0.01, 1) * span, hi + 2 * span
    if kind == 'touch-open':
        return v, max(v, hi) + rng.choice([0.0, rng.uniform(0, 1) * span])
    if kind == 'touch-close':
        return min(v, lo) - rng.choice([0.0, rng.uniform(0, 1) * span]), v
    if kind == 'touch-open-next':
        return math.nextafter(v, rng.choice([-math.inf, math.inf])), hi + rng.uniform(0, 1) * span
    if kind == 'touch-close-next':
        return lo - rng.uniform(0, 1) * span, math.nextafter(v, rng.choice([-math.inf, math.inf]))
    if kind == 'point':
        return v, v
    raise ValueError(kind)


def gen_case(rng, count=None):
    """a random program; the windows of each chopper are drawn relative to the frame the real code
    produces at that chopper (inputs only: any float values are legal inputs)"""
    sc, cc = _mods()
    pulse = gen_pulse(rng)
    nch = rng.choice([0, 1, 1, 2, 2, 3, 3, 4, 5])
    dists = sorted(rng.uniform(0.5, 80.0) if rng.random() < 0.9 else float(rng.randint(1, 60)) for _ in range(nch))
    for i in range(1, nch):
        if rng.random() < 0.12:
            dists[i] = dists[i - 1]
    fs = mk_source(pulse)
    choppers = []
    for d in dists:
        fr = fs.frames[-1].propagate_to(sc.scalar(d, unit='m'))
        ts = [float(x) for s in fr.subframes for x in s.time.values]
        if not ts:
            ts = [0.0, 1e-3]
        nw = rng.randint(1, 4)
        wins = []
        for _ in range(nw):
            kind = rng.choice(WINDOW_KINDS[:4] * 3 + WINDOW_KINDS)
            if count:
                count('window:' + kind)
            wins.append(gen_window(rng, ts, kind))
        if rng.random() < 0.8:
            wins.sort()
            if rng.random() < 0.8:  # disjoint (possibly exactly touching) windows, as on a real disk
                wins = [(o, min(cl, wins[i + 1][0]) if i + 1 < len(wins) else cl) for i, (o, cl) in enumerate(wins)]
        c = {'d': d, 'open': [w[0] for w in wins], 'close': [w[1] for w in wins]}
        choppers.append(c)
        try:
            fs = fs.chop([mk_chopper(c)])
        except Exception:  # noqa: BLE001
            break
        if len(fs.frames[-1].subframes) > 40:  # overlapping windows multiply the subframes; keep programs affordable
            if count:
                count('generator:stopped-at-40-subframes')
            break
    # split the chopper list into chop() calls, shuffle inside a call
    ops = []
    i = 0
    while i < len(choppers):
        n = rng.randint(1, len(choppers) - i) if rng.random() < 0.4 else len(choppers) - i
        grp = choppers[i:i + n]
        rng.shuffle(grp)
        ops.append(['C', grp])
        i += n
        if rng.random() < 0.25:
            lastd = max(c['d'] for c in grp)
            nxt = choppers[i]['d'] if i < len(choppers) else lastd + 30
            ops.append(['T', rng.uniform(lastd, nxt) if rng.random() < 0.9 else nxt])
    if not ops or rng.random() < 0.5:
        lastd = max([c['d'] for c in choppers] + [0.0] + [o[1] for o in ops if o[0] == 'T'])
        ops.append(['T', lastd + _lu(rng, 0.01, 100)])
    maxd = max([c['d'] for c in choppers] + [1.0] + [o[1] for o in ops if o[0] == 'T'])
    for _ in range(rng.randint(0, 3)):
        pos = rng.randint(0, len(ops))
        r = rng.random()
        d = rng.uniform(0, maxd * 1.3) if r < 0.8 else (rng.choice(dists) if dists and r < 0.95 else -rng.uniform(0.1, 5))
        ops.insert(pos, ['Q', d])
    r = rng.random()
    if r < 0.04 and choppers:  # error path: a chopper closer than the current frame
        ops.append(['C', [dict(rng.choice(choppers), d=rng.uniform(0, maxd) * 0.5)]])
    elif r < 0.07:  # propagate backwards (accepted by the code), then query
        ops.append(['T', rng.uniform(0, maxd)])
        ops.append(['Q', rng.uniform(0, maxd)])
    return {'pulse': pulse, 'ops': ops}


def case_ident(case):
    out = [tuple(bits(x) for x in case['pulse'])]
    for op in case['ops']:
        if op[0] == 'C':
            out.append(('C', tuple((bits(c['d']), tuple(map(bits, c['open'])), tuple(map(bits, c['close']))) for c in op[1])))
        else:
            out.append((op[0], bits(op[1])))
    return tuple(out)


def case_json(case):
    """JSON-able, bit-exact (hex floats)"""
    ops = []
    for op in case['ops']:
        if op[0] == 'C':
            ops.append(['C', [{'d': float(c['d']).hex(), 'open': [float(x).hex() for x in c['open']],
                               'close': [float(x).hex() for x in c['close']]} for c in op[1]]])
        else:
            ops.append([op[0], float(op[1]).hex()])
    return {'pulse': [float(x).hex() for x in case['pulse']], 'ops': ops}


def case_from_json(j):
    fh = float.fromhex
    ops = []
    for op in j['ops']:
        if op[0] == 'C':
            ops.append(['C', [{'d': fh(c['d']), 'open': [fh(x) for x in c['open']], 'close': [fh(x) for x in c['close']]}
                              for c in op[1]]])
        else:
            ops.append([op[0], fh(op[1])])
    return {'pulse': [fh(x) for x in j['pulse']], 'ops': ops}


def corpus_cases():
    import json
    import os

    d = os.path.join(os.path.dirname(os.path.dirname(os.path.dirname(os.path.abspath(__file__)))), 'corpus', 'C11')
    out = []
    if os.path.isdir(d):
        for fn in sorted(os.listdir(d)):
            if fn.endswith('.json'):
                with open(os.path.join(d, fn)) as f:
                    j = json.load(f)
                for c in (j if isinstance(j, list) else [j]):
                    out.append(case_from_json(c.get('case', c)))
    return out


# ---- correspondence ---------------------------------------------------------------------------

def correspond(ctx):
    k = consts()
    ncases = ctx.n(400, 1500)
    cases = corpus_cases() + [gen_case(ctx.rng, ctx.count) for _ in range(ncases)]
    impl = []
    chop_calls = {}
    prop_calls = {}
    for case in cases:
        with Recorder() as rec:
            res = run_impl(case)
        tie = near_tie(rec)
        crossing = any(out is not None and len(out[0]) != sum(1 for _ in ts) or (out is not None and out[0] != ts)
                       for _, _, ts, _, out in rec.chops)
        impl.append((res, tie, crossing))
        for call in rec.chops:
            key = (call[0], bits(call[1]), tuple(map(bits, call[2])), tuple(map(bits, call[3])))
            chop_calls.setdefault(key, call)
        for call in rec.props:
            key = (bits(call[0]), tuple(map(bits, call[1])), tuple(map(bits, call[2])))
            prop_calls.setdefault(key, call)
    # CASCADE level
    outs = ctx.driver([run_line(c, k) for c in cases])
    for case, (res, tie, crossing), out in zip(cases, impl, outs):
        ctx.case(case_ident(case), crossing, sample={'case': case_json(case), 'impl_status': res[0],
                                                      'subframes_per_frame': [len(f[1]) for f in res[2]]})
        ctx.count('program:' + res[0].split(':')[0] + (':' + res[0].split(':')[1] if ':' in res[0] else ''))
        ctx.count(f'choppers:{sum(len(op[1]) for op in case["ops"] if op[0] == "C")}')
        for f in res[2]:
            ctx.count('frame:subframes:' + (str(len(f[1])) if len(f[1]) < 6 else '6+'))
            ctx.count('frame:subbounds:' + (f[3][1] if isinstance(f[3], tuple) else 'ok'))
        try:
            model = parse_run(out)
        except Exception as e:  # noqa: BLE001
            ctx.disagree(case_json(case), res[0], out[:200], f'unparsable model output: {e!r}')
            continue
        if len(model[1]) == len(res[1]) and len(model[2]) == len(res[2]):
            model = (model[0],
                     [(q[0], mask_skipped(r[1], q[1])) if q[0] == 'Q' and r[0] == 'Q' else q for r, q in zip(res[1], model[1])],
                     [mask_skipped(r, m) for r, m in zip(res[2], model[2])])
        if result_shape(res) != result_shape(model):
            if tie:
                ctx.count('cascade:near-tie-not-compared')
                continue
            ctx.disagree(case_json(case), repr(result_shape(res)), repr(result_shape(model)),
                         'cascade level: status / frame / subframe / vertex counts / bounds availability differ')
            continue
        fa, fb = result_frames(res), result_frames(model)
        if all(frames_bits_equal(a, b) for a, b in zip(fa, fb)):
            ctx.count('cascade:bit-identical')
        elif all(frames_close(a, b) for a, b in zip(fa, fb)):
            ctx.count('cascade:within-1e-12')
        else:
            ctx.disagree(case_json(case), repr(fa)[:600], repr(fb)[:600], 'cascade level: values differ by more than 1e-12 relative')
    # STEP level: _chop, bit for bit
    calls = list(chop_calls.values())
    lines = ['c11.chop ' + ('1' if c[0] else '0') + ' ' + bits(c[1]) + ' ' + ' '.join(bits(t) + ' ' + bits(w) for t, w in zip(c[2], c[3]))
             for c in calls]
    outs = ctx.driver(lines)
    for c, out in zip(calls, outs):
        exp = 'none' if c[4] is None else ' '.join(bits(t) + ' ' + bits(w) for t, w in zip(c[4][0], c[4][1]))
        nontrivial = c[4] is not None and c[4][0] != c[2]
        ctx.case(('chop', c[0], bits(c[1]), tuple(map(bits, c[2])), tuple(map(bits, c[3]))), nontrivial)
        ctx.count('step:_chop:' + ('none' if c[4] is None else ('unchanged' if not nontrivial else 'clipped')))
        if any(t == c[1] for t in c[2]):
            ctx.count('step:_chop:exact-tie')
        if exp != out:
            ctx.disagree({'op': '_chop', 'close_to_open': c[0], 'time': float(c[1]).hex(),
                          'times': [float(x).hex() for x in c[2]], 'wavelengths': [float(x).hex() for x in c[3]]},
                         exp, out, 'step level: _chop differs from the Float model (must agree bit for bit)')
    # STEP level: propagate_times, 2 ulp
    calls = list(prop_calls.values())
    lines = ['c11.prop ' + ' '.join(bits(x) for x in k) + ' ' + bits(c[0]) + ' ' + ' '.join(bits(t) + ' ' + bits(w) for t, w in zip(c[1], c[2]))
             for c in calls]
    outs = ctx.driver(lines)
    for c, out in zip(calls, outs):
        got = [unbits(x) for x in out.split(' ')] if out else []
        ctx.case(('prop', bits(c[0]), tuple(map(bits, c[1])), tuple(map(bits, c[2]))), c[0] != 0.0)
        worst = 0
        ok = len(got) == len(c[3])
        if ok:
            for t, w, a, b in zip(c[1], c[2], c[3], got):
                # 2 ulp of the larger of the operands / result (the sum may cancel)
                scale = max(abs(t), abs(a), abs(a - t))
                u = ulps(a, b)
                worst = max(worst, u)
                if u > 2 and abs(a - b) > 2 * math.ulp(scale):
                    ok = False
        ctx.count('step:propagate_times:' + ('bit-identical' if worst == 0 else f'{min(worst, 3)}ulp'))
        if not ok:
            ctx.disagree({'op': 'propagate_times', 'distance': float(c[0]).hex(), 'times': [float(x).hex() for x in c[1]],
                          'wavelengths': [float(x).hex() for x in c[2]]},
                         [float(x).hex() for x in c[3]], [float(x).hex() for x in got],
                         'step level: propagate_times differs from the Float model by more than 2 ulp')
    correspond_direct(ctx)
    _typed().correspond_typed(ctx, bounds_budget)


def _rand_poly(rng, nmax=8):
    """arbitrary vertex lists (not necessarily convex), with repeated times / wavelengths"""
    n = rng.randint(1, nmax)
    tpool = [rng.uniform(0, 0.1) for _ in range(rng.randint(1, 4))]
    wpool = [rng.uniform(0.1, 20) for _ in range(rng.randint(1, 4))]
    ts = [rng.choice(tpool) if rng.random() < 0.5 else rng.uniform(0, 0.1) for _ in range(n)]
    ws = [rng.choice(wpool) if rng.random() < 0.5 else rng.uniform(0.1, 20) for _ in range(n)]
    return ts, ws


def _mk_subframe(ts, ws):
    sc, cc = _mods()
    return cc.Subframe(time=sc.array(dims=['vertex'], values=ts, unit='s', dtype='float64'),
                       wavelength=sc.array(dims=['vertex'], values=ws, unit='angstrom', dtype='float64'))


def correspond_direct(ctx):
    """STEP level on inputs no cascade produces: `_chop` on arbitrary vertex lists with exact ties, and
    is_regular / bounds / subbounds of hand-made frames (regular and irregular), against the Lean model"""
    sc, cc = _mods()
    rng = ctx.rng
    n = ctx.n(600, 4000)
    calls = []
    for _ in range(n):
        ts, ws = _rand_poly(rng)
        r = rng.random()
        v = rng.choice(ts)
        c = v if r < 0.4 else (math.nextafter(v, rng.choice([-math.inf, math.inf])) if r < 0.55 else rng.uniform(-0.01, 0.11))
        flag = rng.random() < 0.5
        out = cc._chop(_mk_subframe(ts, ws), sc.scalar(c, unit='s'), flag)
        calls.append((flag, c, ts, ws, None if out is None else ([float(x) for x in out.time.values], [float(x) for x in out.wavelength.values])))
    lines = ['c11.chop ' + ('1' if c[0] else '0') + ' ' + bits(c[1]) + ' ' + ' '.join(bits(t) + ' ' + bits(w) for t, w in zip(c[2], c[3]))
             for c in calls]
    outs = ctx.driver(lines)
    for c, out in zip(calls, outs):
        exp = 'none' if c[4] is None else ' '.join(bits(t) + ' ' + bits(w) for t, w in zip(c[4][0], c[4][1]))
        ctx.case(('chop-direct', c[0], bits(c[1]), tuple(map(bits, c[2])), tuple(map(bits, c[3]))), c[4] is not None and c[4][0] != c[2])
        ctx.count('direct:_chop:' + ('none' if c[4] is None else ('unchanged' if c[4][0] == c[2] else 'clipped')))
        if exp != out:
            ctx.disagree({'op': '_chop(direct)', 'close_to_open': c[0], 'time': float(c[1]).hex(),
                          'times': [float(x).hex() for x in c[2]], 'wavelengths': [float(x).hex() for x in c[3]]},
                         exp, out, 'step level: _chop on an arbitrary vertex list differs from the Float model')
    frames = []
    for _ in range(ctx.n(300, 2000)):
        subs = []
        for _ in range(rng.randint(1, 3)):
            r = rng.random()
            if r < 0.5:
                subs.append(_rand_poly(rng, 6))
            else:  # a regular one: a sheared rectangle, possibly with a perturbed corner
                a, b = sorted((rng.uniform(0, 0.01), rng.uniform(0, 0.01)))
                lo, hi = sorted((rng.uniform(0.5, 5), rng.uniform(5, 15)))
                k = rng.uniform(0, 0.01)
                ts = [a + k * lo, b + k * lo, b + k * hi, a + k * hi]
                ws = [lo, lo, hi, hi]
                if r > 0.85:
                    i = rng.randrange(4)
                    ws[i] = math.nextafter(ws[i], rng.choice([0.0, 100.0]))
                subs.append((ts, ws))
        d = rng.uniform(0, 50)
        fr = cc.Frame(distance=sc.scalar(d, unit='m'), subframes=[_mk_subframe(ts, ws) for ts, ws in subs])
        frames.append((d, subs, canon_frame(fr)))
    lines = ['c11.frame ' + bits(d) + ' ' + str(len(subs)) + ''.join(
        ' ' + str(len(ts)) + ''.join(' ' + bits(t) + ' ' + bits(w) for t, w in zip(ts, ws)) for ts, ws in subs) for d, subs, _ in frames]
    outs = ctx.driver(lines)
    for (d, subs, impl), out in zip(frames, outs):
        ctx.case(('frame-direct', bits(d), tuple((tuple(map(bits, ts)), tuple(map(bits, ws))) for ts, ws in subs)), True)
        ctx.count('direct:subbounds:' + (impl[3][1] if isinstance(impl[3], tuple) else 'ok'))
        try:
            model = parse_run('ok F ' + out)[2][0]
        except Exception as e:  # noqa: BLE001
            ctx.disagree({'op': 'frame(direct)'}, repr(impl)[:300], out[:300], f'unparsable model output {e!r}')
            continue
        model = mask_skipped(impl, model)
        if frame_shape(impl) != frame_shape(model) or not frames_bits_equal(impl, model):
            ctx.disagree({'op': 'bounds/subbounds/is_regular(direct)', 'distance': float(d).hex(),
                          'subframes': [[[float(x).hex() for x in ts], [float(x).hex() for x in ws]] for ts, ws in subs]},
                         repr((impl[2], impl[3]))[:400], repr((model[2], model[3]))[:400],
                         'bounds / subbounds / is_regular of a hand-made frame differ from the Float model (must agree bit for bit)')


# ---- direct oracle ----------------------------------------------------------------------------

def kfrac():
    mn, h, s = consts()
    return Fraction(mn) / Fraction(h) * Fraction(s)


def transmitted(pulse, choppers, K, t0, lam):
    """emitted inside the pulse rectangle and inside some window of every chopper, decided exactly.
    Returns (bool, sure); sure=False if some comparison is within 1e-12 relative (boundary: not judged).
    Float prefilter (comparisons further apart than 1e-11 relative are decided in binary64, whose error is
    ~1e-15), exact rational fallback otherwise."""
    r = _transmitted_float(pulse, choppers, float(K), float(t0), float(lam))
    if r is not None:
        return r, True
    return _transmitted_exact(pulse, choppers, K, Fraction(t0), Fraction(lam))


PRE = 1e-11  # float prefilter: comparisons further apart than this (relative) are decided in binary64 (error ~1e-15)


def _transmitted_float(pulse, choppers, K, t0, lam):
    tmin, tmax, wmin, wmax = pulse
    tscale = max(abs(tmin), abs(tmax), tmax - tmin)
    for a, b, sc_ in ((tmin, t0, tscale), (t0, tmax, tscale), (wmin, lam, wmax), (lam, wmax, wmax)):
        if abs(a - b) <= PRE * sc_:
            return None
    ok = tmin <= t0 <= tmax and wmin <= lam <= wmax
    for c in choppers:
        shear = K * c['d'] * lam
        arr = t0 + shear
        through = False
        base = max(abs(t0), abs(shear))
        for o, cl in zip(c['open'], c['close']):
            sc_ = max(base, abs(o), abs(cl))
            if abs(arr - o) <= PRE * sc_ or abs(arr - cl) <= PRE * sc_:
                return None
            if o <= arr <= cl:
                through = True
        ok = ok and through
    return ok


def _transmitted_exact(pulse, choppers, K, t0, lam):
    tmin, tmax, wmin, wmax = (Fraction(x) for x in pulse)
    ok = True
    sure = True

    def cmp_le(a, b, scale):
        nonlocal sure
        if abs(a - b) <= EPS * scale:
            sure = False
        return a <= b

    tscale = max(abs(tmin), abs(tmax), tmax - tmin)
    ok &= cmp_le(tmin, t0, tscale) & cmp_le(t0, tmax, tscale) & cmp_le(wmin, lam, wmax) & cmp_le(lam, wmax, wmax)
    for c in choppers:
        arr = t0 + K * Fraction(c['d']) * lam
        through = False
        for o, cl in zip(c['open'], c['close']):
            fo, fc = Fraction(o), Fraction(cl)
            sc_ = max(abs(t0), abs(arr - t0), abs(fo), abs(fc))
            a = cmp_le(fo, arr, sc_)
            b = cmp_le(arr, fc, sc_)
            if a and b:
                through = True
        ok &= through
    return ok, sure


def _seg_dist2(px, py, ax, ay, bx, by):
    dx, dy = bx - ax, by - ay
    l2 = dx * dx + dy * dy
    if l2 == 0:
        return (px - ax) ** 2 + (py - ay) ** 2
    u = ((px - ax) * dx + (py - ay) * dy) / l2
    u = 0 if u < 0 else (1 if u > 1 else u)
    cx, cy = ax + u * dx, ay + u * dy
    return (px - cx) ** 2 + (py - cy) ** 2


def _pip(px, py, xs, ys):
    """crossing-number test, half-open rule (exact when fed Fractions)"""
    inside = False
    n = len(xs)
    for i in range(n):
        j = (i + 1) % n
        yi, yj = ys[i], ys[j]
        if (yi <= py) != (yj <= py):
            xi, xj = xs[i], xs[j]
            # x coordinate of the edge at height py
            xc = xi + (py - yi) * (xj - xi) / (yj - yi)
            if px < xc:
                inside = not inside
    return inside


def prep_poly(sub, Ts, Ls):
    ts, ws = sub
    xs = [a / Ts for a in ts]
    ys = [a / Ls for a in ws]
    return (xs, ys, min(xs), max(xs), min(ys), max(ys), sub)


def classify(t0, lam, K, D, prep, Ts, Ls):
    """'in' | 'out' | 'edge' for the arrival point (t0 + K*D*lam, lam) of the neutron (t0, lam) against a polygon
    (float vertices, prepared by prep_poly: coordinates scaled by (Ts, Ls)); float prefilter (bounding box, then
    points further than 1e-11 from every edge), exact rational fallback (edge = within 1e-12)"""
    xs, ys, x0, x1, y0, y1, sub = prep
    x, y = (float(t0) + float(K) * D * float(lam)) / Ts, float(lam) / Ls
    if x < x0 - 1e-9 or x > x1 + 1e-9 or y < y0 - 1e-9 or y > y1 + 1e-9:
        return 'out'
    n = len(xs)
    d2 = min(_seg_dist2(x, y, xs[i], ys[i], xs[(i + 1) % n], ys[(i + 1) % n]) for i in range(n))
    if d2 > PRE * PRE:
        return 'in' if _pip(x, y, xs, ys) else 'out'
    ts, ws = sub
    fT, fL = Fraction(Ts), Fraction(Ls)
    t0, lam = Fraction(t0), Fraction(lam)
    X, Y = (t0 + K * Fraction(D) * lam) / fT, lam / fL
    XS = [Fraction(a) / fT for a in ts]
    YS = [Fraction(a) / fL for a in ws]
    D2 = min(_seg_dist2(X, Y, XS[i], YS[i], XS[(i + 1) % n], YS[(i + 1) % n]) for i in range(n))
    if D2 <= EPS * EPS:
        return 'edge'
    return 'in' if _pip(X, Y, XS, YS) else 'out'


def frame_history(case):
    """choppers applied before each frame of the final sequence, mirroring the program (sorted per chop call)"""
    hist = [[]]
    for op in case['ops']:
        if op[0] == 'C':
            for c in sorted(op[1], key=lambda c: c['d']):
                hist.append(hist[-1] + [c])
        elif op[0] == 'T':
            hist.append(list(hist[-1]))
    return hist


def check_frame_points(pulse, choppers, K, frame, points, emit):
    """the 'iff' of the property on a set of exact emission points (t0, lam)"""
    d, subs = frame[0], frame[1]
    allt = [abs(x) for s in subs for x in s[0]] + [abs(pulse[0]), abs(pulse[1]), pulse[1] - pulse[0]]
    Ts = max(allt)
    Ls = max([abs(pulse[3])] + [abs(x) for s in subs for x in s[1]])
    n = 0
    preps = [prep_poly(s, Ts, Ls) for s in subs]
    for t0, lam in points:
        tr, sure = transmitted(pulse, choppers, K, t0, lam)
        if not sure:
            emit('skip-window-edge', None)
            continue
        cls = [classify(t0, lam, K, d, pp, Ts, Ls) for pp in preps]
        if 'edge' in cls:
            emit('skip-polygon-edge', None)
            continue
        covered = 'in' in cls
        n += 1
        if tr and not covered:
            emit('C11:transmitted-not-covered', {'t0': float(t0).hex(), 'lam': float(lam).hex(), 'frame_distance': float(d).hex()})
        elif covered and not tr:
            emit('C11:polygon-contains-untransmitted', {'t0': float(t0).hex(), 'lam': float(lam).hex(), 'frame_distance': float(d).hex()})
        else:
            emit('ok:' + ('transmitted' if tr else 'blocked'), None)
    return n


def sample_points(rng, pulse, K, frames, n_grid, n_rand):
    """emission points (t0, lam) as binary64 pairs (every float pair is a legitimate sample; they are
    judged exactly): a grid, uniform points inside and around the pulse rectangle, and points next to the
    reported vertices / edge midpoints / centroids (mapped back to emission coordinates)"""
    tmin, tmax, wmin, wmax = pulse
    Kf = float(K)
    pts = []
    g = n_grid
    for i in range(g):
        for j in range(g):
            pts.append((tmin + (tmax - tmin) * (i + 0.5) / g, wmin + (wmax - wmin) * (j + 0.37) / g))
    for _ in range(n_rand):
        pts.append((rng.uniform(tmin, tmax), rng.uniform(wmin, wmax)))
    for _ in range(max(2, n_rand // 4)):  # outside the pulse
        pts.append((rng.uniform(tmin - (tmax - tmin), tmax + (tmax - tmin)),
                    rng.uniform(max(wmin - (wmax - wmin), wmin * 0.5), wmax + (wmax - wmin))))
    for fr in frames:
        D = fr[0]
        subs = fr[1] if len(fr[1]) <= 8 else rng.sample(fr[1], 8)  # bound the cost for frames with many subframes
        for ts, ws in subs:
            n = len(ts)
            dt, dw = max(ts) - min(ts), max(ws) - min(ws)
            if dt <= 1e-9 * max(abs(max(ts)), abs(min(ts))) or dw <= 1e-9 * max(ws):
                continue  # degenerate (touching window): every such point is a boundary point and would be skipped
            area = abs(sum((ts[i] - ts[0]) * (ws[(i + 1) % n] - ws[0]) - (ts[(i + 1) % n] - ts[0]) * (ws[i] - ws[0])
                           for i in range(n))) / 2
            if area <= 1e-7 * dt * dw:
                continue  # a sliver (a window touching an earlier frame): same
            cx = sum(ts) / n
            cy = sum(ws) / n
            pts.append((cx - Kf * D * cy, cy))
            for i in rng.sample(range(n), min(n, 3)):
                j = (i + 1) % n
                mx = (ts[i] + ts[j]) / 2
                my = (ws[i] + ws[j]) / 2
                for f in (1e-6, -1e-6, 1e-2, -1e-2):
                    px, py = mx + (mx - cx) * f, my + (my - cy) * f
                    pts.append((px - Kf * D * py, py))
                # two points a few 1e-12 (of the frame extent) off the edge: decided by the exact rational path
                ux, uy = (mx - cx) / max(abs(max(ts)), abs(min(ts))), (my - cy) / max(ws)
                nu = math.hypot(ux, uy)
                if nu > 0:
                    for f in (4e-12 / nu, -4e-12 / nu):
                        px, py = mx + (mx - cx) * f, my + (my - cy) * f
                        pts.append((px - Kf * D * py, py))
                vx, vy = ts[i], ws[i]
                for f in (1e-5, -1e-5):
                    px, py = vx + (vx - cx) * f, vy + (vy - cy) * f
                    pts.append((px - Kf * D * py, py))
    return pts


def exact_minmax(sub):
    ts, ws = sub
    return (min(ts), max(ts), min(ws), max(ws))


def regular_exact(sub):
    ts, ws = sub
    lo = any(t == min(ts) and w == min(ws) for t, w in zip(ts, ws))
    hi = any(t == max(ts) and w == max(ws) for t, w in zip(ts, ws))
    return lo and hi


def irregularity_ulps(sub):
    """how far (in ulp of the wavelength) the subframe is from being regular"""
    ts, ws = sub
    lo = min(ulps(w, min(ws)) for t, w in zip(ts, ws) if t == min(ts))
    hi = min(ulps(w, max(ws)) for t, w in zip(ts, ws) if t == max(ts))
    lo2 = min(ulps(t, min(ts)) for t, w in zip(ts, ws) if w == min(ws))
    hi2 = min(ulps(t, max(ts)) for t, w in zip(ts, ws) if w == max(ws))
    return max(min(lo, lo2), min(hi, hi2))


def oracle_case(case, seed, deep, stats=None):
    """property statement on the real code for one program -> list of (key, what, witness-extra)"""
    sc, cc = _mods()
    found = []
    rng = random.Random(seed)
    K = kfrac()
    pulse = case['pulse']

    def stat(k):
        if stats is not None:
            stats(k)

    (res, fs) = run_impl(case, keep=True)
    status, qs, frames = res
    # chop() may raise only for a chopper that is closer to the source than the current frame
    last_d, expect_err = 0.0, None
    for i, op in enumerate(case['ops']):
        if op[0] == 'C':
            for d in sorted(c['d'] for c in op[1]):
                if d < last_d and expect_err is None:
                    expect_err = i
                last_d = max(last_d, d) if expect_err is None else last_d
            if expect_err is not None:
                break
        elif op[0] == 'T':
            last_d = op[1]
    got_err = int(status.split(':')[2]) if status.startswith('err:') else None
    if got_err != expect_err:
        found.append(('C11:chop-raises', f'program status {status}; an exception was expected at op {expect_err} '
                      '(only a chopper closer than the current frame may be rejected)', {}))
        stat('status:unexpected')
    else:
        stat('status:' + ('ok' if got_err is None else 'rejected-as-expected'))
    hist = frame_history(case)
    if status == 'ok' and len(hist) != len(frames):
        found.append(('C11:frame-count', f'{len(frames)} frames for {len(hist) - 1} chopper/propagate steps', {}))
        return found
    hist = hist[:len(frames)]
    # frames reached through a backward propagate_to (accepted by the code, negative shear) are outside the
    # regularity clause (the theorem needs d >= 0); everything else is judged on them too
    backward = [False]
    dists = [0.0]
    for op in case['ops']:
        if op[0] == 'C':
            for c in sorted(op[1], key=lambda c: c['d']):
                backward.append(backward[-1])
                dists.append(c['d'])
        elif op[0] == 'T':
            backward.append(backward[-1] or op[1] < dists[-1])
            dists.append(op[1])
    backward = backward[:len(frames)]

    def check_frame(fr, label, back):
        d, subs, bounds, sb = fr
        for si, (ts, ws) in enumerate(subs):
            for w in ws:
                if w < pulse[2] and ulps(w, pulse[2]) > 4 or w > pulse[3] and ulps(w, pulse[3]) > 4:
                    found.append(('C11:outside-band', f'vertex wavelength {w!r} outside the source band [{pulse[2]!r}, {pulse[3]!r}]',
                                  {'frame': label, 'subframe': si}))
        if not subs:
            return
        # bounds / subbounds are available and are the extreme values
        mm = [exact_minmax(s) for s in subs]
        if bounds == 'skipped':
            stat('bounds:not-evaluated(scipp dimension-label budget of the process)')
        elif bounds == 'E':
            found.append(('C11:bounds-raises', 'Frame.bounds() raised on a frame with subframes', {'frame': label}))
        elif tuple(bounds) != (min(m[0] for m in mm), max(m[1] for m in mm), min(m[2] for m in mm), max(m[3] for m in mm)):
            found.append(('C11:bounds-wrong', f'Frame.bounds() = {bounds} is not the extreme vertex values', {'frame': label}))
        if isinstance(sb, tuple):
            if back:
                stat('subbounds:raises-after-backward-propagation(not judged)')
                return
            irr = [si for si, s in enumerate(subs) if not regular_exact(s)]
            worst = max([irregularity_ulps(subs[si]) for si in irr], default=None)
            if sb[1] == 'notimpl' and irr and worst is not None and worst <= 4:
                key = 'C11:subbounds-raises:interpolation-rounding'
                what = (f'Frame.subbounds() raises NotImplementedError for a frame derived from a source rectangle: subframe '
                        f'{irr[0]} is irregular by {worst} ulp (interpolated wavelength (1-t)*w_i + t*w_j on an edge of constant '
                        f'wavelength is not exactly that wavelength)')
            else:
                key = 'C11:subbounds-raises'
                what = f'Frame.subbounds() raised ({sb[1]}) on a frame derived from a source rectangle; irregular subframes {irr}, by {worst} ulp'
            found.append((key, what, {'frame': label, 'subframes': irr}))
            stat('subbounds:raises')
        else:
            stat('subbounds:ok')
            if [tuple(q) for q in sb] != mm:
                found.append(('C11:subbounds-wrong', 'Frame.subbounds() is not the per-subframe extreme vertex values', {'frame': label}))

    for fi, fr in enumerate(frames):
        check_frame(fr, fi, backward[fi])
    # the "iff": exact neutrons vs exact point-in-polygon, on every frame and every query result
    targets = [(fr, chs) for fr, chs in zip(frames, hist)]
    # seq[d] (forward-only histories): the neutrons at distance d have passed the choppers applied so far with
    # distance <= d
    qi = 0
    applied = []
    nfr = 1
    for op in case['ops']:
        if nfr > len(frames):
            break
        if op[0] == 'C':
            applied = applied + sorted(op[1], key=lambda c: c['d'])
            nfr += len(op[1])
        elif op[0] == 'T':
            nfr += 1
        elif op[0] == 'Q':
            if qi < len(qs) and qs[qi][0] == 'Q':
                if backward[min(nfr, len(frames)) - 1]:
                    stat('query:after-backward-propagation(not judged)')
                else:
                    targets.append((qs[qi][1], [c for c in applied if c['d'] <= op[1]]))
                    check_frame(qs[qi][1], f'query{qi}', False)
            elif qi < len(qs) and op[1] >= 0:
                found.append(('C11:getitem-raises', f'seq[{op[1]!r} m] raised ({qs[qi][1]})', {'query': qi}))
            qi += 1
    npts = 0
    g, r = (5, 16) if not deep else (6, 30)
    pts = sample_points(rng, pulse, K, [t[0] for t in targets[-3:]], g, r)
    nbase = g * g + r + max(2, r // 4)  # grid + uniform + around the pulse; the rest derive from the last 3 targets
    for ti, (fr, chs) in enumerate(targets):
        def emit(key, extra, fr=fr, chs=chs):
            if key.startswith('C11:'):
                found.append((key, {'C11:transmitted-not-covered': 'a neutron emitted inside the pulse and passing every chopper is in no reported subframe polygon',
                                    'C11:polygon-contains-untransmitted': 'a reported subframe polygon contains a point that is not a transmitted neutron'}[key],
                              extra))
            else:
                stat('point:' + key)
        npts += check_frame_points(pulse, chs, K, fr, pts if ti >= len(targets) - 3 else pts[:nbase], emit)
    # two steps = one step
    if frames:
        last = fs.frames[-1]
        d0 = float(last.distance.value)
        d1 = d0 + _lu(rng, 1e-3, 50)
        d2 = d1 + _lu(rng, 1e-3, 50) if rng.random() < 0.8 else rng.uniform(0, d1)
        one = canon_frame(last.propagate_to(sc.scalar(d2, unit='m')))
        mid = last.propagate_to(sc.scalar(d1, unit='m'))
        two = canon_frame(mid.propagate_to(sc.scalar(d2, unit='m')))
        midc = canon_frame(mid)
        bad = frame_shape(one)[:2] != frame_shape(two)[:2]
        if not bad:
            for (t1, w1), (t2, w2), (tm, _) in zip(one[1], two[1], midc[1]):
                for a, b, m in zip(t1, t2, tm):
                    if abs(a - b) > 1e-12 * max(abs(a), abs(b), abs(m)):
                        bad = True
                if w1 != w2:
                    bad = True
        stat('two-step:checked')
        if bad:
            found.append(('C11:two-step-differs', f'propagate_to({d1!r}).propagate_to({d2!r}) differs from propagate_to({d2!r})',
                          {'d1': d1.hex(), 'd2': d2.hex()}))
        # seq[d] through an extra propagate_to
        if status == 'ok':
            try:
                a = canon_frame(fs[sc.scalar(d2, unit='m')]) if d2 >= d1 else None
                b = canon_frame(fs.propagate_to(sc.scalar(d1, unit='m'))[sc.scalar(d2, unit='m')]) if d2 >= d1 else None
            except Exception:  # noqa: BLE001
                a = b = None
            if a is not None and (frame_shape(a)[:2] != frame_shape(b)[:2] or not all(
                    abs(x - y) <= 1e-12 * max(abs(x), abs(y), abs(m))
                    for (t1, _), (t2, _), (tm, _) in zip(a[1], b[1], midc[1]) for x, y, m in zip(t1, t2, tm))):
                found.append(('C11:two-step-differs', 'seq[d] differs from seq.propagate_to(d1)[d]', {'d1': d1.hex(), 'd2': d2.hex()}))
    # order independence: shuffle every chop list; merge consecutive chop calls into one
    if status == 'ok':
        allch = [c for op in case['ops'] if op[0] == 'C' for c in op[1]]
        if len(allch) >= 2:
            perm = list(allch)
            rng.shuffle(perm)
            alt = {'pulse': pulse, 'ops': [['C', perm]]}
            base = {'pulse': pulse, 'ops': [['C', allch]]}
            ra, rb = run_impl(alt), run_impl(base)
            # compare with the original program too when it has no T ops in between (frames correspond)
            fa, fb = ra[2][-1], rb[2][-1]
            distinct = len({c['d'] for c in allch}) == len(allch)
            stat('order:checked:' + ('distinct-distances' if distinct else 'equal-distances'))
            if ra[0] != rb[0]:
                found.append(('C11:order-dependent', f'status {ra[0]} vs {rb[0]} for a permuted chopper list', {'perm': [allch.index(c) for c in perm]}))
            elif distinct:
                if shape_nb(fa) != shape_nb(fb) or not frames_close(fa, fb):
                    found.append(('C11:order-dependent', 'final frame differs for a permuted chopper list (distinct distances)',
                                  {'perm': [allch.index(c) for c in perm]}))
            else:
                # same distance listed in another order: the polygons may be listed / cut in another order; compare coverage
                def cover(fr):
                    out = []
                    for t0, lam in pts[:60]:
                        Ts = max([abs(x) for s in fr[1] for x in s[0]] + [abs(pulse[1])])
                        cls = [classify(t0, lam, K, fr[0], prep_poly(s, Ts, pulse[3]), Ts, pulse[3]) for s in fr[1]]
                        out.append('edge' if 'edge' in cls else ('in' if 'in' in cls else 'out'))
                    return out
                ca, cb = cover(fa), cover(fb)
                if any(x != y for x, y in zip(ca, cb) if 'edge' not in (x, y)):
                    found.append(('C11:order-dependent', 'coverage differs for a permuted chopper list (equal distances)',
                                  {'perm': [allch.index(c) for c in perm]}))
            # the final frame of the original program (possibly split / with propagate_to in between) covers the same set
            lastC = max(i for i, op in enumerate(case['ops']) if op[0] == 'C')
            if all(op[0] != 'T' for op in case['ops'][:lastC]) and distinct:
                idx = sum(len(op[1]) for op in case['ops'][:lastC + 1] if op[0] == 'C')
                if idx < len(frames) and (shape_nb(frames[idx]) != shape_nb(fb) or not frames_close(frames[idx], fb)):
                    found.append(('C11:two-step-differs', 'chop() split over several calls differs from a single chop() call', {}))
    if stats is not None:
        stats('oracle:points', npts)
    return found


def oracle(ctx, deep):
    n = 200 if deep else ctx.n(120, 800)
    cases = corpus_cases() + [gen_case(ctx.rng) for _ in range(n)]
    cases += [gen_horizontal_cut_case(ctx.rng) for _ in range(40 if deep else ctx.n(25, 150))]
    for case in cases:
        seed = ctx.rng.getrandbits(48)
        found = oracle_case(case, seed, deep, stats=lambda k, n=1: ctx.count('oracle:' + k, n))
        ctx.case(('oracle', case_ident(case)), True)
        seen = set()
        for key, what, extra in found:
            if key in seen:
                continue
            seen.add(key)
            ctx.violation(key, what, {'case': case_json(case), 'sample_seed': seed, 'deep': deep, **(extra or {})})
    import sys

    _typed().oracle_typed(ctx, deep, sys.modules[__name__], bounds_budget)


def _typed():
    from . import _c11_typed

    return _c11_typed


def gen_horizontal_cut_case(rng):
    """the situation singled out in DESIGN.md: a window edge cutting an edge of constant wavelength"""
    sc, _ = _mods()
    pulse = gen_pulse(rng)
    fs = mk_source(pulse)
    d = rng.uniform(1, 60)
    fr = fs.frames[0].propagate_to(sc.scalar(d, unit='m'))
    t = [float(x) for x in fr.subframes[0].time.values]
    wins = []
    if rng.random() < 0.5:
        o = rng.uniform(t[0], t[1])  # bottom edge
        wins.append((o, max(t) + 1.0))
    else:
        c = rng.uniform(t[3], t[2])  # top edge
        wins.append((min(t) - 1.0, c))
    chs = [{'d': d, 'open': [w[0] for w in wins], 'close': [w[1] for w in wins]}]
    if rng.random() < 0.5:
        d2 = d + rng.uniform(0.1, 30)
        f2 = mk_source(pulse).chop([mk_chopper(chs[0])]).frames[-1].propagate_to(sc.scalar(d2, unit='m'))
        ts = [float(x) for s in f2.subframes for x in s.time.values] or [0.0, 1.0]
        w = gen_window(rng, ts, rng.choice(WINDOW_KINDS[:4]))
        chs.append({'d': d2, 'open': [w[0]], 'close': [w[1]]})
    return {'pulse': pulse, 'ops': [['C', chs]]}


def replay(ctx, payload):
    w = payload.get('witness', {})
    key = payload.get('key', '')
    if 'typed_case' in w:
        import sys

        return _typed().replay_typed(ctx, payload, sys.modules[__name__], bounds_budget)
    if 'case' not in w:
        print('no case in witness; nothing to replay')
        return False
    case = case_from_json(w['case'])
    found = oracle_case(case, w.get('sample_seed', 0), bool(w.get('deep', False)))
    keys = {k for k, _, _ in found}
    for k, what, _ in found:
        print('still observed:', k, '-', what)
    return key in keys if key.startswith('C11:') else bool(keys)
