"""C13 — SQW content is what was supplied: pixels, run metadata, histogram metadata."""
from __future__ import annotations

import os
import struct
import tempfile

import numpy as np

from .. import sqwlib as L
from ..translate import sqw as tr_sqw

PROP = 'C13'
LEAN_TARGETS = ['ScnVerif.Props.C13']
PROPS_FILE = 'ScnVerif/Props/C13.lean'
TRANSLATORS = [tr_sqw.translate]
RULE = (
    'same builder programs as C12 (subsets/orders of the five calls, repeated calls, three byte orders, BytesIO and real '
    'files incl. targets that already hold data (existing larger/smaller file, file of another program, prefilled BytesIO), 0..1e5 pixels, chunk sizes around the pixel and the row count, 1..20 runs in direct and indirect mode) with '
    'content variety: custom row selections (1..12 rows, custom stored units); every numeric field (pixel coordinates, efix, en, angles, histogram scales/ranges/offsets) in dtype float64/float32/int64/int32 independently of its unit, with values that are not whole numbers in the stored unit; pixel values uniform / log-uniform over 1e-12..1e12 / exact float32 rounding midpoints / exactly '
    'representable / integers; input units drawn from {1/angstrom,1/nm,10/angstrom,1/um,1/fm}, {meV,ueV,eV,J}, '
    '{count, mega count}, angles in deg or rad, lattice spacings in angstrom/nm/pm; strings of length 0..300 incl. empty. '
    'Every file is decoded by the independent Python decoder and compared with the supplied values in exact rational '
    'arithmetic, then read through Sqw.read_data_block for every block. Distinct = distinct (call sequence, byte order, '
    'target, chunk, pixel seed/units/kind, runs).'
)
ASSUMPTIONS = [
    'scipp.to_unit multiplies by the unit ratio rounded to double (relative error <= 2^-51): a stored float32 may be the '
    'other neighbour only when the exact product lies within 2^-50 (relative) of the rounding boundary; such cases are counted',
    'where scipp itself uses a less accurate factor for a pair of units (measured at run time: J -> eV is off by '
    '3.8e-14) the tolerance for that row is widened by twice that error',
    'pixel values are finite, non-NaN and no negative zero; |value| < 2^53 for the integer rows',
    'every string, array and count fits its on-disk field (u32 lengths); strings may hold any UTF-8 text',
    'experiment vectors u, v and the source frequency are written as supplied without unit conversion',
    'the reader model covers read_object_array and every block parser on the image of the builder (numbers, strings, '
    'shapes); unit labels are compared through the generated tables and by the direct oracle; datetime parsing is not '
    'modelled (time stamps are compared as ISO strings)',
]
TRUSTED = [
    'translator harness/translate/sqw.py (unit= literals of writer and reader)',
    'modelled, not verified: model classes -> IR -> bytes (Model/Sqw/Build.lean), compared byte for byte on every run; '
    'read_object_array and _parse_* (Model/Sqw/Reader.lean), compared with Sqw.read_data_block on every regular block of every file',
    'the direct oracle in harness/sqwlib.py (exact rational unit ratios, independent decoder)',
]


KNOWN_KEYS = ('C13:reader-unit:alatt',)


def _tier(ctx, deep=False):
    if ctx.quick and not deep:
        return dict(n_random=110, all_orders=False, sweep_npix=[10, 27], big=[(100000, 8192)], n_non_ascii=12)
    return dict(n_random=4000 if not deep else 400, all_orders=False,
                sweep_npix=[0, 1, 9, 10, 27, 100, 1000, 8193],
                big=[(100000, 8192), (100000, 100000), (100000, 1000), (50000, 9)], n_non_ascii=150)


def _tables_crosscheck(ctx):
    """generated tables against what the running modules expose"""
    from scippneutron.io.sqw import _build

    def dec(x):
        return None if x == 'none' else ('' if x == '-' else bytes.fromhex(x).decode())

    rows = [tuple(dec(x) for x in e.split(':')) for e in ctx.driver(['c13.rows'])[0].split(';')]
    real = list(zip(_build._DEFAULT_PIX_ROWS, _build._DEFAULT_PIX_ROW_UNITS))
    ctx.case(('rows-table',), True)
    if rows != real:
        ctx.disagree('pixel row table', real, rows, 'translator output differs from _DEFAULT_PIX_ROWS/_UNITS')
    reader = {}
    for e in ctx.driver(['c13.units reader'])[0].split(';'):
        c, f, u = (dec(x) for x in e.split(':'))
        reader[(c, f)] = u
    # observe the labels of the real reader on a file that contains everything
    import random

    import scipp as sc
    from scippneutron.io.sqw import Sqw

    rng = random.Random(7)
    case = L.small_case(rng, 0, ['P', 'I', 'S', 'N', 'D'], npix=3)
    for r in case['ops'][0]['runs']:
        r['en_2d'] = None
    case['target'] = 'bytesio'
    data, target = L.build_real(case, None)
    target.seek(0)
    seen = {}

    def lab(v):
        if not isinstance(v, sc.Variable):
            return None
        return None if v.unit is None else ('dimensionless' if v.unit == sc.units.dimensionless else str(v.unit).replace('Å', 'angstrom'))

    import warnings

    with warnings.catch_warnings():
        warnings.simplefilter('ignore')
        with Sqw.open(target) as sqw:
            e = sqw.read_data_block('experiment_info', 'expdata')[0]
            for f in ('efix', 'en', 'psi', 'omega', 'dpsi', 'gl', 'gs', 'u', 'v'):
                seen[('IX_experiment/array_dat', f)] = lab(getattr(e, f))
            s = sqw.read_data_block('experiment_info', 'samples')[0]
            seen[('IX_sample', 'alatt')] = lab(s.lattice_spacing)
            seen[('IX_sample', 'angdeg')] = lab(s.lattice_angle)
            m = sqw.read_data_block('data', 'metadata')
            seen[('line_proj', 'alatt')] = lab(m.proj.lattice_spacing)
            seen[('line_proj', 'angdeg')] = lab(m.proj.lattice_angle)
            seen[('line_proj', 'u')] = lab(m.proj.u)
            seen[('line_proj', 'v')] = lab(m.proj.v)
            for i in range(4):
                seen[('line_proj', f'offset#{i}')] = lab(m.proj.offset[i])
                seen[('line_axes', f'offset#{i}')] = lab(m.axes.offset[i])
                seen[('line_axes', f'img_scales#{i}')] = lab(m.axes.img_scales[i])
                seen[('line_axes', f'img_range#{i}')] = lab(m.axes.img_range[i])
    for k, u in seen.items():
        ctx.case(('reader-table', k), True)
        ctx.count('table:reader-label-checked')
        if reader.get(k, 'missing') != u:
            ctx.disagree({'field': k}, u, reader.get(k, 'missing'), 'generated reader unit table differs from the label the reader attaches')


def _numeric_crosscheck(ctx):
    """natToF64 = float(n); the model's f64->f32 rounding = numpy's"""
    rng = ctx.rng
    ns = [0, 1, 2, 3, 4, 7, 255, 256, 2**31, 2**32 - 1, 2**52, 2**53 - 1] + [rng.randrange(0, 2**53) for _ in range(ctx.n(300, 5000))] \
        + [rng.randrange(0, 2**20) for _ in range(ctx.n(100, 2000))]
    outs = ctx.driver([f'c13.natf64 {n}' for n in ns])
    for n, o in zip(ns, outs):
        ctx.case(('natf64', n), True)
        if int(o, 16) != L.f64bits(float(n)):
            ctx.disagree({'op': 'natf64', 'n': n}, '%016x' % L.f64bits(float(n)), o)
    g = np.random.default_rng(rng.getrandbits(64))
    k = ctx.n(2000, 40000)
    xs = np.concatenate([g.uniform(-1e3, 1e3, k), np.exp(g.uniform(-90, 90, k)) * g.choice([-1.0, 1.0], k),
                         np.array([0.0, 1e-46, 3.4028235e38, 3.4028236e38, 1e39, -1e39, 1.401298464324817e-45, 7e-46])])
    base = g.uniform(-100, 100, k).astype(np.float32)
    mid = (base.astype(np.float64) + np.nextafter(base, np.float32(np.inf)).astype(np.float64)) / 2
    xs = np.concatenate([xs, mid])
    outs = ctx.driver(['c13.round %016x' % L.f64bits(float(x)) for x in xs])
    with np.errstate(over='ignore'):
        want = xs.astype(np.float32).view(np.uint32)
    for x, o, w in zip(xs, outs, want):
        ctx.case(('round', float(x)), True)
        if int(o, 16) != int(w):
            ctx.disagree({'op': 'round', 'x': float(x)}, '%08x' % int(w), o)
    ctx.count('round:values', len(xs))


def correspond(ctx):
    try:
        _tables_crosscheck(ctx)
    except Exception as e:  # noqa: BLE001  (the observation file could not be written or read back)
        ctx.disagree('reader unit table cross-check', f'raises {type(e).__name__}', 'labels',
                     'the real builder/reader failed on the probe file used to observe the reader labels')
    _numeric_crosscheck(ctx)
    with tempfile.TemporaryDirectory(prefix='scn_c13_') as td:
        batch = []
        for case in L.case_stream(ctx, **_tier(ctx)):
            data, target, exc = L.try_build(case, td)
            if exc is not None:
                ctx.disagree({'calls': [op['k'] for op in case['ops']], 'id': case['id']}, f'raises {type(exc).__name__}',
                             'a file', 'the real builder raises on a valid program; the model writes a file')
                continue
            L.count_case(ctx, case, len(data))
            ctx.case(L.case_ident(case), True, sample=L.sample_of(case, len(data)))
            batch.append((case, data))
            L.correspond_reader(ctx, [(case, data, target)])
            if case['target'] == 'file':
                os.remove(target)
            if sum(len(d) for _, d in batch) > 8_000_000 or len(batch) >= 400:
                L.correspond_model(ctx, batch, td, 'content')
                batch = []
        L.correspond_model(ctx, batch, td, 'content')


def _check_case(ctx, case, td):
    data, target, exc = L.try_build(case, td)
    if exc is not None:
        _report(ctx, 'C13:builder-raises', f'SqwBuilder raises {type(exc).__name__} on a valid program: {str(exc)[:100]}', {'case': case})
        return
    v = L.content_violations(case, data, td)
    v += L.reader_content_violations(case, data, target, td, counts=ctx.count)
    if [x for x in v if x[0] not in KNOWN_KEYS] and L.has_non_ascii(case):
        plain = L.asciified(case)
        d2, t2, e2 = L.try_build(plain, td)
        if e2 is None:
            v2 = L.content_violations(plain, d2, td) + L.reader_content_violations(plain, d2, t2, td)
            if not [x for x in v2 if x[0] not in KNOWN_KEYS]:
                v = [x for x in v if x[0] in KNOWN_KEYS] + [(
                    'C13:non-ascii-string-length',
                    'a string with characters outside ASCII is not stored as supplied: the char array is declared with '
                    'len(str) characters but holds the UTF-8 bytes, the rest of the block is unreadable')]
    ctx.case(('oracle',) + L.case_ident(case), True)
    ctx.count('oracle:files')
    for key, what in v:
        _report(ctx, key, what, {'case': case})
    if case['target'] == 'file' and os.path.exists(target):
        os.remove(target)


def _report(ctx, key, what, witness, cap=3):
    """the framework keeps at most 200 violations: report each class a few times only (all are counted),
    so that a frequent known finding cannot crowd out a new one"""
    seen = ctx.__dict__.setdefault('_per_key', {})
    seen[key] = seen.get(key, 0) + 1
    if seen[key] <= cap:
        ctx.violation(key, what, witness)
    else:
        ctx.count('violation:' + key)


def oracle(ctx, deep):
    """Decode the real file independently and compare with what was supplied (exact rationals);
    then read every block with the package's reader."""
    with tempfile.TemporaryDirectory(prefix='scn_c13_') as td:
        for case in L.case_stream(ctx, **_tier(ctx, deep)):
            _check_case(ctx, case, td)
            if deep and len([v for v in ctx.violations if v['key'] not in KNOWN_KEYS]) >= 8:
                break


def replay(ctx, payload):
    case = payload['witness']['case']
    key = payload['key']
    with tempfile.TemporaryDirectory(prefix='scn_c13_') as td:
        _check_case(ctx, case, td)
    for v in ctx.violations:
        print(v['key'], '-', v['what'])
    return any(v['key'] == key for v in ctx.violations)


_ = struct
LEVEL_TEXT = (
    'Lean 4 theorems about the executable model of the SQW writer (model classes -> IR -> bytes, pixel chunk loop with an '
    'abstract rounding function), an independent decoder and a model of the package reader: decoding a written file '
    'returns exactly the supplied content for every builder program whose arguments fit the format (codec round trip, '
    'payload floats opaque); all N pixels are stored once, in order, independent of the chunk size, each rounded once '
    '(standard-model error bound over the reals); data_range is the per-row min/max; run ids are 1-based (the stored '
    'double denotes run_id+1), energies in meV, angles in radians; instrument and sample containers hold one shared object; '
    'the reader (read_object_array + _parse_* for main header, pixel metadata, experiments incl. 2-d en, sample and '
    'instrument containers, histogram metadata) returns the numbers, strings and shapes that were written; reader unit labels have the '
    'dimension of the written unit for every field except alatt (decide over translator-regenerated tables; the alatt '
    'mismatch is proved and is a known finding).'
)
LEVEL_NOTE = (
    'Trusted: Lean kernel, propext/Classical.choice/Quot.sound, the ast translator, the hand transcriptions of writer and '
    'reader (writer compared byte for byte, reader compared result for result with the implementation on every run). Unit '
    'conversion itself (scipp.to_unit) is outside the model and is validated by the direct oracle in exact rational '
    'arithmetic.'
)
TECHNIQUE = 'Lean 4 proof about executable byte-level models of writer and reader + byte-for-byte correspondence + exact-rational direct oracle'
