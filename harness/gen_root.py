"""Write lean/ScnVerif.lean importing every module of the library (so `lake build` checks all)."""
import os

LEAN = os.path.join(os.path.dirname(os.path.dirname(os.path.abspath(__file__))), 'lean')
mods = []
for root, dirs, files in os.walk(os.path.join(LEAN, 'ScnVerif')):
    dirs.sort()
    if os.path.basename(root) == 'Audit':
        continue
    for fn in sorted(files):
        if fn.endswith('.lean'):
            rel = os.path.relpath(os.path.join(root, fn), LEAN)[:-5]
            mods.append(rel.replace(os.sep, '.'))
text = ''.join(f'import {m}\n' for m in sorted(mods))
path = os.path.join(LEAN, 'ScnVerif.lean')
if not os.path.exists(path) or open(path).read() != text:
    open(path, 'w').write(text)
print(f'{len(mods)} modules')
