"""Regenerate MANIFEST.json from the property modules present under harness/props."""
import importlib
import json
import os
import sys

VERIF = os.path.dirname(os.path.dirname(os.path.abspath(__file__)))
sys.path.insert(0, VERIF)
ALL = [f'C{i:02d}' for i in range(1, 21)]
BASELINE = (
    'cd /repo && /venv/bin/python -m pytest -ra -q -p no:cacheprovider --timeout=900 '
    '--continue-on-collection-errors'
)

checks, na = [], []
# properties whose module exists but is temporarily not registered (reason)
HOLD = {}
for p in ALL:
    path = os.path.join(VERIF, 'harness', 'props', p.lower() + '.py')
    if not os.path.exists(path):
        na.append({'property_id': p, 'reason': 'check not built yet in this round (design in DESIGN.md section 6); not claimed'})
        continue
    if p in HOLD:
        na.append({'property_id': p, 'reason': HOLD[p]})
        continue
    m = importlib.import_module(f'harness.props.{p.lower()}')
    if getattr(m, 'NOT_CLAIMED', None):
        na.append({'property_id': p, 'reason': m.NOT_CLAIMED})
        continue
    checks.append({
        'property_id': p,
        'quick_cmd': f'./check {p} --tier quick',
        'thorough_cmd': f'./check {p} --tier thorough',
        'evidence_file': f'evidence/{p}.json',
        'replay_cmd_template': f'./check {p} --replay {{path}}',
        'engine': 'lean4-proof+correspondence',
        'level_claimed': {
            'category': 'proof',
            'text': m.LEVEL_TEXT,
            'design_ref': f'DESIGN.md section 6 ({p})',
        },
        'level_note': m.LEVEL_NOTE,
        'technique': m.TECHNIQUE,
    })

manifest = {
    'version': 1,
    'setup_cmd': '/venv/bin/python harness/gen_root.py && cd lean && lake build',
    'hooks': {
        'guard': 'SCIPPNEUTRON_VERIF',
        'enable': 'none needed: the harness wraps internals from outside; no hook commits exist in /repo',
        'baseline_off_cmd': BASELINE,
        'source_commits': [],
        'add_only': True,
    },
    'engines': [{
        'name': 'lean4-proof+correspondence',
        'path': 'check',
        'serves_properties': [c['property_id'] for c in checks],
        'kind_free_text': 'Lean 4 theorems about an executable model (lean/ScnVerif), tables regenerated from /repo by a '
                          'translator on every run, hand-written model tied to the code by a differential correspondence '
                          'run through a line-protocol driver; direct property oracles on the real code search for failing inputs',
    }],
    'checks': checks,
    'notes': 'See DESIGN.md. Exit 0 = held, 1 = VIOLATION line printed, 2 = infrastructure error/time-out.',
    'not_applicable': na,
}
with open(os.path.join(VERIF, 'MANIFEST.json'), 'w') as f:
    json.dump(manifest, f, indent=1)
    f.write('\n')
print(len(checks), 'checks;', len(na), 'not claimed')
